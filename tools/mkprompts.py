#!/usr/bin/env python3
"""tools/mkprompts.py <round-number> <ordinal word> <suffix1> <suffix2> <worktree prefix letter> <out dir>
Writes one prompt per pair of properties (C01+C02, C03+C04, ...) for the sub-agents that write seeded changes.
The prompt carries only the property text and the summaries of the changes already written (never anything about /verif)."""
import json, sys, glob, os
rnd, word, s1, s2, letter, out = sys.argv[1:7]
props = [json.loads(l) for l in open('/verif/properties.jsonl')]
prior = {}
for d in sorted(glob.glob('/verif/seeded/C*-*')):
    m = json.load(open(os.path.join(d, 'meta.json')))
    pid = os.path.basename(d).split('-')[0]
    prior.setdefault(pid, []).append((m.get('summary', '')[:400], m.get('files_changed', [])))
template = open('/verif/tools/prompt_head.txt').read()
os.makedirs(os.path.join(out, 'prompts'), exist_ok=True)
for i in range(0, len(props), 2):
    name = '%s%02d' % (letter, i + 1)
    n = max(len(prior.get(p['id'], [])) for p in props[i:i + 2])
    text = template.replace('@WT@', '/tmp/wt/' + name).replace('@OUT@', out).replace('@ORD@', word).replace('@N@', str(n)).replace('@S1@', s1).replace('@S2@', s2)
    text += '\nThe properties:\n'
    for p in props[i:i + 2]:
        text += '\n### Property %s: %s\n\nStatement: %s\n\nQuantified over: %s\n\nCode it is anchored in: %s\n\nAlready written in earlier rounds (do NOT repeat these):\n' % (
            p['id'], p['title'], p['statement'], p['quantifier']['text'], ', '.join(p['anchors']['files']))
        for s, f in prior.get(p['id'], []):
            text += '  - %s  [files: %s]\n' % (s, f)
    open(os.path.join(out, 'prompts', name + '.txt'), 'w').write(text)
    print(name, len(text))
