#!/bin/bash
# tools/confirm_seeded.sh <src-dir-with-patch-meta-demo> <ID>
# Confirms a seeded change in a scratch worktree of /repo HEAD: (1) demo passes on the unchanged tree,
# (2) with the patch the project builds and the whole existing suite passes, (3) the demo fails with the patch.
# Prints one JSON line with the outcome; removes the worktree.
set -u
export GOFLAGS=-mod=mod GOPROXY=off GOSUMDB=off GOTOOLCHAIN=local
SRC="$1"; ID="$2"
W=$(mktemp -d /tmp/confwt.XXXXXX); rmdir "$W"
git -C /repo worktree add -q --detach "$W" HEAD || exit 9
DEMO_PATH=$(python3 -c 'import json,sys; print(json.load(open(sys.argv[1]))["demo_path_in_repo"])' "$SRC/meta.json")
DEMO_CMD=$(python3 -c 'import json,sys; print(json.load(open(sys.argv[1]))["demo_cmd"])' "$SRC/meta.json")
DEMO_FILE=$(basename "$DEMO_PATH")
[ -f "$SRC/$DEMO_FILE" ] || DEMO_FILE=$(ls "$SRC" | grep -v -e meta.json -e patch.diff | head -1)
applies=no; suite=fail; demo_clean=fail; demo_patched=pass; build=fail
git -C "$W" apply --check "$SRC/patch.diff" 2>/dev/null && applies=yes
if [ $applies = yes ]; then
  git -C "$W" apply "$SRC/patch.diff"
  (cd "$W" && go build ./... >/dev/null 2>&1) && build=ok
  (cd "$W" && go test -vet=off -count=1 ./... >/tmp/conf_$ID.suite 2>&1) && suite=pass
  cp "$SRC/$DEMO_FILE" "$W/$DEMO_PATH"
  (cd "$W" && timeout 600 bash -c "$DEMO_CMD" >/tmp/conf_$ID.demo_patched 2>&1) || demo_patched=fail
  git -C "$W" apply -R "$SRC/patch.diff"
  (cd "$W" && timeout 600 bash -c "$DEMO_CMD" >/tmp/conf_$ID.demo_clean 2>&1) && demo_clean=pass
fi
echo "{\"id\":\"$ID\",\"patch_applies\":\"$applies\",\"build_with_patch\":\"$build\",\"suite_with_patch\":\"$suite\",\"demo_with_patch\":\"$demo_patched\",\"demo_without_patch\":\"$demo_clean\"}"
git -C /repo worktree remove --force "$W"
