#!/bin/bash
# tools/try_seeded.sh <dir> <id>... : runs the quick check of each listed change's property (or the property named by
# "checked_by" in its meta.json) against it, 4 at a time, and prints "<id> <prop> <exit> <first signatures>".
D="$1"; shift
export D
printf '%s\n' "$@" | xargs -P ${TRY_PAR:-4} -I{} bash -c 'id={}; prop=${id%%-*}; ov=$(python3 -c "import json,sys; print(json.load(open(sys.argv[1])).get(\"checked_by\",\"\"))" "$D/$id/meta.json" 2>/dev/null); [ -n "$ov" ] && prop=$ov; out=$(MUT_LINES=3 /verif/tools/mutant.sh "$D/$id/patch.diff" $prop quick 2>&1); rc=$(echo "$out" | grep -o "exit=[0-9]*" | tail -1); sigs=$(echo "$out" | grep violation | sed "s/^ *[0-9]* violation: //" | head -3 | tr "\n" ";"); echo "$id $prop $rc $sigs"'
