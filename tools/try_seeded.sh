#!/bin/bash
# tools/try_seeded.sh <dir> <id>... : runs the quick check of each listed change's property against it (4 at a time)
# and prints "<id> <exit> <first signatures>".
D="$1"; shift
printf '%s\n' "$@" | xargs -P 4 -I{} bash -c 'id={}; prop=${id%%-*}; out=$(MUT_LINES=3 /verif/tools/mutant.sh '"$D"'/$id/patch.diff $prop quick 2>&1); rc=$(echo "$out" | grep -o "exit=[0-9]*" | tail -1); sigs=$(echo "$out" | grep violation | sed "s/^ *[0-9]* violation: //" | head -3 | tr "\n" ";"); echo "$id $rc $sigs"'
