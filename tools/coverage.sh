#!/bin/bash
# tools/coverage.sh [tier] : diagnostic, not a check. Builds every driver with Go's coverage
# instrumentation for the packages of /repo, runs the given tier (default quick) and prints the
# functions of the repository that no check reached, plus the uncovered blocks of the anchored files.
# Everything is written under a scratch directory that is removed at the end.
set -u
TIER="${1:-quick}"
export GOFLAGS=-mod=mod GOPROXY=off GOSUMDB=off GOTOOLCHAIN=local
T=$(mktemp -d /tmp/verifcov.XXXXXX)
export VERIF_DIR=$T/out VERIF_REPO_DIR=/repo
mkdir -p $T/out $T/bin $T/data
cd /verif/harness
for d in cmd/*/; do
  id=$(basename $d)
  go build -cover -coverpkg=github.com/theparanoids/ysshra/... -o $T/bin/$id ./cmd/$id || continue
  mkdir -p $T/data/$id
  GOCOVERDIR=$T/data/$id timeout 3600 $T/bin/$id -tier $TIER -seed ${VERIF_SEED:-1} -no-evidence > $T/out/$id.log 2>&1
  echo "$id exit=$?"
done
dirs=$(cd $T/data && ls -d */ | tr -d / | sed "s#^#$T/data/#" | paste -sd,)
go tool covdata textfmt -i=$dirs -o $T/cov.txt
( cd /repo && go tool cover -func=$T/cov.txt ) | grep -v verifharness | grep -vE "/proto/|/mock/|/cmd/" | awk '$3=="0.0%"{print "UNREACHED", $1, $2}'
( cd /repo && go tool cover -func=$T/cov.txt ) | tail -1
rm -rf $T
