#!/bin/bash
# tools/seed_catalogue.sh <dir-of-seeded-changes> : runs the quick check of each change's property against it and prints "<id> <exit> <first signatures>"
for d in "$1"/C*/; do
  id=$(basename "$d"); prop=${id%%-*}
  out=$(MUT_LINES=3 /verif/tools/mutant.sh "$d/patch.diff" "$prop" quick 2>&1)
  rc=$(echo "$out" | grep -o 'exit=[0-9]*' | tail -1)
  sigs=$(echo "$out" | grep violation | sed 's/^ *[0-9]* violation: //' | head -3 | tr '\n' ';')
  echo "$id $rc $sigs"
done
