#!/bin/bash
# tools/seed_catalogue.sh <dir-of-seeded-changes> : runs the quick check of each change's property against it and prints "<id> <prop> <exit> <first signatures>".
# A change whose meta.json carries "checked_by" is run against that property's check instead (a change written for one property may in fact break another).
for d in "$1"/C*/; do
  id=$(basename "$d"); prop=${id%%-*}
  ov=$(python3 -c 'import json,sys; print(json.load(open(sys.argv[1])).get("checked_by",""))' "$d/meta.json" 2>/dev/null)
  [ -n "$ov" ] && prop=$ov
  out=$(MUT_LINES=3 /verif/tools/mutant.sh "$d/patch.diff" "$prop" quick 2>&1)
  rc=$(echo "$out" | grep -o 'exit=[0-9]*' | tail -1)
  sigs=$(echo "$out" | grep violation | sed 's/^ *[0-9]* violation: //' | head -3 | tr '\n' ';')
  echo "$id $prop $rc $sigs"
done
