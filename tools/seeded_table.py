#!/usr/bin/env python3
"""Print the DESIGN.md table (id | check | change | first signature) for the
seeded changes whose id ends in one of the given suffix letters.
usage: tools/seeded_table.py ef"""
import json, glob, os, sys, re
suf = sys.argv[1] if len(sys.argv) > 1 else "abcdefghijklmnopqrstuvwxyz"
here = os.path.dirname(os.path.dirname(os.path.abspath(__file__)))
print("| id | check | change (first sentence of its meta.json) | first signature reported |")
print("|---|---|---|---|")
for d in sorted(glob.glob(os.path.join(here, "seeded", "C*-*"))):
    sid = os.path.basename(d)
    if sid[-1] not in suf:
        continue
    m = json.load(open(os.path.join(d, "meta.json")))
    summ = m.get("summary", "")
    first = re.split(r"(?<=[a-z\)])[.;:] ", summ)[0][:150].replace("|", "\\|").replace("\n", " ")
    det = m.get("detected_by", {})
    chk = m.get("checked_by") or m.get("property") or sid[:3]
    ran = det.get("ran", "")
    mm = re.search(r"patch\.diff (C\d\d)", ran)
    if mm:
        chk = mm.group(1)
    sigs = det.get("first_signatures") or ["?"]
    print("| %s | %s | %s | `%s` |" % (sid, chk, first, sigs[0].replace("|", "\\|")))
