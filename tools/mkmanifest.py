#!/usr/bin/env python3
"""Regenerates /verif/MANIFEST.json from the table below; a property is claimed
only if its driver directory exists under harness/cmd/."""
import json, os, sys
V = os.path.dirname(os.path.dirname(os.path.abspath(__file__)))

C = {
 "C01": ("exploration", "§4 C01", "wire monitor + independent signature verification over hostile forwarded agents; strace getrandom provenance (thorough)",
   "Seeded runs of the real regular handler and gensign.Run against a scripted forwarded agent (honest, keyless, wrong key, wrong data, replay, garbage, empty, failure, close) x registered-key directory states x policy/hard-key flags x handler orderings; the oracle verifies the proof of possession itself from the wire log and flags any signer call or add-identity frame without it. Challenge freshness is monitored across all runs, also while the process entropy source answers in short reads or fails and after the global math/rand generator was seeded; registered files that are certificates, directories or symlinks; security-key user keys; handler lists whose handlers answer late under a request deadline (generation only after the generating handler's own authentication succeeded); handler lists reused for several requests, every kind of rejection, requests whose forwarded agent is the one SSH_AUTH_SOCK names at the time; re-registered keys (same size, same time stamp); a bystander agent named by the process's own SSH_AUTH_SOCK that must never be asked; handlers sharing a name. Declared requesters that have a registered key of their own.",
   "Trusts x/crypto ssh signature verification and the harness's own scripted agent; unpredictability is observed only as length, distinctness, bit balance (and getrandom provenance under strace in the thorough tier)."),
 "C02": ("exploration", "§4 C02", "recording csr.Signer + independent JSON/KeyID oracle",
   "Every CSR produced by the real handler for generated hostile login/user/host/IP/transaction ids, CA algorithms and handler configurations is compared field by field with an oracle built from the inputs; public keys are checked for freshness over the whole run; qualified login names; requests decoded from the wire message by the RA's own entry point, slot names with shell metacharacters; sibling handler sections, long-lived handler instances. Declared client versions from 0.0 to 65535.65535.",
   "Trusts encoding/json as independent KeyID decoder; invalid UTF-8 inputs excluded."),
 "C03": ("exploration", "§4 C03", "keyring snapshot monitor over run histories",
   "Histories of successful and failed runs against one real in-harness keyring; set comparison of identities before/after each run, recorded AddedKey constraints, live signatures through the agent protocol; handlers whose keys carry several requests, agents that do not cross-check certificate and key; a CA that takes seconds to answer; generations that lapsed before the next run, CA replies with plain keys anywhere, certificates granted less than asked or handed back as agent.Key; hand-overs refused half way beside another client of the agent. The requester deleting the key a refused run left behind.",
   "Ephemeral is checked as the lifetime constraint sent to the agent."),
 "C04": ("fault_enumeration", "§4 C04", "single-fault enumeration at every agent frame and signer call",
   "A pilot run counts agent frames and signer calls; one run per (frame index, fault kind) and per (signer call, error|panic), plus panics in every Handler/AgentKey method (also after refusing handlers), a request context that ends at every stage, a CA that certifies another key, for every run shape up to the tier bound; the result kind must match the stage in which the fault landed and success requires complete delivery; a generation failure that is not one of the RA's typed errors; panics raised by the runtime, typed failures that do not name their handler, requests without optional members; challenges answered with signatures that are not the registered key's.",
   "Single faults only; exhaustive within the stated shape bound."),
 "C05": ("exploration", "§4 C05", "reference predicate + independent JSON decoder over the full attribute cube and field surgery",
   "The complete cube of flag/touch/usage/version values is encoded and decoded, every single required-field deletion/rename/duplication/retyping of valid encodings is decoded, plus JSON scalars and byte-level fuzz; the codec's accept/reject decision and result are compared with a 15-line reference predicate; pairs of retyped members; accepted texts must have typed required members. Undecodable texts of every length 0..600 in nine shapes.",
   "Trusts encoding/json as witness of field presence; strings restricted to valid UTF-8."),
 "C06": ("exploration", "§4 C06", "forged encoded-message oracle (sig = EM^d mod N) against Attest",
   "The harness owns root and device RSA keys, so it produces signatures that decrypt to any chosen encoded message: correct encodings for each hash and both DigestInfo forms must be accepted; every single-byte alteration, shifted/truncated padding, trailing garbage, other-hash DigestInfo, bit flips of signature and body, every algorithm label and every chain relation must be rejected; device keys with e=65537 and e=3 attested concurrently; attestors looked at again after device certificates lapsed / became valid; a host trust store holding a CA that is not configured; hundreds of padding octets altered at once; genuine MD5 signatures; a second attestor over an RSA root (slot certificates signed by the root's key are refused). A slot certificate presented as device certificate after its device was attested; DigestInfo with further elements.",
   "Real clock with ±24 h margins for chain validity; reference EM built from RFC 8017 and cross-checked with crypto/rsa."),
 "C07": ("exploration", "§4 C07", "sequential reference model + interval-clock oracle over shim histories",
   "Seeded histories of shim operations and direct keyring manipulation with certificates of every validity window, in both modes, compared after every observation with a three-valued reference model; lapsing certificates are observed across their expiry; tables for the orphan rule, for purges the underlying agent refuses and for listings slower than a certificate's remaining validity; a renewal table (older certificate over the key of a held one, under five configured orderings); several hardware certificates on one key losing it at once; key objects retained from Signers() across a lapse.",
   "Boundary second is don't-care; thorough tier runs under the race detector."),
 "C08": ("exploration", "§4 C08", "sequential reference model + keyring snapshots around lock/unlock",
   "Histories interleaving lock/unlock (right/wrong passphrases, refused by the underlying agent) with every other operation; while locked every operation must fail/return empty and the keyring snapshot must not change; the shim's own listing is compared across every lock/unlock pair and a fixed state is put through every operation while locked (matrix); Close arriving while a round trip is pending on a locked shim; raw unlock frames with a wrong passphrase relayed while locked; late replies to relayed requests before lock/unlock; refusals compared across six kinds of target; relayed requests that fail while locked. Locked removals naming the public key objects of handed-out signers.",
   "Underlying agent is x/crypto's keyring behind the harness's frame-level scripted agent."),
 "C09": ("exploration", "§4 C09", "sequential reference model whose hidden set comes from a reference YSSHCA predicate, both modes",
   "The same seeded history generator runs with no-upstream mode on and off; every listing, signature and removal is compared with a sequential model whose hidden set is computed by the harness's own YSSHCA predicate over KeyIDs of every type and every near-miss (each flag conflict, missing field, wrong version, wrong-case field, free text); certificates that arrive in the underlying agent between the listings of one shim operation; security-key certificate types; KeyIDs carrying other usage values; key ids built and judged by the harness's own encoder and predicate; scripted histories run in both modes (mode independence).",
   "Reference KeyID predicate is the harness's own (C05)."),
 "C10": ("exploration", "§4 C10", "model-based histories + fault plans at every upstream request index + byte-exact relay check",
   "Histories over plain keys, certificates and hardware certificates checked against the model and the real keyring; raw request relay compared byte for byte at the scripted agent (including add/remove-identity requests relayed raw); byte slices handed out earlier re-checked after every later operation; every fault kind at every upstream request index of pilot histories and during construction; every signer handed out is asked for the key's own algorithm name and the default; identities of algorithms unknown to the SSH library; every family under a bounded-progress watchdog; relayed requests answered late followed by an idle period. A fault pilot that lists and removes a hidden issued certificate.",
   "Child process so that fatal errors become verdicts."),
 "C11": ("exploration", "§4 C11", "Go race detector + porcupine linearizability + upstream-exclusion and reply-tag monitors",
   "Barrier-started rounds of 2..16 goroutines on one shim built from the real code with -race; race reports touching /repo frames, pipelined upstream requests, crossed replies, non-linearizable histories and stuck operations are violations; clients waiting for a message code run beside the operations; several shims side by side in one process, over-long raw requests, signers handed out by Signers() used beside other clients; add-hardware-certificate beside remove-all with a widened window, a seven-second exchange with early queuers, a parked waiter; a hardware certificate lapsing during a long exchange; listing after an acknowledged add beside a slow listing.",
   "Sampled schedules only; evidence lists operation pairs seen overlapping."),
 "C12": ("exploration", "§4 C12", "stream oracle over real ServeAgent with panic, allocation and completion monitors; fragmented and vanished-peer delivery",
   "Exhaustive code x tiny-body table, truncated/oversized declarations and seeded frame concatenations are served by the real ServeAgent on unix-socket pairs; responses must match complete frames one to one, service may end only at a malformed frame, no panic, no allocation for oversized declarations; add-hardware-certificate frames with multi-megabyte comments; a peer that stalls inside a frame beyond the connection's idle time-out; pauses behind large frames; inner lengths near 2^32. Listings of 1 MiB after a long stream on the same connection.",
   "Well-formed grammar is the harness's conservative one."),
 "C13": ("exploration", "§4 C13", "recording YubiAgent served by real ServeAgent vs real client (sequential and concurrent use of one client); fake PIV tool on PATH",
   "Arguments recorded by a harness YubiAgent are compared with the client's arguments and the client's results with the scripted results for every operation; slot listing is compared with a reference parser over hostile tool outputs; transports with short reads; tool diagnostics on stderr; replies carrying certificate and error.",
   "Fake yubico-piv-tool; excludes values the wire format cannot carry (see DESIGN)."),
 "C14": ("exploration", "§4 C14", "transcribed oracle over generated env/argv inputs with panic monitor",
   "csr.NewReqParam is called with generated original-command texts, LOGNAME, SSH_CONNECTION and argv; success results are compared with the oracle transcribed from the statement; transaction ids monitored for freshness; non-address peer words; objects followed by more text; math/rand seeded with repeating values. Long commands mixing one- to four-octet characters.",
   "40-bit id collisions bounded probabilistically (window rule in DESIGN)."),
 "C15": ("exploration", "§4 C15", "round-trip and differential (encoding/json) oracle over generated attribute sets and texts",
   "Generated attribute sets are encoded and decoded in both formats and compared under the normalisation the format defines; JSON-compatible texts must never be given the legacy interpretation; white space other than U+0020 inside legacy values; extension values JSON cannot represent. Legacy lines of up to 320 tokens and gaps of up to 100 blanks.",
   "ext values drawn from JSON-native types."),
 "C16": ("exploration", "§4 C16", "differential oracle against crypto/x509 + reference ModHex + panic monitor under mutation",
   "Generated certificates (key types, signature algorithms, extension kinds) parsed by both parsers and compared field by field; NULL-stripped re-encodings; byte mutations; PEM bundles; serial-extension values of length 0..10 against a reference ModHex; re-encodings with issuer/subject unique identifiers; boundary serial numbers. Authority key identifiers in their full form with wide serials; PEM leading text beginning with any character.",
   "crypto/x509 is the reference for well-formed certificates."),
 "C17": ("fault_enumeration", "§4 C17", "success/failure vector enumeration over real TLS gRPC CA servers + Backoff bound monitor",
   "Every endpoint list of length 0..4 x every success/failure vector x failure kind against recording gRPC servers on loopback aliases; contacted endpoints must form a prefix ending at the first success, the request must arrive unmodified; Backoff sampled over attempts and configurations; retries > 1 with real backoff delays, duplicate endpoints, finished contexts, default retry settings, replies of any size or without certificates, a second signer from the same configuration value; negative per-try time-outs; bracketed IPv6 endpoints; requests using every member of the message; earlier results re-compared after later calls; replies without final newline, large retry settings, delays computed concurrently, once more in a race-instrumented helper (cmd/c17race) whose detector reports are read. Signing calls bounded by their context deadline (a call that never returns is a violation); slow endpoints inside the per-try time-out.",
   "Loopback TLS servers stand in for crypki; hang case bounded by PerTryTimeout."),
 "C18": ("exploration", "§4 C18", "handshake recording at harness TLS servers with genuine/impostor identities",
   "Server identities (configured CA, foreign CA, self-signed, expired, not yet valid, wrong name, system-pool-only), protocol ranges and client-certificate policies at every position of endpoint lists; an RPC handled by a non-genuine server or below TLS 1.2 is a violation; bundles with non-certificate blocks, a client certificate chain from a CA of its own, a client certificate that lapses while the signer lives; dial options handed out and overwritten by the caller; RSA-key servers, a successor CA staged before it is valid, configurations built concurrently; client certificate files damaged after construction; a server certificate lapsing between two calls; stale extra certificates in the server's message. An endpoint that becomes genuine between two calls on one Signer; configuration maps of different lengths decoded one after the other.",
   "No DNS: names are IP SANs."),
 "C19": ("exploration", "§4 C19", "exhaustive rule-table and metamorphic oracle over the KeyID attribute space",
   "The complete attribute space (flags x touch policy incl. out-of-range x usage x critical option states) is enumerated; type, label and principals compared with the transcribed table and the metamorphic clauses; shim listing comments checked; a population of 320 000 (thorough 3 000 000) distinct KeyIDs typed in one process; option values that name no host.",
   "Finite space enumerated completely (exhaustive flag in evidence)."),
 "C20": ("exploration", "§4 C20", "goroutine-table waiter count + race detector over waiter/poke scenarios",
   "Waiters on every code and poke orders on a real server; after each poke the set of parked waiters must be exactly those on other codes; waiters parked for the whole run (time alone releases nobody), registrations racing a request, refused Close on a locked agent; agents that have already received 2^8, 2^16, 2^17 requests with the awaited code; both shim modes; requests from connections that waited earlier; release observed while an unrelated request is still in flight; matching announcements followed at once by another code; housekeeping that is not a request; waiters that stopped reading beside healthy ones. Several requests written in one piece; octets spelling requests inside a refused over-limit frame.",
   "Eventually = bounded progress with parked-count evidence."),
}

def main():
    checks, na = [], []
    for pid in sorted(C):
        level, ref, tech, text, note = C[pid]
        if os.path.isdir(os.path.join(V, "harness", "cmd", pid.lower())):
            checks.append({
                "property_id": pid,
                "quick_cmd": f"bin/check {pid} quick",
                "thorough_cmd": f"bin/check {pid} thorough",
                "evidence_file": f"/verif/evidence/{pid}.json",
                "replay_cmd_template": "bin/check --replay {path}",
                "engine": "harness",
                "level_claimed": {"category": level, "text": text, "design_ref": "DESIGN.md " + ref},
                "level_note": note,
                "technique": "runtime monitoring: " + tech,
            })
        else:
            na.append({"property_id": pid, "reason": "not claimed yet: the runtime monitor for this property (DESIGN.md " + ref + ") has not been built in this tree; the technique applies"})
    m = {
        "version": 1,
        "setup_cmd": "bin/setup",
        "hooks": {
            "guard": "verif",
            "enable": "-tags verif (no tagged file exists: every monitor sits at a boundary the harness owns)",
            "baseline_off_cmd": "cd /repo && GOFLAGS=-mod=mod GOPROXY=off GOSUMDB=off GOTOOLCHAIN=local go test -vet=off -count=1 ./...",
            "source_commits": [],
            "add_only": True,
        },
        "engines": [{"name": "harness", "path": "/verif/harness", "serves_properties": [c["property_id"] for c in checks],
                     "kind_free_text": "Go drivers (one main package per property) that drive the real code of /repo through its exported API and wire boundaries and decide over recorded events; Go race detector, porcupine, strace and goroutine-table inspection as monitors"}],
        "checks": checks,
        "not_applicable": na,
        "notes": "Exit codes: 0 held, 1 violated (VIOLATION line), 2 inconclusive (too little observed / watchdog without proof), 3 build failure. Known findings: /verif/known_findings.txt.",
    }
    json.dump(m, open(os.path.join(V, "MANIFEST.json"), "w"), indent=1)
    print("claimed:", [c["property_id"] for c in checks])

main()
