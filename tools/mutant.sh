#!/bin/bash
# tools/mutant.sh <patch.diff> <ID> [tier]  — apply a seeded patch to a scratch
# worktree of /repo HEAD, run the check against it, remove the worktree.
set -u
P="$1"; ID="$2"; TIER="${3:-quick}"
W=$(mktemp -d /tmp/mutwt.XXXXXX); rmdir "$W"
git -C /repo worktree add -q --detach "$W" HEAD || exit 9
if ! git -C "$W" apply "$P"; then echo "PATCH DOES NOT APPLY"; git -C /repo worktree remove --force "$W"; exit 9; fi
OUT=$(VERIF_REPO="$W" VERIF_DIR_EVID=skip /verif/bin/check "$ID" "$TIER" 2>&1); RC=$?
echo "$OUT" | grep -E "VIOLATION|verdict=|BUILD FAILED|INCONCLUSIVE|^violation" | head -8
echo "exit=$RC"
git -C /repo worktree remove --force "$W"
git -C /verif checkout -q -- evidence 2>/dev/null
exit $RC
