#!/bin/bash
# tools/mutant.sh <patch.diff> <ID> [tier]  — apply a seeded patch to a scratch
# worktree of /repo HEAD, run the check against it (evidence and replays go to
# a scratch directory), remove everything again.
set -u
P="$1"; ID="$2"; TIER="${3:-quick}"
W=$(mktemp -d /tmp/mutwt.XXXXXX); rmdir "$W"
O=$(mktemp -d /tmp/mutout.XXXXXX)
cp /verif/known_findings.txt "$O/"
git -C /repo worktree add -q --detach "$W" HEAD || exit 9
if ! git -C "$W" apply "$P"; then echo "PATCH DOES NOT APPLY"; git -C /repo worktree remove --force "$W"; rm -rf "$O"; exit 9; fi
OUT=$(VERIF_OP_TIMEOUT_S=${VERIF_OP_TIMEOUT_S:-4} timeout ${MUT_TIMEOUT:-900} env VERIF_REPO="$W" VERIF_OUT_DIR="$O" /verif/bin/check "$ID" "$TIER" 2>&1); RC=$?
echo "$OUT" | grep -E "^violation|verdict=|BUILD FAILED|INCONCLUSIVE" | sort | uniq -c | sort -rn | head -${MUT_LINES:-6}
echo "exit=$RC"
git -C /repo worktree remove --force "$W"
rm -rf "$O"
exit $RC
