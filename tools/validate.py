#!/opt/veriftools/pyvenv/bin/python
import json, sys, glob, jsonschema
ok = True
m = json.load(open('/verif/MANIFEST.json'))
jsonschema.validate(m, json.load(open('/root/.vp/MANIFEST.schema.json')))
sch = json.load(open('/root/.vp/EVIDENCE.schema.json'))
for c in m['checks']:
    try:
        e = json.load(open(c['evidence_file']))
        jsonschema.validate(e, sch)
        assert e['level'] == c['level_claimed']['category'], 'level mismatch'
        print('ok ', c['property_id'], e['tier'], e['coverage']['evaluations'], e['coverage']['distinct_nontrivial'], e['coverage'].get('verdict'))
    except Exception as ex:
        ok = False
        print('BAD', c['property_id'], str(ex)[:300])
sys.exit(0 if ok else 1)
