import sys,re
name=sys.argv[1]; path=sys.argv[2]+'/agent/shimagent/shimserver.go'
s=open(path).read()
def fn(name):
    m=re.search(r'func \(s \*Server\) '+name+r'\(.*?\n}\n', s, re.S)
    return m.group(0)
if name=='add-nolock':
    f=fn('Add'); g=f.replace('\ts.mu.Lock()\n\tdefer s.mu.Unlock()\n','')
elif name=='list-rlock':
    f=fn('List'); g=f.replace('s.mu.Lock()','s.mu.RLock()').replace('s.mu.Unlock()','s.mu.RUnlock()')
elif name=='forward-early-unlock':
    f=fn('Forward'); g=f.replace('\ts.mu.Lock()\n\tdefer s.mu.Unlock()\n\n\tif err = write(s.conn, req); err != nil {\n\t\treturn nil, err\n\t}\n','\ts.mu.Lock()\n\tif err = write(s.conn, req); err != nil {\n\t\ts.mu.Unlock()\n\t\treturn nil, err\n\t}\n\ts.mu.Unlock()\n')
elif name=='remove-nolock':
    f=fn('Remove'); g=f.replace('\ts.mu.Lock()\n\tdefer s.mu.Unlock()\n','')
elif name=='addhardcert-rlock':
    f=fn('AddHardCert'); g=f.replace('s.mu.Lock()','s.mu.RLock()').replace('s.mu.Unlock()','s.mu.RUnlock()')
elif name=='removeall-nolock':
    f=fn('RemoveAll'); g=f.replace('\ts.mu.Lock()\n\tdefer s.mu.Unlock()\n','')
elif name=='unlock-nolock':
    f=fn('Unlock'); g=f.replace('\ts.mu.Lock()\n\tdefer s.mu.Unlock()\n','')
elif name=='sign-locked-read-outside':
    f=fn('SignWithFlags'); g=f.replace('\ts.mu.Lock()\n\tdefer s.mu.Unlock()\n\n\tif s.locked {\n\t\treturn nil, errors.New("agent is locked")\n\t}\n','\tif s.locked {\n\t\treturn nil, errors.New("agent is locked")\n\t}\n\ts.mu.Lock()\n\tdefer s.mu.Unlock()\n')
assert f!=g, name
open(path,'w').write(s.replace(f,g))
