#!/usr/bin/env python3
"""tools/install_seeded.py <src-dir> <confirm.jsonl> <catalogue.txt> : copies confirmed seeded changes into /verif/seeded/<id>/"""
import json, os, shutil, sys, glob
src, conf, cat = sys.argv[1:4]
confirmed = {}
for l in open(conf):
    l = l.strip()
    if l.startswith('{'):
        d = json.loads(l); confirmed[d['id']] = d
detected = {}
for l in open(cat):
    parts = l.rstrip('\n').split(' ')
    if len(parts) >= 2 and parts[0].startswith('C'):
        if parts[1].startswith('exit='):
            detected[parts[0]] = (parts[0].split('-')[0], parts[1], ' '.join(parts[2:]))
        else:
            detected[parts[0]] = (parts[1], parts[2] if len(parts) > 2 else '?', ' '.join(parts[3:]))
for d in sorted(glob.glob(os.path.join(src, 'C*-*'))):
    i = os.path.basename(d)
    c = confirmed.get(i)
    if not c or not (c['patch_applies'] == 'yes' and c['build_with_patch'] == 'ok' and c['suite_with_patch'] == 'pass' and c['demo_with_patch'] == 'fail' and c['demo_without_patch'] == 'pass'):
        print('SKIP (not confirmed)', i, c); continue
    dst = os.path.join('/verif/seeded', i)
    os.makedirs(dst, exist_ok=True)
    meta = json.load(open(os.path.join(d, 'meta.json')))
    for f in os.listdir(d):
        if f != 'meta.json':
            shutil.copy(os.path.join(d, f), os.path.join(dst, f))
    prop = meta['property']
    chk, rc, sigs = detected.get(i, (prop, '?', ''))
    meta['breaks_property'] = prop
    meta['needs_to_manifest'] = meta.get('needs', '')
    meta['confirmed_here'] = {
        'how': 'tools/confirm_seeded.sh in a scratch worktree of /repo HEAD: git apply patch.diff; go build ./...; go test -vet=off -count=1 ./... (whole existing suite); demo_cmd with the patch; git apply -R; demo_cmd without the patch',
        'patch_applies': c['patch_applies'], 'build_with_patch': c['build_with_patch'], 'existing_suite_with_patch': c['suite_with_patch'],
        'demo_with_patch': c['demo_with_patch'], 'demo_without_patch': c['demo_without_patch']}
    meta['detected_by'] = {'ran': f'tools/mutant.sh seeded/{i}/patch.diff {chk} quick  (= bin/check {chk} quick against a scratch worktree with the patch applied)',
                           'result': rc, 'first_signatures': [s for s in sigs.split(';') if s]}
    json.dump(meta, open(os.path.join(dst, 'meta.json'), 'w'), indent=1)
    print('installed', i, rc)
