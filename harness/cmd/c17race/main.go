// c17race is the race-instrumented part of the C17 check: the delay function of
// the retry interceptor is one value shared by every Signer of a process, so
// its delays are computed from several goroutines at once. Built with -race by
// bin/check and run by the C17 driver, which reads the detector's reports.
package main

import (
	"fmt"
	"os"
	"strconv"
	"sync"
	"sync/atomic"
	"time"

	"github.com/theparanoids/ysshra/internal/backoff"
)

func main() {
	n := 20000
	if len(os.Args) > 1 {
		if v, err := strconv.Atoi(os.Args[1]); err == nil && v > 0 {
			n = v
		}
	}
	shared := &backoff.Config{BaseDelay: time.Second, Multiplier: 1.6, MaxDelay: 30 * time.Second, Jitter: 0.2}
	var wg sync.WaitGroup
	var calls, bad, panics atomic.Int64
	start := make(chan struct{})
	for g := 0; g < 8; g++ {
		wg.Add(1)
		go func() {
			defer wg.Done()
			defer func() {
				if p := recover(); p != nil {
					panics.Add(1)
					fmt.Printf("panic %v\n", p)
				}
			}()
			<-start
			for i := 0; i < n; i++ {
				for _, bc := range []*backoff.Config{&backoff.DefaultConfig, shared} {
					d := bc.Backoff(uint(i % 9))
					calls.Add(1)
					if lim := time.Duration(float64(bc.MaxDelay)*(1+bc.Jitter)) + 1; d < 0 || d > lim {
						bad.Add(1)
					}
				}
			}
		}()
	}
	close(start)
	wg.Wait()
	fmt.Printf("calls=%d out_of_bounds=%d panics=%d\n", calls.Load(), bad.Load(), panics.Load())
}
