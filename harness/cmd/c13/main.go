// C13 — operations through the yubiagent client act exactly as on the served agent.
package main

import (
	"bytes"
	"crypto/x509"
	"encoding/hex"
	"encoding/pem"
	"errors"
	"fmt"
	"github.com/theparanoids/ysshra/attestation/yubiattest"
	"github.com/theparanoids/ysshra/verifharness/lib/derx"
	"net"
	"os"
	"path/filepath"
	"reflect"
	"strings"
	"sync"
	"sync/atomic"
	"time"

	"golang.org/x/crypto/ssh"
	"golang.org/x/crypto/ssh/agent"

	"github.com/theparanoids/ysshra/agent/yubiagent"
	"github.com/theparanoids/ysshra/verifharness/lib/ev"
	"github.com/theparanoids/ysshra/verifharness/lib/gen"
	"github.com/theparanoids/ysshra/verifharness/lib/wire"
)

// call is one recorded invocation on the served agent.
type call struct {
	Op   string
	Args []any
}

// recAgent is the harness's YubiAgent: it records arguments and returns scripted results.
type heldArg struct {
	op   string
	key  ssh.PublicKey
	blob []byte
}

type recAgent struct {
	mu    sync.Mutex
	calls []call
	held  []heldArg // keys as received (not copied): a served agent may keep them, so they must never change afterwards
	// scripted results for the next call
	keys  []*agent.Key
	sig   *ssh.Signature
	err   error
	slots []string
	cert  *x509.Certificate
	raw   []byte
}

func (a *recAgent) rec(op string, args ...any) {
	a.mu.Lock()
	a.calls = append(a.calls, call{op, args})
	a.mu.Unlock()
}
func (a *recAgent) hold(op string, k ssh.PublicKey) {
	a.mu.Lock()
	a.held = append(a.held, heldArg{op, k, append([]byte{}, k.Marshal()...)})
	a.mu.Unlock()
}

// corrupted returns the first received key whose bytes changed after the call that delivered it.
func (a *recAgent) corrupted() *heldArg {
	a.mu.Lock()
	defer a.mu.Unlock()
	for i := range a.held {
		if !bytes.Equal(a.held[i].key.Marshal(), a.held[i].blob) {
			return &a.held[i]
		}
	}
	return nil
}

func (a *recAgent) take() []call {
	a.mu.Lock()
	defer a.mu.Unlock()
	c := a.calls
	a.calls = nil
	return c
}

func (a *recAgent) List() ([]*agent.Key, error) { a.rec("list"); return a.keys, a.err }
func (a *recAgent) Sign(k ssh.PublicKey, d []byte) (*ssh.Signature, error) {
	return a.SignWithFlags(k, d, 0)
}
func (a *recAgent) SignWithFlags(k ssh.PublicKey, d []byte, f agent.SignatureFlags) (*ssh.Signature, error) {
	a.hold("sign", k)
	a.rec("sign", k.Marshal(), append([]byte{}, d...), uint32(f))
	return a.sig, a.err
}
func (a *recAgent) Add(k agent.AddedKey) error {
	pub := []byte(nil)
	if s, err := ssh.NewSignerFromKey(k.PrivateKey); err == nil {
		pub = s.PublicKey().Marshal()
	}
	var cb []byte
	if k.Certificate != nil {
		cb = k.Certificate.Marshal()
	}
	a.rec("add", pub, cb, k.Comment, k.LifetimeSecs, k.ConfirmBeforeUse)
	return a.err
}
func (a *recAgent) Remove(k ssh.PublicKey) error {
	a.hold("remove", k)
	a.rec("remove", k.Marshal())
	return a.err
}
func (a *recAgent) RemoveAll() error      { a.rec("remove-all"); return a.err }
func (a *recAgent) Lock(p []byte) error   { a.rec("lock", append([]byte{}, p...)); return a.err }
func (a *recAgent) Unlock(p []byte) error { a.rec("unlock", append([]byte{}, p...)); return a.err }
func (a *recAgent) Signers() ([]ssh.Signer, error) {
	a.rec("signers")
	return nil, errors.New("not used over the wire")
}
func (a *recAgent) Extension(t string, c []byte) ([]byte, error) {
	a.rec("extension", t, append([]byte{}, c...))
	return a.raw, a.err
}
func (a *recAgent) Forward(req []byte) ([]byte, error) {
	a.rec("forward", append([]byte{}, req...))
	return a.raw, a.err
}
func (a *recAgent) AddHardCert(k ssh.PublicKey, c string) error {
	a.hold("add-hard-cert", k)
	a.rec("add-hard-cert", k.Marshal(), c)
	return a.err
}
func (a *recAgent) Wait(m byte) error            { a.rec("wait", m); return a.err }
func (a *recAgent) Close() error                 { return nil }
func (a *recAgent) ListSlots() ([]string, error) { a.rec("list-slots"); return a.slots, a.err }
func (a *recAgent) ReadSlot(s string) (*x509.Certificate, error) {
	a.rec("read-slot", s)
	return a.cert, a.err
}
func (a *recAgent) AttestSlot(s string) (*x509.Certificate, error) {
	a.rec("attest-slot", s)
	return a.cert, a.err
}
func (a *recAgent) AddSmartcardKey(id string, pin []byte, l time.Duration, c bool) error {
	a.rec("add-smartcard", id)
	return a.err
}
func (a *recAgent) RemoveSmartcardKey(id string, pin []byte) error {
	a.rec("remove-smartcard", id)
	return a.err
}

var _ yubiagent.YubiAgent = (*recAgent)(nil)

var x509Certs []*x509.Certificate

// legacyCerts counts the NULL-less RSA certificates among them.
var legacyCerts int

func loadCerts() {
	repo := os.Getenv("VERIF_REPO_DIR")
	if repo == "" {
		repo = "/repo"
	}
	files, _ := filepath.Glob(filepath.Join(repo, "attestation/yubiattest/testdata/*.crt"))
	for _, f := range files {
		b, _ := os.ReadFile(f)
		for blk, rest := pem.Decode(b); blk != nil; blk, rest = pem.Decode(rest) {
			if c, err := x509.ParseCertificate(blk.Bytes); err == nil {
				x509Certs = append(x509Certs, c)
				// what old firmware issues: the same certificate with the RSA key's algorithm identifier lacking its NULL parameter
				// (the signature no longer matches, which is of no concern to the transport)
				if stripped, serr := derx.StripNULL(blk.Bytes); serr == nil {
					if lc, lerr := yubiattest.ParseCertificate(stripped); lerr == nil {
						x509Certs = append(x509Certs, lc)
						legacyCerts++
					}
				}
			}
		}
	}
}

func errText(r interface{ Intn(int) int }, s func() string) error {
	if r.Intn(3) == 0 {
		t := s()
		if t == "" || t == "SUCCESS" {
			t = "refused"
		}
		return errors.New(t)
	}
	return nil
}

// errTextOrEmpty is errText for the operations whose reply is a bare status text (add-hardware-certificate, wait): there
// a failure whose text is empty still travels (as an empty reply, which is not "SUCCESS"), and is a failure.
func errTextOrEmpty(r interface{ Intn(int) int }, s func() string) error {
	e := errText(r, s)
	if e != nil && r.Intn(6) == 0 {
		return errors.New("")
	}
	return e
}

func trunc16(b []byte) []byte {
	if len(b) > 16 {
		return b[:16]
	}
	return b
}

func same(a, b error) bool { return (a == nil) == (b == nil) }

func main() {
	ev.MainIsolated("C13", "exploration", 40*time.Minute, func(r *ev.Run) {
		r.Rule("rig A: a recording YubiAgent implemented by the harness is served with the real yubiagent.ServeAgent over a unix-socket pair and driven through the real client (NewClientFromConn); seeded sequences of 12 operations from {list, sign with flags 0/2/4 and data of length 0/1/255/64 KiB, add with lifetime/confirm and optional certificate for every key type, remove, remove-all, lock, unlock, signers, add-hardware-cert in the new format (via the client) and the legacy format (raw frame), list/read/attest slot, wait, raw forward}, each with scripted results or errors; recorded arguments must equal the caller's, the caller's result must equal the scripted one. Rig B: a real non-remote server with a fake yubico-piv-tool on PATH whose output/exit status the harness scripts: status texts, every prefix truncation, Slot lines of length 4..9, CRLF, empty, 1 MiB of Slot lines, non-zero exit; and the same server in remote mode (tool must never run). distinct_nontrivial = distinct (operation, argument digest) pairs whose arguments and results matched on both sides + distinct tool outputs judged")
		r.Assume("slot names that are empty or contain ',' and error texts that are empty or the literal SUCCESS cannot be carried by the wire format and are not generated", "private keys are compared by the public key they yield")
		gen.Pool()
		loadCerts()
		var iwg sync.WaitGroup
		iwg.Add(1)
		go func() { defer iwg.Done(); idleClient(r) }()
		defer iwg.Wait()
		rigA(r)
		rigB(r)
		r.Floor(int64(r.Pick(5000, 100000)), int64(r.Pick(1500, 20000)))
	})
}

// idleClient: a client that is used, left alone for a while, and used again behaves as if no time had passed: each kind
// of operation first, then six (thorough: forty) seconds of silence, then every kind of operation again, against the
// recording served agent.
func idleClient(r *ev.Run) {
	c := r.Case("idle-client", 0)
	if c == nil {
		return
	}
	r.Eval(1)
	r.Guard(c, "idle client", nil, func() {
		srv := &recAgent{}
		c1, c2, err := wire.SocketPair()
		if err != nil {
			r.Inconclusive(err.Error())
			return
		}
		defer c1.Close()
		go func() { defer c2.Close(); defer func() { recover() }(); yubiagent.ServeAgent(srv, c2) }()
		cl, err := yubiagent.NewClientFromConn(c1)
		if err != nil {
			r.Violation(c, "client-construction-fails", err.Error(), nil)
			return
		}
		srv.slots = []string{"9a", "9c"}
		srv.keys = []*agent.Key{{Format: "ssh-ed25519", Blob: gen.Pool()[0].Pub.Marshal(), Comment: "k"}}
		srv.raw = []byte{6}
		if len(x509Certs) > 0 {
			srv.cert = x509Certs[0]
		}
		round := func(when string) bool {
			type step struct {
				name string
				f    func() error
			}
			steps := []step{
				{"list", func() error { _, e := cl.List(); return e }},
				{"lock", func() error { return cl.Lock([]byte("p")) }},
				{"unlock", func() error { return cl.Unlock([]byte("p")) }},
				{"forward", func() error { _, e := cl.Forward([]byte{200, 1, 2}); return e }},
				{"remove-all", func() error { return cl.RemoveAll() }},
				{"list-slots", func() error { _, e := cl.ListSlots(); return e }},
				{"read-slot", func() error { _, e := cl.ReadSlot("9a"); return e }},
				{"attest-slot", func() error { _, e := cl.AttestSlot("9a"); return e }},
			}
			for _, st := range steps {
				srv.take()
				done := make(chan error, 1)
				go func() { done <- st.f() }()
				select {
				case e := <-done:
					if e != nil {
						r.Violation(c, "client-server-mismatch:"+st.name+":error-"+when+"-idling", fmt.Sprintf("the served agent answers without error; the client returned %v", e), map[string]any{"operation": st.name, "when": when})
						return false
					}
					if n := len(srv.take()); n != 1 {
						r.Violation(c, "client-server-mismatch:"+st.name+":call-count-"+when+"-idling", fmt.Sprintf("the served agent saw %d calls", n), map[string]any{"operation": st.name, "when": when})
						return false
					}
				case <-time.After(ev.OpTimeout()):
					r.Violation(c, "operation-does-not-return:"+st.name+":"+when+"-idling", "", nil)
					return false
				}
			}
			return true
		}
		if !round("before") {
			return
		}
		time.Sleep(time.Duration(r.Pick(6, 40)) * time.Second)
		if !round("after") {
			return
		}
		r.Count("operations through a client that had been idle for a while", 8)
		r.Nontrivial("idle-client")
	})
}

// concurrentClient: several goroutines use ONE client at the same time (the client
// documents itself as safe for that: it serialises with a lock). The served agent
// returns fixed values per operation kind, so every result has exactly one right value.
func concurrentClient(r *ev.Run) {
	n := r.Pick(40, 600)
	for i := 0; i < n; i++ {
		c := r.Case("concurrent-client", i)
		if c == nil {
			continue
		}
		r.Guard(c, "concurrent client", nil, func() {
			k := gen.PickKey(c.Rand)
			srv := &recAgent{keys: []*agent.Key{{Format: k.Pub.Type(), Blob: k.Pub.Marshal(), Comment: "fixed"}}, slots: []string{"9a", "9c"}, raw: []byte("fixed-forward-reply"),
				sig: &ssh.Signature{Format: "ssh-ed25519", Blob: bytes.Repeat([]byte{7}, 64)}}
			c1, c2, err := wire.SocketPair()
			if err != nil {
				return
			}
			defer c1.Close()
			go func() { defer c2.Close(); defer func() { recover() }(); yubiagent.ServeAgent(srv, c2) }()
			cl, _ := yubiagent.NewClientFromConn(c1)
			var wg sync.WaitGroup
			var mu sync.Mutex
			var problems []string
			note := func(s string) { mu.Lock(); problems = append(problems, s); mu.Unlock() }
			ops := []func(){
				func() {
					got, err := cl.List()
					if err != nil || len(got) != 1 || !bytes.Equal(got[0].Blob, k.Pub.Marshal()) || got[0].Comment != "fixed" {
						note(fmt.Sprintf("list: err=%v n=%d", err, len(got)))
					}
				},
				func() {
					got, err := cl.ListSlots()
					if err != nil || !reflect.DeepEqual(got, []string{"9a", "9c"}) {
						note(fmt.Sprintf("list-slots: err=%v %q", err, got))
					}
				},
				func() {
					got, err := cl.Forward([]byte{200, 1, 2, 3})
					if err != nil || string(got) != "fixed-forward-reply" {
						note(fmt.Sprintf("forward: err=%v %q", err, got))
					}
				},
				func() {
					got, err := cl.Sign(k.Pub, []byte("data"))
					if err != nil || got.Format != "ssh-ed25519" || len(got.Blob) != 64 {
						note(fmt.Sprintf("sign: err=%v", err))
					}
				},
				func() {
					if err := cl.AddHardCert(k.Pub, "c"); err != nil {
						note(fmt.Sprintf("add-hard-cert: err=%v", err))
					}
				},
				func() {
					if err := cl.Wait(77); err != nil {
						note(fmt.Sprintf("wait: err=%v", err))
					}
				},
			}
			g := 2 + c.Rand.Intn(5)
			start := make(chan struct{})
			for j := 0; j < g; j++ {
				seq := make([]int, 12)
				for x := range seq {
					seq[x] = c.Rand.Intn(len(ops))
				}
				wg.Add(1)
				go func(seq []int) {
					defer wg.Done()
					<-start
					for _, o := range seq {
						ops[o]()
					}
				}(seq)
			}
			done := make(chan struct{})
			go func() { wg.Wait(); close(done) }()
			close(start)
			select {
			case <-done:
			case <-time.After(ev.OpTimeout()):
				c1.Close()
				r.Violation(c, "concurrent-client-operations-do-not-complete", "operations issued from several goroutines on one client did not all return", nil)
				return
			}
			r.Eval(g * 12)
			if len(problems) > 0 {
				r.Violation(c, "concurrent-client-result-mismatch:"+strings.SplitN(problems[0], ":", 2)[0], fmt.Sprintf("%d of %d operations got a result other than the served agent's fixed answer, e.g. %v", len(problems), g*12, problems[:min(3, len(problems))]), nil)
				return
			}
			r.Count("operations issued concurrently on one client with matching results", g*12)
			r.Nontrivial(fmt.Sprintf("concurrent:%d:%d", i, g))
		})
	}
}

func rigA(r *ev.Run) {
	concurrentClient(r)
	nseq := r.Pick(500, 15000)
	var wg sync.WaitGroup
	sem := make(chan struct{}, 8)
	for i := 0; i < nseq; i++ {
		c := r.Case("seq", i)
		if c == nil {
			continue
		}
		wg.Add(1)
		sem <- struct{}{}
		if hungSeqs.Load() >= 3 {
			break // the transport is wedged: further sequences would only wait out their watchdogs
		}
		go func(c *ev.Case, i int) {
			defer wg.Done()
			defer func() { <-sem }()
			done := make(chan struct{})
			go func() {
				defer close(done)
				r.Guard(c, "client/server sequence", nil, func() { sequence(r, c, i) })
			}()
			select {
			case <-done:
			case <-time.After(3 * ev.OpTimeout()):
				// a sequence is a few dozen exchanges over a socket pair: milliseconds. One that is still running now is
				// stuck in an exchange that never completes (its goroutines are abandoned).
				hungSeqs.Add(1)
				r.Violation(c, "operation-does-not-return:client-server-sequence", fmt.Sprintf("sequence %d: a client call did not return within the watchdog (eight sequences run at a time, each on a connection of its own)", i), map[string]any{"sequence": i})
			}
		}(c, i)
	}
	wg.Wait()
}

var hungSeqs atomic.Int32

func sequence(r *ev.Run, c *ev.Case, seqNo int) {
	rng := c.Rand
	srv := &recAgent{}
	c1, c2, err := wire.SocketPair()
	if err != nil {
		r.Inconclusive("socketpair: " + err.Error())
		return
	}
	defer c1.Close()
	if seqNo%3 == 2 {
		// a transport that hands out a frame in pieces (at most a few hundred bytes per read), in both directions
		max := 1 + rng.Intn(700)
		c1, c2 = wire.ShortReads(c1, max), wire.ShortReads(c2, max)
		r.Count("sequences over a transport with short reads", 1)
	}
	served := make(chan error, 1)
	go func() {
		defer c2.Close()
		defer func() {
			if p := recover(); p != nil {
				served <- fmt.Errorf("panic: %v", p)
			}
		}()
		served <- yubiagent.ServeAgent(srv, c2)
	}()
	cl, err := yubiagent.NewClientFromConn(c1)
	if err != nil {
		r.Violation(c, "client-construction-fails", err.Error(), nil)
		return
	}
	if seqNo%4 == 1 {
		// every fourth sequence: the client dials a unix socket by address, as the command-line tools do
		if dir, derr := os.MkdirTemp("", "ys"); derr == nil {
			defer os.RemoveAll(dir)
			addr := filepath.Join(dir, "s")
			if l, lerr := net.Listen("unix", addr); lerr == nil {
				defer l.Close()
				go func() {
					for {
						cn, aerr := l.Accept()
						if aerr != nil {
							return
						}
						go func() { defer cn.Close(); defer func() { recover() }(); yubiagent.ServeAgent(srv, cn) }()
					}
				}()
				if c2l, cerr := yubiagent.NewClient(addr); cerr == nil {
					defer c2l.Close()
					cl = c2l
				} else {
					r.Violation(c, "client-construction-fails:by-address", cerr.Error(), nil)
					return
				}
			}
		}
	}
	now := uint64(time.Now().Unix())
	var trace []string
	bad := func(op, what string, detail string) {
		r.Violation(c, "client-server-mismatch:"+op+":"+what, detail+"\nsequence so far: "+strings.Join(trace, ", "), map[string]any{"sequence": seqNo, "trace": trace})
	}
	expectCalls := func(op string, n int) []call {
		cs := srv.take()
		if len(cs) != n {
			var names []string
			for _, x := range cs {
				names = append(names, x.Op)
			}
			bad(op, "call-count", fmt.Sprintf("served agent saw %d calls %v, expected %d", len(cs), names, n))
			return nil
		}
		return cs
	}
	ok := func(op string, digest string) {
		if h := srv.corrupted(); h != nil {
			bad(h.op, "received-key-changes-afterwards", fmt.Sprintf("a key the served agent received in an earlier %s call no longer has the bytes it had when it was delivered (it was overwritten while serving a later request on the same connection)", h.op))
		}
		r.Eval(1)
		r.Count("op "+op+" matched on both sides", 1)
		r.Nontrivial(op + ":" + digest)
	}
	text := func() string { return gen.NonEmptyStr(rng, 30) }
	for step := 0; step < 12; step++ {
		if r.NumViolations() > 10 {
			return
		}
		switch rng.Intn(18) {
		case 0: // list
			n := rng.Intn(5)
			srv.keys = nil
			for j := 0; j < n; j++ {
				k := gen.PickKey(rng)
				var pk ssh.PublicKey = k.Pub
				if rng.Intn(3) == 0 {
					pk = gen.MakeCert(gen.CertSpec{Key: k, KeyID: gen.Str(rng, 20), ValidAfter: now - 10, ValidBefore: now + 10})
				}
				srv.keys = append(srv.keys, &agent.Key{Format: pk.Type(), Blob: pk.Marshal(), Comment: gen.Str(rng, 40)})
			}
			srv.err = nil
			if rng.Intn(6) == 0 {
				srv.err = errors.New("list refused")
			}
			trace = append(trace, "list")
			got, err := cl.List()
			if expectCalls("list", 1) == nil {
				return
			}
			if !same(err, srv.err) {
				bad("list", "error", fmt.Sprintf("client err=%v served err=%v", err, srv.err))
				return
			}
			if err == nil {
				if len(got) != len(srv.keys) {
					bad("list", "count", fmt.Sprintf("%d vs %d", len(got), len(srv.keys)))
					return
				}
				for j := range got {
					if !bytes.Equal(got[j].Blob, srv.keys[j].Blob) || got[j].Comment != srv.keys[j].Comment || got[j].Format != srv.keys[j].Format {
						bad("list", "identity", fmt.Sprintf("entry %d: comment %q vs %q", j, got[j].Comment, srv.keys[j].Comment))
						return
					}
				}
			}
			ok("list", fmt.Sprint(n, srv.err != nil))
		case 1, 2: // sign
			k := gen.PickKey(rng)
			var pk ssh.PublicKey = k.Pub
			if rng.Intn(3) == 0 {
				pk = gen.MakeCert(gen.CertSpec{Key: k, KeyID: gen.Str(rng, 10), ValidAfter: now - 10, ValidBefore: now + 10})
			}
			data := gen.Bytes(rng, []int{0, 1, 255, 64 << 10, 17}[rng.Intn(5)])
			fl := agent.SignatureFlags([]int{0, 2, 4}[rng.Intn(3)])
			srv.sig = &ssh.Signature{Format: []string{"ssh-ed25519", "rsa-sha2-256", "ecdsa-sha2-nistp256", "x"}[rng.Intn(4)], Blob: gen.Bytes(rng, 1+rng.Intn(600))}
			srv.err = nil
			if rng.Intn(4) == 0 {
				srv.err, srv.sig = errors.New("no"), nil
			}
			trace = append(trace, "sign")
			var got *ssh.Signature
			var err error
			if fl == 0 && rng.Intn(2) == 0 {
				got, err = cl.Sign(pk, data)
			} else {
				got, err = cl.SignWithFlags(pk, data, fl)
			}
			cs := expectCalls("sign", 1)
			if cs == nil {
				return
			}
			a := cs[0].Args
			if cs[0].Op != "sign" || !bytes.Equal(a[0].([]byte), pk.Marshal()) || !bytes.Equal(a[1].([]byte), data) {
				bad("sign", "arguments", fmt.Sprintf("key/data differ (data %d bytes vs %d)", len(a[1].([]byte)), len(data)))
				return
			}
			if a[2].(uint32) != uint32(fl) {
				bad("sign", "flags", fmt.Sprintf("served agent saw flags %d, caller passed %d", a[2], fl))
				return
			}
			if !same(err, srv.err) {
				bad("sign", "error", fmt.Sprintf("client err=%v served err=%v", err, srv.err))
				return
			}
			if err == nil && (got.Format != srv.sig.Format || !bytes.Equal(got.Blob, srv.sig.Blob)) {
				bad("sign", "signature", "signature bytes differ")
				return
			}
			ok("sign", fmt.Sprint(len(data), fl, srv.err != nil, pk.Type()))
		case 3, 4: // add
			k := gen.PickKey(rng)
			ak := agent.AddedKey{PrivateKey: k.Priv, Comment: gen.Str(rng, 40)}
			if rng.Intn(2) == 0 {
				ak.LifetimeSecs = uint32(1 + rng.Intn(1<<31))
			}
			ak.ConfirmBeforeUse = rng.Intn(3) == 0
			if rng.Intn(3) == 0 {
				ak.Certificate = gen.MakeCert(gen.CertSpec{Key: k, KeyID: gen.Str(rng, 30), ValidAfter: now - 10, ValidBefore: now + 10})
			}
			srv.err = errText(rng, text)
			trace = append(trace, "add")
			err := cl.Add(ak)
			cs := expectCalls("add", 1)
			if cs == nil {
				return
			}
			a := cs[0].Args
			var cb []byte
			if ak.Certificate != nil {
				cb = ak.Certificate.Marshal()
			}
			switch {
			case cs[0].Op != "add":
				bad("add", "dispatch", cs[0].Op)
				return
			case !bytes.Equal(a[0].([]byte), k.Pub.Marshal()):
				bad("add", "key", "private key yields another public key")
				return
			case !bytes.Equal(a[1].([]byte), cb):
				bad("add", "certificate", "")
				return
			case a[2].(string) != ak.Comment:
				bad("add", "comment", fmt.Sprintf("%q vs %q", a[2], ak.Comment))
				return
			case a[3].(uint32) != ak.LifetimeSecs:
				bad("add", "lifetime", fmt.Sprintf("%d vs %d", a[3], ak.LifetimeSecs))
				return
			case a[4].(bool) != ak.ConfirmBeforeUse:
				bad("add", "confirm", "")
				return
			case !same(err, srv.err):
				bad("add", "error", fmt.Sprintf("client err=%v served err=%v", err, srv.err))
				return
			}
			ok("add", fmt.Sprint(k.Name, ak.LifetimeSecs != 0, ak.ConfirmBeforeUse, cb != nil, srv.err != nil))
		case 5: // remove
			k := gen.PickKey(rng)
			srv.err = errText(rng, text)
			trace = append(trace, "remove")
			err := cl.Remove(k.Pub)
			cs := expectCalls("remove", 1)
			if cs == nil {
				return
			}
			if cs[0].Op != "remove" || !bytes.Equal(cs[0].Args[0].([]byte), k.Pub.Marshal()) || !same(err, srv.err) {
				bad("remove", "arguments-or-error", fmt.Sprintf("err=%v scripted=%v", err, srv.err))
				return
			}
			ok("remove", fmt.Sprint(k.Name, srv.err != nil))
		case 6: // remove-all
			srv.err = errText(rng, text)
			trace = append(trace, "remove-all")
			err := cl.RemoveAll()
			cs := expectCalls("remove-all", 1)
			if cs == nil {
				return
			}
			if cs[0].Op != "remove-all" || !same(err, srv.err) {
				bad("remove-all", "error", fmt.Sprintf("err=%v scripted=%v", err, srv.err))
				return
			}
			ok("remove-all", fmt.Sprint(srv.err != nil))
		case 7: // lock / unlock
			p := []byte(gen.Str(rng, 30))
			if rng.Intn(5) == 0 {
				p = gen.Bytes(rng, 1024)
			}
			srv.err = errText(rng, text)
			op := []string{"lock", "unlock"}[rng.Intn(2)]
			trace = append(trace, op)
			var err error
			if op == "lock" {
				err = cl.Lock(p)
			} else {
				err = cl.Unlock(p)
			}
			cs := expectCalls(op, 1)
			if cs == nil {
				return
			}
			if cs[0].Op != op || !bytes.Equal(cs[0].Args[0].([]byte), p) || !same(err, srv.err) {
				bad(op, "passphrase-or-error", fmt.Sprintf("err=%v scripted=%v", err, srv.err))
				return
			}
			ok(op, fmt.Sprint(len(p), srv.err != nil))
		case 8: // signers (client side: a listing)
			k := gen.PickKey(rng)
			srv.keys = []*agent.Key{{Format: k.Pub.Type(), Blob: k.Pub.Marshal(), Comment: "s"}}
			srv.err = nil
			trace = append(trace, "signers")
			sg, err := cl.Signers()
			cs := srv.take()
			if err != nil || len(sg) != 1 || !bytes.Equal(sg[0].PublicKey().Marshal(), k.Pub.Marshal()) || len(cs) != 1 || cs[0].Op != "list" {
				bad("signers", "result", fmt.Sprintf("err=%v signers=%d calls=%d", err, len(sg), len(cs)))
				return
			}
			ok("signers", k.Name)
		case 9, 10: // add-hard-cert, both formats
			k := gen.PickKey(rng)
			if rng.Intn(6) == 0 {
				// a certificate over a security-key backed key (sk-ssh-ed25519-cert-v01@openssh.com)
				k = gen.SKPool()[rng.Intn(2)]
			}
			var pk ssh.PublicKey = gen.MakeCert(gen.CertSpec{Key: k, KeyID: gen.Str(rng, 30), ValidAfter: now - 10, ValidBefore: now + 10})
			if rng.Intn(4) == 0 {
				pk = k.Pub
			}
			comment := gen.Str(rng, 20)
			srv.err = errTextOrEmpty(rng, text)
			legacy := rng.Intn(2) == 0
			trace = append(trace, map[bool]string{true: "add-hard-cert-legacy", false: "add-hard-cert"}[legacy])
			var err error
			if legacy {
				comment = ""
				var resp []byte
				resp, err = cl.Forward(append([]byte{31}, pk.Marshal()...))
				if err == nil && string(resp) != "SUCCESS" {
					err = errors.New(string(resp))
				}
			} else {
				err = cl.AddHardCert(pk, comment)
			}
			cs := expectCalls("add-hard-cert", 1)
			if cs == nil {
				return
			}
			switch {
			case cs[0].Op != "add-hard-cert":
				bad("add-hard-cert", "dispatch", cs[0].Op)
				return
			case !bytes.Equal(cs[0].Args[0].([]byte), pk.Marshal()):
				bad("add-hard-cert", "key", "")
				return
			case cs[0].Args[1].(string) != comment:
				bad("add-hard-cert", fmt.Sprintf("comment:legacy=%v", legacy), fmt.Sprintf("served agent saw comment %q, caller passed %q", cs[0].Args[1], comment))
				return
			case !same(err, srv.err):
				bad("add-hard-cert", "error", fmt.Sprintf("err=%v scripted=%v", err, srv.err))
				return
			case err != nil && err.Error() != srv.err.Error():
				bad("add-hard-cert", "error-text", fmt.Sprintf("%q vs %q", err, srv.err))
				return
			}
			ok("add-hard-cert", fmt.Sprint(legacy, srv.err != nil, pk.Type()))
		case 11: // list-slots
			n := rng.Intn(6)
			srv.slots = nil
			for j := 0; j < n; j++ {
				srv.slots = append(srv.slots, []string{"9a", "9c", "9d", "9e", "f9", "82", "95"}[rng.Intn(7)])
			}
			srv.err = errText(rng, text)
			trace = append(trace, "list-slots")
			got, err := cl.ListSlots()
			if expectCalls("list-slots", 1) == nil {
				return
			}
			if !same(err, srv.err) || (err != nil && err.Error() != srv.err.Error()) {
				bad("list-slots", "error", fmt.Sprintf("%v vs %v", err, srv.err))
				return
			}
			if !(len(got) == 0 && len(srv.slots) == 0) && !reflect.DeepEqual(got, srv.slots) {
				bad("list-slots", "slots", fmt.Sprintf("%q vs %q", got, srv.slots))
				return
			}
			ok("list-slots", fmt.Sprint(srv.slots, srv.err != nil))
		case 12, 13: // read / attest slot
			slot := gen.Str(rng, 8)
			if rng.Intn(2) == 0 {
				slot = []string{"9a", "9c", "f9"}[rng.Intn(3)]
			}
			srv.cert, srv.err = nil, nil
			if rng.Intn(3) == 0 || len(x509Certs) == 0 {
				srv.err = errors.New(text())
			} else {
				srv.cert = x509Certs[rng.Intn(len(x509Certs))]
				if rng.Intn(5) == 0 {
					// a served agent that hands back what it read AND says what was wrong with it: the caller gets the error
					srv.err = errors.New("the slot certificate does not chain to the device: " + text())
				}
			}
			op := []string{"read-slot", "attest-slot"}[rng.Intn(2)]
			trace = append(trace, op)
			var got *x509.Certificate
			var err error
			if op == "read-slot" {
				got, err = cl.ReadSlot(slot)
			} else {
				got, err = cl.AttestSlot(slot)
			}
			cs := expectCalls(op, 1)
			if cs == nil {
				return
			}
			switch {
			case cs[0].Op != op:
				bad(op, "dispatch", cs[0].Op)
				return
			case cs[0].Args[0].(string) != slot:
				bad(op, "slot-name", fmt.Sprintf("%q vs %q", cs[0].Args[0], slot))
				return
			case !same(err, srv.err):
				bad(op, "error", fmt.Sprintf("%v vs %v", err, srv.err))
				return
			case err != nil && err.Error() != srv.err.Error():
				bad(op, "error-text", fmt.Sprintf("%q vs %q", err, srv.err))
				return
			case err == nil && !bytes.Equal(got.Raw, srv.cert.Raw):
				bad(op, "certificate", "Raw differs")
				return
			}
			ok(op, fmt.Sprint(slot, srv.err != nil))
		case 14: // wait
			code := byte(rng.Intn(256))
			srv.err = errTextOrEmpty(rng, text)
			trace = append(trace, "wait")
			err := cl.Wait(code)
			cs := expectCalls("wait", 1)
			if cs == nil {
				return
			}
			if cs[0].Op != "wait" || cs[0].Args[0].(byte) != code || !same(err, srv.err) {
				bad("wait", "code-or-error", fmt.Sprintf("served agent saw %v, caller passed %d; err=%v scripted=%v", cs[0].Args, code, err, srv.err))
				return
			}
			ok("wait", fmt.Sprint(code, srv.err != nil))
		case 15: // smart-card requests: encoded by the client, relayed raw to the served agent
			id := gen.NonEmptyStr(rng, 12)
			pin := []byte(gen.Str(rng, 10))
			lifetime := time.Duration(rng.Intn(3)*rng.Intn(100000)) * time.Second
			confirm := rng.Intn(2) == 0
			srv.raw = [][]byte{{6}, {5}, {}, {6, 1, 2}}[rng.Intn(4)]
			srv.err = nil
			remove := rng.Intn(2) == 0
			op := "add-smartcard"
			var err error
			if remove {
				op = "remove-smartcard"
				trace = append(trace, op)
				err = cl.RemoveSmartcardKey(id, pin)
			} else {
				trace = append(trace, op)
				err = cl.AddSmartcardKey(id, pin, lifetime, confirm)
			}
			cs := expectCalls(op, 1)
			if cs == nil {
				return
			}
			if cs[0].Op != "forward" {
				bad(op, "dispatch", cs[0].Op)
				return
			}
			req := cs[0].Args[0].([]byte)
			var m struct {
				ID   string
				PIN  []byte
				Rest []byte `ssh:"rest"`
			}
			wantCode := byte(26)
			if remove {
				wantCode = 21
			}
			if len(req) < 1 || req[0] != wantCode || ssh.Unmarshal(req[1:], &m) != nil {
				bad(op, "encoding", fmt.Sprintf("%x", req[:min(len(req), 40)]))
				return
			}
			if m.ID != id || !bytes.Equal(m.PIN, pin) {
				bad(op, "reader-or-pin", fmt.Sprintf("%q/%q vs %q/%q", m.ID, m.PIN, id, pin))
				return
			}
			if !remove {
				var want []byte
				if secs := uint32(lifetime.Seconds()); lifetime != 0 {
					want = append(want, 1, byte(secs>>24), byte(secs>>16), byte(secs>>8), byte(secs))
				}
				if confirm {
					want = append(want, 2)
				}
				if !bytes.Equal(m.Rest, want) {
					bad(op, "constraints", fmt.Sprintf("%x vs %x", m.Rest, want))
					return
				}
			} else if len(m.Rest) != 0 {
				bad(op, "trailing-bytes", fmt.Sprintf("%x", m.Rest))
				return
			}
			wantErr := len(srv.raw) == 0 || srv.raw[0] != 6
			if (err != nil) != wantErr {
				bad(op, "result", fmt.Sprintf("served agent answered %x, client err=%v", srv.raw, err))
				return
			}
			ok(op, fmt.Sprint(lifetime != 0, confirm, wantErr))
		default: // raw forward (extension requests, code 27, are relayed raw as well)
			var code byte
			for {
				code = byte(rng.Intn(256))
				switch code {
				case 1, 11, 13, 17, 18, 19, 22, 23, 25, 31, 32, 33, 34, 35:
					continue
				}
				break
			}
			req := append([]byte{code}, gen.Bytes(rng, []int{0, 1, 255, 64 << 10, 9}[rng.Intn(5)])...)
			srv.raw = gen.Bytes(rng, []int{0, 1, 255, 64 << 10, 9}[rng.Intn(5)])
			srv.err = nil
			failing := rng.Intn(12) == 0
			if failing {
				// the served agent cannot relay the request (its own upstream is gone): the caller gets an error, not a reply
				srv.err = errors.New("upstream unreachable")
			}
			trace = append(trace, "forward")
			got, err := cl.Forward(req)
			cs := expectCalls("forward", 1)
			if cs == nil {
				return
			}
			if failing {
				if err == nil {
					bad("forward", "error", fmt.Sprintf("the served agent's Forward failed; the client returned %d reply bytes (%x) and no error", len(got), trunc16(got)))
					return
				}
				ok("forward-error", fmt.Sprint(code))
				return // the connection is not expected to survive that
			}
			if cs[0].Op != "forward" || !bytes.Equal(cs[0].Args[0].([]byte), req) {
				bad("forward", "request-bytes", fmt.Sprintf("%d vs %d bytes", len(cs[0].Args[0].([]byte)), len(req)))
				return
			}
			if err != nil || !bytes.Equal(got, srv.raw) {
				bad("forward", "reply-bytes", fmt.Sprintf("err=%v, %d vs %d bytes", err, len(got), len(srv.raw)))
				return
			}
			ok("forward", fmt.Sprint(code, len(req), len(srv.raw)))
		}
	}
	c1.Close()
	select {
	case e := <-served:
		if e != nil && strings.HasPrefix(e.Error(), "panic") {
			r.Violation(c, "panic:ServeAgent(recording agent)", e.Error(), nil)
		}
	case <-time.After(10 * time.Second):
	}
}

// ---- rig B: fake PIV tool --------------------------------------------------------

const toolScript = `#!/bin/sh
d="$(dirname "$0")"
echo "$@" >> "$d/invocations"
cat "$d/err" >&2
cat "$d/out"
exit "$(cat "$d/rc")"
`

func refSlots(output string) (must [][2]string) {
	// per line: {value, mode}; mode "must" or "maybe"
	for _, line := range strings.Split(output, "\n") {
		if !strings.HasPrefix(line, "Slot") {
			continue
		}
		if len(line) >= 7 && line[4] == ' ' {
			must = append(must, [2]string{line[5:7], "must"})
		} else if len(line) >= 7 {
			must = append(must, [2]string{line[5:7], "maybe"})
		} else {
			must = append(must, [2]string{"", "maybe-short"})
		}
	}
	return
}

func matchSlots(exp [][2]string, got []string) bool {
	// greedy: "must" entries consume exactly; "maybe" entries may consume if equal
	var rec func(i, j int) bool
	memo := map[[2]int]bool{}
	rec = func(i, j int) bool {
		if i == len(exp) {
			return j == len(got)
		}
		k := [2]int{i, j}
		if v, ok := memo[k]; ok {
			return v
		}
		res := false
		switch exp[i][1] {
		case "must":
			res = j < len(got) && got[j] == exp[i][0] && rec(i+1, j+1)
		case "maybe":
			res = rec(i+1, j) || (j < len(got) && got[j] == exp[i][0] && rec(i+1, j+1))
		default:
			res = rec(i+1, j) || (j < len(got) && rec(i+1, j+1))
		}
		memo[k] = res
		return res
	}
	if len(exp) > 2000 { // large uniform outputs: all "must"
		if len(got) != len(exp) {
			return false
		}
		for i := range exp {
			if exp[i][1] != "must" || got[i] != exp[i][0] {
				return false
			}
		}
		return true
	}
	return rec(0, 0)
}

func rigB(r *ev.Run) {
	if !r.Want("tool") {
		return
	}
	dir, err := os.MkdirTemp("", "piv")
	if err != nil {
		r.Inconclusive(err.Error())
		return
	}
	defer os.RemoveAll(dir)
	tool := filepath.Join(dir, "yubico-piv-tool")
	os.WriteFile(tool, []byte(toolScript), 0o755)
	os.WriteFile(filepath.Join(dir, "out"), nil, 0o644)
	os.WriteFile(filepath.Join(dir, "err"), nil, 0o644)
	os.WriteFile(filepath.Join(dir, "rc"), []byte("0"), 0o644)
	os.Setenv("PATH", dir+":"+os.Getenv("PATH"))
	ag := wire.New()
	defer ag.Close()
	sock, _ := ag.Listen()
	c0 := r.CaseAlways("tool", 0)
	local, err := yubiagent.NewServer(sock, false)
	if err != nil {
		r.Violation(c0, "server-construction-with-tool-fails", err.Error(), nil)
		return
	}
	remote, err := yubiagent.NewServer(sock, true)
	if err != nil {
		r.Violation(c0, "server-construction-fails", err.Error(), nil)
		return
	}
	// also reach the local server through a real client
	c1, c2, _ := wire.SocketPair()
	go func() { defer c2.Close(); defer func() { recover() }(); yubiagent.ServeAgent(local, c2) }()
	cl, _ := yubiagent.NewClientFromConn(c1)
	defer c1.Close()
	status := "Version:\t5.4.3\nSerial Number:\t12345678\nCHUID:\tNo data available\nCCC:\tNo data available\nSlot 9a:\t\n\tAlgorithm:\tRSA2048\n\tSubject DN:\tCN=x\nSlot 9c:\t\n\tAlgorithm:\tECCP256\nSlot f9:\t\n\tAlgorithm:\tRSA2048\nPIN tries left:\t3\n"
	var outputs []string
	outputs = append(outputs, status, "", "\n", "Slot", "Slot ", "Slot 9", "Slot 9a", "Slot 9a:", "Slot 9a:\r\nSlot 9c:\r\n", "slot 9a:\nSLOT 9c:\n Slot 9d:\n", "Slotty9e:\nSlot\t9d:\n", strings.Replace(status, "\n", "\r\n", -1), "Slot 9a\nSlot 9\nSlot 9c:", "Slot \xff\xfe:\nSlot 日本:\n")
	for i := 0; i <= len(status); i++ {
		outputs = append(outputs, status[:i])
	}
	for l := 4; l <= 9; l++ {
		outputs = append(outputs, "Slot 9abcdef"[:l], "x\n"+"Slot 9abcdef"[:l]+"\nSlot 9c:\n", "Slot 9abcdef"[:l]+"\n")
	}
	outputs = append(outputs, strings.Repeat("Slot 9a\n", 131072))
	n := len(outputs)
	extra := r.Pick(200, 4000)
	for i := 0; i < n+extra; i++ {
		c := r.Case("tool", i)
		if c == nil {
			continue
		}
		var out string
		if i < n {
			out = outputs[i]
		} else {
			// seeded: lines drawn from Slot-ish fragments
			var b strings.Builder
			for k := c.Rand.Intn(8); k >= 0; k-- {
				b.WriteString([]string{"Slot 9a:", "Slot 9c:\t", "Slot", "Slot ", "Slot 8", "Slot 82", "Slot9d: x", "PIN tries left:\t3", "", "\tAlgorithm:\tRSA2048", "Slot f9:", " Slot 9e:", "Slo", "Slot  9a"}[c.Rand.Intn(14)])
				b.WriteString([]string{"\n", "\n", "\r\n", ""}[c.Rand.Intn(4)])
			}
			out = b.String()
		}
		rc := 0
		if i%7 == 6 {
			rc = 1 + c.Rand.Intn(3)
		}
		os.WriteFile(filepath.Join(dir, "out"), []byte(out), 0o644)
		os.WriteFile(filepath.Join(dir, "rc"), []byte(fmt.Sprint(rc)), 0o644)
		// what the tool says on its standard error (warnings of a tool that goes on to succeed) is not its answer
		diag := ""
		if i%4 == 1 {
			diag = []string{"Slot 82:\twarning: retired key management slot is empty\n", "warning: PIN tries left: 2\n", "Slot 9d: deprecated algorithm", "Slot f9:\n"}[i/4%4]
		}
		os.WriteFile(filepath.Join(dir, "err"), []byte(diag), 0o644)
		rec := map[string]any{"tool_output": trunc(out), "tool_stderr": diag, "exit_status": rc}
		viaClient := i%3 == 0 && len(out) < 1<<20
		r.Eval(1)
		if _, hung := r.GuardWithin(c, "ListSlots", rec, ev.CaseBudget(), func() {
			var got []string
			var err error
			if viaClient {
				got, err = cl.ListSlots()
			} else {
				got, err = local.ListSlots()
			}
			if rc != 0 {
				if err == nil {
					r.Violation(c, "tool-failure-not-reported", fmt.Sprintf("exit status %d, result %q", rc, got), rec)
				}
				r.Count("tool exit status non-zero -> error", 1)
				return
			}
			if err != nil {
				r.Violation(c, "slot-listing-fails", err.Error(), rec)
				return
			}
			exp := refSlots(out)
			if viaClient {
				// slot names with ',' or empty cannot travel; skip such outputs
				for _, e := range exp {
					if strings.Contains(e[0], ",") || e[0] == "" {
						r.Count("tool outputs not comparable through the client (name-list)", 1)
						return
					}
				}
			}
			if !matchSlots(exp, got) {
				r.Violation(c, "slot-list-mismatch", fmt.Sprintf("output %q -> %q, reference %v", trunc(out), got, exp), rec)
				return
			}
			r.Nontrivial("tool:" + out)
			r.Count("tool outputs judged", 1)
		}); hung {
			r.Violation(c, "operation-does-not-return:ListSlots", fmt.Sprintf("slot listing number %d on this server (tool exit status %d this time) did not return within %s; goroutines inside the repository:\n%s", i, rc, ev.CaseBudget(), ev.RepoStacks(2000)), rec)
			return
		}
		if i < 2 {
			r.Sample(rec)
		}
	}
	// read / attest: PEM of a real certificate, garbage, empty, non-zero exit
	for i, cert := range x509Certs {
		c := r.Case("tool-cert", i)
		if c == nil {
			continue
		}
		pemBytes := pem.EncodeToMemory(&pem.Block{Type: "CERTIFICATE", Bytes: cert.Raw})
		for _, v := range []struct {
			out  []byte
			rc   int
			want bool
		}{{pemBytes, 0, true}, {pemBytes, 1, false}, {nil, 0, false}, {[]byte("garbage"), 0, false}, {pemBytes[:len(pemBytes)/2], 0, false}, {append([]byte("text before\n"), pemBytes...), 0, true},
			// a tool that exits 0 and prints nothing but white space, or the armour without a body
			{[]byte("\n"), 0, false}, {[]byte(" \t\r\n\n"), 0, false}, {[]byte("-----BEGIN CERTIFICATE-----\n-----END CERTIFICATE-----\n"), 0, false}, {append(append([]byte{}, pemBytes...), []byte("\n\n \n")...), 0, true}} {
			os.WriteFile(filepath.Join(dir, "out"), v.out, 0o644)
			os.WriteFile(filepath.Join(dir, "rc"), []byte(fmt.Sprint(v.rc)), 0o644)
			for _, op := range []string{"read", "attest"} {
				r.Eval(1)
				r.Guard(c, "slot "+op, nil, func() {
					var got *x509.Certificate
					var err error
					switch {
					case op == "read" && i%2 == 0:
						got, err = local.ReadSlot("9a")
					case op == "read":
						got, err = cl.ReadSlot("9a")
					case i%2 == 0:
						got, err = local.AttestSlot("9a")
					default:
						got, err = cl.AttestSlot("9a")
					}
					if v.want && (err != nil || !bytes.Equal(got.Raw, cert.Raw)) {
						r.Violation(c, "slot-certificate-not-returned:"+op, fmt.Sprintf("err=%v", err), hex.EncodeToString(v.out[:min(len(v.out), 60)]))
					} else if !v.want && err == nil {
						r.Violation(c, "slot-error-reported-as-success:"+op, fmt.Sprintf("tool output %q rc=%d", trunc(string(v.out)), v.rc), nil)
					} else {
						r.Count("slot read/attest outcomes as expected", 1)
					}
				})
			}
		}
	}
	// remote mode: refused, tool never executed
	if c := r.Case("tool-remote", 0); c != nil {
		os.Remove(filepath.Join(dir, "invocations"))
		os.WriteFile(filepath.Join(dir, "out"), []byte(status), 0o644)
		os.WriteFile(filepath.Join(dir, "rc"), []byte("0"), 0o644)
		r.Eval(3)
		_, e1 := remote.ListSlots()
		_, e2 := remote.ReadSlot("9a")
		_, e3 := remote.AttestSlot("9a")
		if e1 == nil || e2 == nil || e3 == nil {
			r.Violation(c, "slot-operation-allowed-in-remote-mode", fmt.Sprintf("%v %v %v", e1, e2, e3), nil)
		}
		if _, err := os.Stat(filepath.Join(dir, "invocations")); err == nil {
			r.Violation(c, "tool-executed-in-remote-mode", "", nil)
		}
		r.Count("remote-mode refusals", 3)
	}
}

func trunc(s string) string {
	if len(s) > 200 {
		return s[:200] + "…"
	}
	return s
}
