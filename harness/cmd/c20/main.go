// C20 — waiting on a message code wakes on the next request with that code, only then.
package main

import (
	"bytes"
	"fmt"
	"io"
	"github.com/theparanoids/ysshra/verifharness/lib/gen"
	"golang.org/x/crypto/ssh/agent"
	"net"
	"runtime"
	"sort"
	"strings"
	"sync"
	"sync/atomic"
	"time"

	"github.com/theparanoids/ysshra/agent/shimagent"
	"github.com/theparanoids/ysshra/agent/yubiagent"
	"github.com/theparanoids/ysshra/verifharness/lib/ev"
	"github.com/theparanoids/ysshra/verifharness/lib/wire"
)

// parked counts goroutines blocked in sync.Cond.Wait below (*shimagent.Server).Wait.
func parked() int {
	buf := make([]byte, 1<<20)
	for {
		n := runtime.Stack(buf, true)
		if n < len(buf) {
			buf = buf[:n]
			break
		}
		buf = make([]byte, 2*len(buf))
	}
	cnt := 0
	for _, g := range strings.Split(string(buf), "\n\n") {
		nl := strings.IndexByte(g, '\n')
		if nl < 0 {
			continue
		}
		if strings.Contains(g[:nl], "[sync.Cond.Wait") && strings.Contains(g, "shimagent.(*Server).Wait") {
			cnt++
		}
	}
	return cnt - int(longParked.Load())
}

// longParked is the number of waiters of the long-park rig (below), which stay parked for the whole run on
// servers of their own and are not part of any scenario's count.
var longParked atomic.Int32

type waiter struct {
	code     byte
	done     chan error
	returned bool
	err      error
	conn     interface{ Close() error }
}

func (w *waiter) poll() bool {
	if w.returned {
		return true
	}
	select {
	case e := <-w.done:
		w.returned, w.err = true, e
		return true
	default:
		return false
	}
}

type scenario struct {
	Mode    string `json:"mode"`
	Locked  bool   `json:"agent_locked_first"`
	Waiters []int  `json:"waiter_codes"`
	Late    []int  `json:"late_waiter_codes"`
	Pokes   []int  `json:"poke_codes"`
	// CloseAttempt: with the agent locked, Close is attempted (and refused) once the waiters are parked
	CloseAttempt bool `json:"close_attempt_while_locked,omitempty"`
}

type rig struct {
	ag     *wire.Agent
	srv    yubiagent.YubiAgent
	direct *shimagent.Server
	// wedged: a request did not get its reply within the watchdog; the server may hold its locks for good
	wedged bool
}

var directRigs atomic.Int32

// wedgedOnce stops the run: goroutines stuck in a wedged server stay in the goroutine table.
var wedgedOnce bool

func newRig(direct bool) (*rig, error) {
	g := &rig{ag: wire.New()}
	sock, err := g.ag.Listen()
	if err != nil {
		return nil, err
	}
	if direct {
		// either mode of the shim: waiting is the same in both
		s, err := shimagent.New(shimagent.Option{Address: sock, NoUpstream: directRigs.Add(1)%2 == 0})
		if err != nil {
			return nil, err
		}
		ds, ok := s.(*shimagent.Server)
		if !ok {
			return nil, fmt.Errorf("shimagent.New did not return *shimagent.Server")
		}
		g.direct = ds
		return g, nil
	}
	g.srv, err = yubiagent.NewServer(sock, true)
	return g, err
}

func (g *rig) close() {
	done := make(chan struct{})
	go func() {
		defer close(done)
		if g.srv != nil {
			g.srv.Close()
		}
		if g.direct != nil {
			g.direct.Close()
		}
	}()
	select {
	case <-done:
	case <-time.After(5 * time.Second):
		// Close waits for a lock that is never released: abandon the server
	}
	g.ag.Close()
}

func (g *rig) startWaiter(code byte) (*waiter, error) {
	w := &waiter{code: code, done: make(chan error, 1)}
	if g.direct != nil {
		go func() {
			defer func() {
				if p := recover(); p != nil {
					w.done <- fmt.Errorf("panic: %v", p)
				}
			}()
			w.done <- g.direct.Wait(code)
		}()
		return w, nil
	}
	c1, c2, err := wire.SocketPair()
	if err != nil {
		return nil, err
	}
	w.conn = c1
	go func() {
		defer c2.Close()
		defer func() {
			if p := recover(); p != nil {
				w.done <- fmt.Errorf("server panic: %v", p)
			}
		}()
		yubiagent.ServeAgent(g.srv, c2)
	}()
	cl, err := yubiagent.NewClientFromConn(c1)
	if err != nil {
		return nil, err
	}
	go func() { w.done <- cl.Wait(code) }()
	return w, nil
}

// poke sends a request whose first byte is code on a fresh connection and waits for its reply or the end of service.
func (g *rig) poke(code byte) (panicked string) {
	if g.direct != nil {
		dd := make(chan string, 1)
		go func() {
			defer func() {
				if p := recover(); p != nil {
					dd <- fmt.Sprint(p)
					return
				}
				dd <- ""
			}()
			g.direct.Broadcast(code)
		}()
		select {
		case panicked = <-dd:
		case <-time.After(ev.OpTimeout()):
			g.wedged, wedgedOnce = true, true
		}
		return
	}
	p1, p2, err := wire.SocketPair()
	if err != nil {
		return ""
	}
	sd := make(chan string, 1)
	go func() {
		defer p2.Close()
		defer func() {
			if p := recover(); p != nil {
				sd <- fmt.Sprint(p)
				return
			}
			sd <- ""
		}()
		yubiagent.ServeAgent(g.srv, p2)
	}()
	body := []byte{code}
	if code == 35 {
		body = []byte{35, 40} // a wait on an unsupported code returns at once
	}
	p1.Write(wire.Frame(body))
	p1.SetReadDeadline(time.Now().Add(ev.OpTimeout()))
	_, rerr := wire.ReadFrame(p1)
	p1.Close()
	if ne, ok := rerr.(net.Error); ok && ne.Timeout() {
		g.wedged, wedgedOnce = true, true
		return
	}
	select {
	case panicked = <-sd:
	case <-time.After(ev.OpTimeout()):
		g.wedged, wedgedOnce = true, true
	}
	return
}

func waitParked(want int, d time.Duration) int {
	deadline := time.Now().Add(d)
	n := parked()
	for n != want && time.Now().Before(deadline) {
		time.Sleep(200 * time.Microsecond)
		n = parked()
	}
	return n
}

func run(r *ev.Run, c *ev.Case, sc scenario) {
	g, err := newRig(sc.Mode == "direct")
	if err != nil {
		r.Violation(c, "construction-fails", err.Error(), sc)
		return
	}
	defer g.close()
	if sc.Locked {
		// waiting does not depend on the agent's lock state
		var lerr error
		if g.direct != nil {
			lerr = g.direct.Lock([]byte("pw"))
		} else {
			lerr = g.srv.Lock([]byte("pw"))
		}
		if lerr != nil {
			r.Inconclusive("could not lock the agent: " + lerr.Error())
			return
		}
	}
	base := parked() // waiters parked by other scenarios do not exist: scenarios run one at a time
	if base != 0 {
		r.Inconclusive(fmt.Sprintf("%d goroutines already parked before the scenario", base))
		return
	}
	var ws []*waiter
	v0 := r.NumViolations()
	violatedHere := false
	defer func() {
		violatedHere = r.NumViolations() > v0
		// release everything that is still parked so that the next scenario starts clean
		if g.wedged {
			for _, w := range ws {
				if w.conn != nil {
					w.conn.Close()
				}
			}
			return
		}
		seen := map[byte]bool{}
		for _, w := range ws {
			if !w.poll() && w.code < 40 && !seen[w.code] {
				seen[w.code] = true
				g.poke(w.code)
			}
		}
		if parked() != 0 {
			for code := 0; code < 40; code++ {
				g.poke(byte(code))
			}
		}
		if g.wedged {
			if !violatedHere {
				r.Violation(c, "request-never-completes-while-clients-wait:release", fmt.Sprintf("a request sent to release the remaining waiters got no reply within the watchdog; %d goroutines parked", parked()), sc)
			}
			for _, w := range ws {
				if w.conn != nil {
					w.conn.Close()
				}
			}
			return
		}
		// every code below 40 has now been named by at least one request after the last waiter registered
		left := waitParked(0, 5*time.Second)
		if left != 0 && !g.wedged && !violatedHere {
			var codes []int
			for _, w := range ws {
				if !w.poll() && w.code < 40 {
					codes = append(codes, int(w.code))
				}
			}
			r.Violation(c, "waiter-survives-matching-requests", fmt.Sprintf("%d goroutines are still parked (waiters on codes %v) after requests with each of their codes and with every code 0..39 were answered", left, codes), sc)
		}
		for _, w := range ws {
			if w.conn != nil {
				w.conn.Close()
			}
		}
		if left != 0 {
			// a goroutine parked for good stays in the goroutine table: later scenarios could not be judged
			wedgedOnce = true
		}
	}()
	expectParked := 0
	add := func(code int) bool {
		// through a client, registering is itself a request with code 35: it releases whoever waits on 35
		released35 := 0
		if sc.Mode == "served" {
			for _, w := range ws {
				if !w.returned && w.code == 35 {
					released35++
				}
			}
		}
		w, err := g.startWaiter(byte(code))
		if err != nil {
			r.Inconclusive("waiter: " + err.Error())
			return false
		}
		if released35 > 0 {
			for _, o := range ws {
				if !o.returned && o.code == 35 {
					select {
					case e := <-o.done:
						o.returned, o.err = true, e
						if e != nil {
							r.Violation(c, "released-waiter-reports-error", fmt.Sprintf("code 35: %v", e), sc)
							return false
						}
					case <-time.After(ev.OpTimeout()):
						r.Violation(c, "waiter-not-released:poke=35(wait request)", "a waiter on code 35 was not released by another client's wait request", sc)
						return false
					}
				}
			}
			expectParked -= released35
			r.Count("waiters on code 35 released by another client's wait request", released35)
		}
		ws = append(ws, w)
		if code < 40 {
			expectParked++
			if n := waitParked(expectParked, ev.OpTimeout()); n != expectParked {
				r.Violation(c, fmt.Sprintf("waiter-does-not-register:code=%d", code), fmt.Sprintf("after starting a waiter on code %d, %d goroutines are parked (expected %d)", code, n, expectParked), sc)
				return false
			}
		} else {
			// unsupported code: must return at once, without parking, without crashing
			select {
			case e := <-w.done:
				w.returned, w.err = true, e
				if e != nil {
					r.Violation(c, "wait-on-unsupported-code-fails", fmt.Sprintf("code %d: %v", code, e), sc)
					return false
				}
				if n := parked(); n != expectParked {
					r.Violation(c, "wait-on-unsupported-code-parks", fmt.Sprintf("code %d: %d parked, expected %d", code, n, expectParked), sc)
					return false
				}
				r.Count("waits on unsupported codes returned at once", 1)
			case <-time.After(ev.OpTimeout()):
				r.Violation(c, fmt.Sprintf("wait-on-unsupported-code-blocks:code=%d", code), fmt.Sprintf("Wait(%d) did not return; %d goroutines parked", code, parked()), sc)
				return false
			}
		}
		return true
	}
	for _, code := range sc.Waiters {
		if !add(code) {
			return
		}
	}
	if sc.Locked && sc.CloseAttempt {
		// closing a locked agent is refused and the agent lives on: that is not a request with anybody's code
		var cerr error
		cd := make(chan error, 1)
		go func() {
			if g.direct != nil {
				cd <- g.direct.Close()
			} else {
				cd <- g.srv.Close()
			}
		}()
		select {
		case cerr = <-cd:
		case <-time.After(ev.OpTimeout()):
			g.wedged, wedgedOnce = true, true
			r.Violation(c, "close-never-returns-while-clients-wait", fmt.Sprintf("%d goroutines parked", parked()), sc)
			return
		}
		if cerr == nil {
			// the agent let itself be closed: nothing further to observe on it
			r.Count("close of a locked agent succeeded (scenario ends)", 1)
			return
		}
		time.Sleep(time.Millisecond)
		if n := parked(); n != expectParked {
			r.Violation(c, "waiters-released-by-refused-close", fmt.Sprintf("Close was refused (%v) and the agent lives on, but only %d of %d waiters are still parked", cerr, n, expectParked), sc)
			return
		}
		for _, w := range ws {
			if w.code < 40 && !w.returned && w.poll() {
				r.Violation(c, "waiters-released-by-refused-close", fmt.Sprintf("Close was refused (%v); the waiter on code %d returned (err=%v)", cerr, w.code, w.err), sc)
				return
			}
		}
		r.Count("refused close attempts that released nobody", 1)
	}
	late := append([]int{}, sc.Late...)
	for pi, p := range sc.Pokes {
		// a late waiter registers between two pokes
		if pi == 1 && len(late) > 0 {
			for _, code := range late {
				if !add(code) {
					return
				}
			}
			late = nil
		}
		if pn := g.poke(byte(p)); pn != "" {
			r.Violation(c, fmt.Sprintf("request-crashes-serving:code=%d", p), pn, sc)
			return
		}
		if g.wedged {
			stillWaiting := 0
			for _, w := range ws {
				if !w.poll() && int(w.code) == p {
					stillWaiting++
				}
			}
			r.Violation(c, fmt.Sprintf("request-never-completes-while-clients-wait:code=%d", p), fmt.Sprintf("a request with code %d got no reply within the watchdog while %d goroutines are parked (%d of them waiting for this very code and not released)", p, parked(), stillWaiting), sc)
			return
		}
		released := 0
		for _, w := range ws {
			if !w.returned && int(w.code) == p && w.code < 40 {
				released++
			}
		}
		want := expectParked - released
		n := waitParked(want, ev.OpTimeout())
		if n > want {
			r.Violation(c, fmt.Sprintf("waiter-not-released:poke=%d", p), fmt.Sprintf("after a request with code %d got its reply, %d goroutines are still parked; expected %d (%d waiters on that code)", p, n, want, released), sc)
			return
		}
		if n < want {
			r.Violation(c, fmt.Sprintf("waiter-released-by-other-code:poke=%d", p), fmt.Sprintf("after a request with code %d, only %d goroutines are parked; expected %d: a waiter on another code was released", p, n, want), sc)
			return
		}
		expectParked = want
		// the released waiters return success, all of them; the others have not returned
		for _, w := range ws {
			if w.returned {
				continue
			}
			if int(w.code) == p && w.code < 40 {
				select {
				case e := <-w.done:
					w.returned, w.err = true, e
					if e != nil {
						r.Violation(c, "released-waiter-reports-error", fmt.Sprintf("code %d: %v", w.code, e), sc)
						return
					}
				case <-time.After(ev.OpTimeout()):
					r.Violation(c, fmt.Sprintf("released-waiter-does-not-return:code=%d", w.code), "", sc)
					return
				}
			} else if w.poll() {
				r.Violation(c, fmt.Sprintf("waiter-returns-without-matching-request:waiting=%d:poke=%d", w.code, p), fmt.Sprintf("err=%v", w.err), sc)
				return
			}
		}
		if released > 0 {
			r.Count("pokes that released waiters", 1)
			r.Count("waiters released together", released)
		} else {
			r.Count("non-matching pokes (nobody released)", 1)
		}
		// settle: nothing else wakes up afterwards
		if pi%4 == 0 {
			time.Sleep(time.Millisecond)
			if n := parked(); n != expectParked {
				r.Violation(c, fmt.Sprintf("parked-count-drifts:poke=%d", p), fmt.Sprintf("%d parked after settling, expected %d", n, expectParked), sc)
				return
			}
		}
	}
	r.Nontrivial(fmt.Sprintf("%+v", sc))
}

// racing: clients are already parked on a code when, at the same instant, more clients register for that code and a
// request with it arrives. The ones that were parked before the request was sent are released by it — whatever the
// newcomers are doing at that moment. (Direct calls on one server; many short rounds.)
func racing(r *ev.Run) {
	c := r.Case("racing", 0)
	if c == nil || wedgedOnce {
		return
	}
	g, err := newRig(true)
	if err != nil {
		return
	}
	defer g.close()
	rounds := r.Pick(400, 6000)
	for it := 0; it < rounds; it++ {
		code := byte(it % 40)
		var early []*waiter
		for k := 0; k < 2; k++ {
			w, _ := g.startWaiter(code)
			early = append(early, w)
		}
		if n := waitParked(2, ev.OpTimeout()); n != 2 {
			r.Violation(c, "waiter-does-not-register:racing", fmt.Sprintf("round %d: %d parked", it, n), nil)
			wedgedOnce = true
			return
		}
		start := make(chan struct{})
		var late []*waiter
		var lwg sync.WaitGroup
		for k := 0; k < 6; k++ {
			w := &waiter{code: code, done: make(chan error, 1)}
			late = append(late, w)
			lwg.Add(1)
			go func() {
				<-start
				lwg.Done()
				w.done <- g.direct.Wait(code)
			}()
		}
		bdone := make(chan struct{})
		go func() {
			<-start
			for spin := c.Rand.Intn(200); spin > 0; spin-- {
				runtime.Gosched()
			}
			g.direct.Broadcast(code)
			close(bdone)
		}()
		close(start)
		select {
		case <-bdone:
		case <-time.After(ev.OpTimeout()):
			r.Violation(c, "request-never-completes-while-clients-wait:racing", fmt.Sprintf("round %d, code %d", it, code), nil)
			wedgedOnce = true
			return
		}
		r.Eval(1)
		for _, w := range early {
			select {
			case e := <-w.done:
				if e != nil {
					r.Violation(c, "released-waiter-reports-error:racing", e.Error(), nil)
					wedgedOnce = true
					return
				}
			case <-time.After(ev.OpTimeout()):
				r.Violation(c, "waiter-not-released:racing", fmt.Sprintf("round %d: a client parked on code %d before the request was sent is still parked after the request completed (six more clients were registering for the same code at that moment)", it, code), map[string]any{"round": it, "code": code})
				wedgedOnce = true
				return
			}
		}
		// release the newcomers (those that registered after the request are legitimately still parked)
		lwg.Wait()
		deadline := time.Now().Add(ev.OpTimeout())
		for _, w := range late {
			for released := false; !released; {
				select {
				case <-w.done:
					released = true
				case <-time.After(200 * time.Microsecond):
					g.direct.Broadcast(code)
					if time.Now().After(deadline) {
						r.Violation(c, "waiter-survives-matching-requests:racing", fmt.Sprintf("round %d", it), nil)
						wedgedOnce = true
						return
					}
				}
			}
		}
	}
	r.Count("racing rounds (2 parked, 6 registering, 1 request at once): the parked ones released", rounds)
	r.Nontrivial("racing")
}

// reusedConnection: a connection that waited earlier (and was released) goes on to send ordinary requests, as a helper
// does that reacts to what it waited for. Those requests are requests received by the agent like any other: a client
// waiting for their code on another connection is released.
func reusedConnection(r *ev.Run) {
	for vi, v := range []struct{ first, second byte }{{13, 11}, {11, 11}, {35, 11}, {17, 19}} {
		c := r.Case("reused-connection", vi)
		if c == nil || wedgedOnce || r.NumViolations() > 8 {
			continue
		}
		r.Eval(1)
		r.Guard(c, "connection that waited earlier sends a request", v, func() {
			g, err := newRig(false)
			if err != nil {
				r.Count("reused-connection: rig could not be built", 1)
				return
			}
			defer g.close()
			a, err := g.startWaiter(v.first)
			if err != nil {
				return
			}
			defer a.conn.Close()
			if n := waitParked(1, ev.OpTimeout()); n != 1 {
				r.Violation(c, "waiter-does-not-register:reused-connection", fmt.Sprintf("code %d: %d parked", v.first, n), v)
				return
			}
			g.poke(v.first)
			select {
			case <-a.done:
			case <-time.After(ev.OpTimeout()):
				r.Violation(c, "waiter-not-released:reused-connection", fmt.Sprintf("code %d", v.first), v)
				wedgedOnce = true
				return
			}
			b, err := g.startWaiter(v.second)
			if err != nil {
				return
			}
			defer b.conn.Close()
			if n := waitParked(1, ev.OpTimeout()); n != 1 {
				r.Violation(c, "waiter-does-not-register:reused-connection", fmt.Sprintf("code %d: %d parked", v.second, n), v)
				return
			}
			// the first connection now sends a request with the code the second one waits for
			ac := a.conn.(net.Conn)
			body := []byte{v.second}
			ac.Write(wire.Frame(body))
			ac.SetReadDeadline(time.Now().Add(ev.OpTimeout()))
			if _, rerr := wire.ReadFrame(ac); rerr != nil {
				r.Count("reused-connection: the request on the first connection got no reply (not judged)", 1)
			}
			select {
			case e := <-b.done:
				if e != nil {
					r.Violation(c, "released-waiter-reports-error:reused-connection", e.Error(), v)
					return
				}
			case <-time.After(ev.OpTimeout()):
				r.Violation(c, "waiter-not-released:request-from-a-connection-that-waited-earlier", fmt.Sprintf("a client waits for code %d; a request with that code arrived on a connection that had itself waited (for code %d) before: the waiter is still parked", v.second, v.first), v)
				wedgedOnce = true
				return
			}
			r.Count("waiters released by a request from a connection that had waited earlier", 1)
			r.Nontrivial(fmt.Sprintf("reused-connection:%d:%d", v.first, v.second))
		})
	}
}

// releaseWhileBusy: a client waits for a code; another connection's request is in the middle of a slow round trip to the
// underlying agent (a signature waiting for a touch); a request with the awaited code arrives on a third connection.
// The waiter is released by the arrival of that request — it does not have to wait for the unrelated slow request
// (nor for the handling of the matching one, which queues behind it) to finish. Decided by order, not by a clock: the
// waiter's return is observed before the slow request's reply (which the scripted agent holds back for 1.8 s).
func releaseWhileBusy(r *ev.Run) {
	for vi, code := range []byte{11, 19} {
		c := r.Case("release-while-busy", vi)
		if c == nil || wedgedOnce || r.NumViolations() > 8 {
			continue
		}
		r.Eval(1)
		r.Guard(c, "matching request arrives while another request is in flight", code, func() {
			g, err := newRig(false)
			if err != nil {
				r.Count("release-while-busy: rig could not be built", 1)
				return
			}
			defer g.close()
			slow := append([]byte{200}, []byte("held-back-by-the-underlying-agent")...)
			g.ag.SetPlan(func(_ int, req []byte) wire.Action {
				if bytes.Equal(req, slow) {
					return wire.Action{Kind: wire.Honest, Delay: 1800 * time.Millisecond}
				}
				return wire.Action{Kind: wire.Honest}
			})
			w, err := g.startWaiter(code)
			if err != nil {
				return
			}
			defer w.conn.Close()
			if n := waitParked(1, ev.OpTimeout()); n != 1 {
				r.Violation(c, "waiter-does-not-register:release-while-busy", fmt.Sprintf("code %d: %d parked", code, n), code)
				return
			}
			// second connection: the slow relayed request
			p1, p2, err := wire.SocketPair()
			if err != nil {
				return
			}
			defer p1.Close()
			go func() { defer p2.Close(); defer func() { recover() }(); yubiagent.ServeAgent(g.srv, p2) }()
			n0 := g.ag.NumRequests()
			slowDone := make(chan struct{})
			go func() {
				defer close(slowDone)
				p1.Write(wire.Frame(slow))
				p1.SetReadDeadline(time.Now().Add(ev.OpTimeout() + 5*time.Second))
				wire.ReadFrame(p1)
			}()
			deadline := time.Now().Add(ev.OpTimeout())
			for g.ag.NumRequests() == n0 && time.Now().Before(deadline) {
				time.Sleep(200 * time.Microsecond)
			}
			if g.ag.NumRequests() == n0 {
				r.Count("release-while-busy: the slow request never reached the underlying agent (not judged)", 1)
				return
			}
			// third connection: a request with the awaited code (its own handling may queue behind the slow one)
			go g.poke(code)
			select {
			case e := <-w.done:
				if e != nil {
					r.Violation(c, "released-waiter-reports-error:release-while-busy", e.Error(), code)
					return
				}
				r.Count("waiters released by a matching request while another request was in flight", 1)
				r.Nontrivial(fmt.Sprintf("release-while-busy:%d", code))
			case <-slowDone:
				r.Violation(c, "waiter-not-released-before-an-unrelated-request-finished", fmt.Sprintf("a request with code %d arrived while another connection's relayed request was held back by the underlying agent for 1.8 s; the waiter on %d was still parked when that unrelated request completed", code, code), code)
			case <-time.After(ev.OpTimeout() + 10*time.Second):
				r.Violation(c, "waiter-not-released:release-while-busy", fmt.Sprintf("code %d", code), code)
				wedgedOnce = true
			}
			<-slowDone
		})
	}
}

// backToBack: the request a client waits for is followed at once by a request with another code (two connections served
// at the same moment, a client that pipelines). The waiter is released by the first of them, however quickly the
// second arrives. Direct mode: the two announcements are made back to back from one goroutine, 60 rounds per pair.
func backToBack(r *ev.Run) {
	for vi, pair := range [][2]byte{{11, 13}, {13, 11}, {18, 19}, {0, 39}} {
		c := r.Case("back-to-back", vi)
		if c == nil || wedgedOnce || r.NumViolations() > 8 {
			continue
		}
		r.Eval(1)
		r.Guard(c, "matching request followed at once by another", pair, func() {
			g, err := newRig(true)
			if err != nil {
				r.Count("back-to-back: rig could not be built", 1)
				return
			}
			defer g.close()
			for round := 0; round < 60; round++ {
				w, err := g.startWaiter(pair[0])
				if err != nil {
					return
				}
				if n := waitParked(1, ev.OpTimeout()); n != 1 {
					r.Violation(c, "waiter-does-not-register:back-to-back", fmt.Sprintf("code %d round %d: %d parked", pair[0], round, n), pair)
					return
				}
				g.direct.Broadcast(pair[0])
				g.direct.Broadcast(pair[1])
				select {
				case <-w.done:
				case <-time.After(ev.OpTimeout()):
					r.Violation(c, "waiter-not-released:matching-request-followed-at-once-by-another", fmt.Sprintf("round %d: a request with code %d, then at once one with code %d: the waiter on %d is still parked", round, pair[0], pair[1], pair[0]), pair)
					wedgedOnce = true
					return
				}
			}
			r.Count("waiters released by a matching request that was followed at once by another code", 60)
			r.Nontrivial(fmt.Sprintf("back-to-back:%d:%d", pair[0], pair[1]))
		})
	}
}

// oneConnectionStreams: what one connection carries besides single well-separated requests. (a) Two or three requests
// written in one piece: each of them is a request received, so a client waiting for the code of the second or third is
// released. (b) A frame whose declared length is over the limit ends that connection; the octets after its length are
// not requests (they are the inside of a frame that was refused), so a client waiting for a code is not released by
// octets that would spell a request with that code.
func oneConnectionStreams(r *ev.Run) {
	type variant struct {
		Name    string
		Wait    byte
		Stream  []byte
		Release bool
	}
	fr := func(codes ...byte) []byte {
		var b []byte
		for _, c := range codes {
			b = append(b, wire.Frame([]byte{c})...)
		}
		return b
	}
	over := func(n uint32, rest []byte) []byte {
		return append([]byte{byte(n >> 24), byte(n >> 16), byte(n >> 8), byte(n)}, rest...)
	}
	rep := func(b []byte, n int) []byte { return bytes.Repeat(b, n) }
	vs := []variant{
		{"pipelined:19,11", 11, fr(19, 11), true},
		{"pipelined:11,19", 19, fr(11, 19), true},
		{"pipelined:11,1,11,19", 19, fr(11, 1, 11, 19), true},
		{"pipelined:19,19,11", 11, fr(19, 19, 11), true},
		{"pipelined:11,11", 19, fr(11, 11), false},
		{"over-limit-then-frames", 11, over(16<<20+2, rep(fr(11), 40)), false},
		{"over-limit-then-code-then-frames", 11, over(1<<30, append([]byte{13}, rep(fr(11), 40)...)), false},
		{"over-limit-max-then-frames", 19, over(0xffffffff, rep(fr(19), 40)), false},
		{"over-limit-then-frames-two-codes", 19, over(16<<20+1, rep(fr(11, 19), 40)), false},
	}
	for vi, v := range vs {
		c := r.Case("one-connection-streams", vi)
		if c == nil || wedgedOnce || r.NumViolations() > 8 {
			continue
		}
		r.Eval(1)
		r.Guard(c, "stream on one connection", v.Name, func() {
			g, err := newRig(false)
			if err != nil {
				r.Count("one-connection-streams: rig could not be built", 1)
				return
			}
			defer g.close()
			w, err := g.startWaiter(v.Wait)
			if err != nil {
				return
			}
			defer w.conn.Close()
			if n := waitParked(1, ev.OpTimeout()); n != 1 {
				r.Violation(c, "waiter-does-not-register:one-connection-streams", fmt.Sprintf("%d parked", n), v.Name)
				return
			}
			p1, p2, err := wire.SocketPair()
			if err != nil {
				return
			}
			served := make(chan struct{})
			go func() {
				defer close(served)
				defer p2.Close()
				defer func() { recover() }()
				yubiagent.ServeAgent(g.srv, p2)
			}()
			go func() { io.Copy(io.Discard, p1) }() // replies are read and dropped
			p1.Write(v.Stream)                      // one piece
			if v.Release {
				select {
				case <-w.done:
					r.Count("waiters released by a request that arrived in one piece with others", 1)
				case <-time.After(ev.OpTimeout()):
					r.Violation(c, "waiter-not-released:request-written-in-one-piece-with-others", fmt.Sprintf("%s: the client waiting for code %d is still parked", v.Name, v.Wait), v.Name)
					wedgedOnce = true
				}
				p1.Close()
				<-served
				if !wedgedOnce {
					r.Nontrivial("one-connection-streams:" + v.Name)
				}
				return
			}
			// the sender is done: half-close, so that the service of this connection ends either way
			if uc, ok := p1.(*net.UnixConn); ok {
				uc.CloseWrite()
			} else {
				p1.Close()
			}
			select {
			case <-served:
			case <-time.After(ev.OpTimeout()):
				p1.Close()
				<-served
			}
			p1.Close()
			if w.poll() {
				r.Violation(c, "waiter-released-by-other-code:one-connection-streams", fmt.Sprintf("%s: the client waiting for code %d returned although no request with that code was received", v.Name, v.Wait), v.Name)
				return
			}
			g.poke(v.Wait)
			select {
			case <-w.done:
			case <-time.After(ev.OpTimeout()):
				r.Violation(c, "waiter-not-released:one-connection-streams", v.Name, v.Name)
				wedgedOnce = true
				return
			}
			r.Count("waiters left alone by octets that are not requests (inside of a refused frame, other codes)", 1)
			r.Nontrivial("one-connection-streams:" + v.Name)
		})
	}
}

// housekeeping: what the agent does on its own while serving a request (dropping a lapsed certificate during a
// listing) is not a request received from a client: a client waiting for the remove-identity code is not released by
// a listing that happens to clean up, and is released by a remove request afterwards.
func housekeeping(r *ev.Run) {
	c := r.Case("housekeeping", 0)
	if c == nil || wedgedOnce || r.NumViolations() > 8 {
		return
	}
	r.Eval(1)
	r.Guard(c, "listing that purges a lapsed certificate", nil, func() {
		g, err := newRig(false)
		if err != nil {
			r.Count("housekeeping: rig could not be built", 1)
			return
		}
		defer g.close()
		now := uint64(time.Now().Unix())
		for i, win := range [][2]uint64{{now - 7200, now - 3600}, {now + 3600, now + 7200}, {now - 7200, now - 60}} {
			k := gen.Pool()[i]
			g.ag.Keyring.Add(agent.AddedKey{PrivateKey: k.Priv, Certificate: gen.MakeCert(gen.CertSpec{Key: k, KeyID: "out of its window", ValidAfter: win[0], ValidBefore: win[1], Principals: []string{"u"}}), Comment: "stale"})
		}
		g.ag.Keyring.Add(agent.AddedKey{PrivateKey: gen.Pool()[5].Priv, Comment: "plain"})
		w, err := g.startWaiter(18)
		if err != nil {
			return
		}
		defer w.conn.Close()
		if n := waitParked(1, ev.OpTimeout()); n != 1 {
			r.Violation(c, "waiter-does-not-register:housekeeping", fmt.Sprintf("%d parked", n), nil)
			return
		}
		for _, code := range []byte{11, 11, 13} {
			g.poke(code)
			if w.poll() {
				r.Violation(c, "waiter-released-by-other-code:housekeeping", fmt.Sprintf("a client waiting for code 18 (remove identity) returned after a request with code %d, during which the agent purged certificates that are out of their window", code), nil)
				return
			}
		}
		left, _ := g.ag.Keyring.List()
		g.poke(18)
		select {
		case <-w.done:
		case <-time.After(ev.OpTimeout()):
			r.Violation(c, "waiter-not-released:housekeeping", "", nil)
			wedgedOnce = true
			return
		}
		r.Count(fmt.Sprintf("waiters on the remove-identity code left alone by listings that purged stale certificates (%d identities left)", len(left)), 1)
		r.Nontrivial("housekeeping")
	})
}

// stalledWaiters: some of the clients waiting for a code have stopped reading (their connections are synchronous
// pipes, so the reply to them can never be written). The healthy ones are released by the matching request all the
// same: each connection is served on its own.
func stalledWaiters(r *ev.Run) {
	for vi, code := range []byte{11, 13} {
		c := r.Case("stalled-waiters", vi)
		if c == nil || wedgedOnce || r.NumViolations() > 8 {
			continue
		}
		r.Eval(1)
		r.Guard(c, "waiters that stopped reading beside healthy ones", code, func() {
			for round := 0; round < 3; round++ {
				g, err := newRig(false)
				if err != nil {
					r.Count("stalled-waiters: rig could not be built", 1)
					return
				}
				var pipes []net.Conn
				for k := 0; k < 4; k++ {
					a1, a2 := net.Pipe()
					pipes = append(pipes, a1, a2)
					go func() { defer func() { recover() }(); yubiagent.ServeAgent(g.srv, a2) }()
					go a1.Write(wire.Frame([]byte{35, code})) // and never a Read
				}
				var healthy []*waiter
				for k := 0; k < 2; k++ {
					w, err := g.startWaiter(code)
					if err != nil {
						return
					}
					healthy = append(healthy, w)
				}
				closeAll := func() {
					for _, p := range pipes {
						p.Close()
					}
					for _, w := range healthy {
						w.conn.Close()
					}
					g.close()
				}
				if n := waitParked(6, ev.OpTimeout()); n != 6 {
					closeAll()
					r.Count("stalled-waiters: not all six waiters registered (not judged)", 1)
					return
				}
				go g.poke(code)
				for _, w := range healthy {
					select {
					case e := <-w.done:
						if e != nil {
							closeAll()
							r.Violation(c, "released-waiter-reports-error:stalled-waiters", e.Error(), code)
							return
						}
					case <-time.After(ev.OpTimeout()):
						r.Violation(c, "waiter-not-released:held-up-by-a-waiter-that-stopped-reading", fmt.Sprintf("round %d: four waiters on code %d stopped reading their connections; a matching request arrived; a healthy waiter on the same code is still waiting for its reply", round, code), code)
						closeAll()
						wedgedOnce = true
						return
					}
				}
				closeAll()
				waitParked(0, 5*time.Second)
			}
			r.Count("healthy waiters released although other waiters on the code had stopped reading", 6)
			r.Nontrivial(fmt.Sprintf("stalled-waiters:%d", code))
		})
	}
}

// worn: an agent that has already received a great many requests with the awaited code (an agent lives for days and
// every ssh connection attempt sends a listing request). The number of earlier requests crosses the 8- and 16-bit
// boundaries while waiters come and go: each waiter must ignore a non-matching request and be released by the next
// matching one, as on a fresh agent.
func worn(r *ev.Run) {
	for bi, boundary := range []int{256, 65536, 131072} {
		c := r.Case("worn", bi)
		if c == nil || wedgedOnce || r.NumViolations() > 8 {
			continue
		}
		code := byte([]int{11, 13, 0}[bi])
		g, err := newRig(true)
		if err != nil {
			r.Count("worn: rig could not be built", 1)
			continue
		}
		r.Eval(1)
		r.Guard(c, "worn-agent", boundary, func() {
			sent := 0
			for ; sent < boundary-4; sent++ {
				g.direct.Broadcast(code)
			}
			for round := 0; round < 8; round++ {
				w, err := g.startWaiter(code)
				if err != nil {
					return
				}
				if n := waitParked(1, ev.OpTimeout()); n != 1 {
					r.Violation(c, "waiter-does-not-register:worn", fmt.Sprintf("code %d after %d earlier requests with it: %d parked", code, sent, n), boundary)
					return
				}
				g.poke(code + 1)
				if w.poll() {
					r.Violation(c, "waiter-released-by-other-code:worn", fmt.Sprintf("code %d after %d earlier requests with it", code, sent), boundary)
					return
				}
				g.poke(code)
				sent++
				select {
				case e := <-w.done:
					if e != nil {
						r.Violation(c, "released-waiter-reports-error:worn", fmt.Sprintf("%v", e), boundary)
						return
					}
				case <-time.After(ev.OpTimeout()):
					r.Violation(c, "waiter-not-released:worn", fmt.Sprintf("a waiter on code %d registered after %d earlier requests with that code is not released by the next one", code, sent-1), boundary)
					wedgedOnce = true
					return
				}
				r.Count("waiters released on an agent with many earlier requests of their code", 1)
			}
			r.Nontrivial(fmt.Sprintf("worn:%d", boundary))
		})
		g.close()
	}
}

func main() {
	ev.MainIsolated("C20", "exploration", 60*time.Minute, func(r *ev.Run) {
		r.Rule("scenarios on a real remote-mode yubiagent server (waiters are real clients calling Wait on their own connections served by ServeAgent; pokes are request frames whose first byte is the code, on fresh connections) and directly on (*shimagent.Server).Wait/Broadcast: every code 0..255 as wait code; 1..8 waiters on one code and spread over 2..4 codes; pokes of matching and non-matching codes (including codes >= 40 and codes congruent modulo 40) in seeded orders, all orders for up to 3 codes; late waiters registering between two pokes; a quarter of the scenarios lock the agent first (waiting does not depend on the lock state). The goroutine table is the monitor: after each poke's reply the number of goroutines parked in sync.Cond.Wait below (*Server).Wait must equal the number of waiters on other codes, the released waiters must all return success, no other waiter may return. Race-instrumented. distinct_nontrivial = distinct scenarios that ran to the end")
		r.Assume("'eventually released' is bounded progress: the watchdog per step is VERIF_OP_TIMEOUT_S (60 s)", "a waiter is registered exactly when its goroutine is counted as parked (cond.Wait enqueues before releasing the lock that Broadcast takes)")
		// long park: waiters that nobody addresses stay parked however long it takes. Three waiters (two through
		// clients of a served agent, one directly) are parked now, on servers of their own, and looked at again when
		// everything else is done (at least longHold later): none may have returned, and one matching request each
		// then releases them.
		longHold := time.Duration(r.Pick(7, 100)) * time.Second
		longStart := time.Now()
		var longWs []*waiter
		var longRigs []*rig
		if lc := r.Case("long-park", 0); lc != nil {
			for _, spec := range []struct {
				direct bool
				code   byte
			}{{false, 11}, {false, 35}, {true, 13}} {
				g, err := newRig(spec.direct)
				if err != nil {
					continue
				}
				if w, err := g.startWaiter(spec.code); err == nil {
					if n := waitParked(1, ev.OpTimeout()); n != 1 {
						r.Violation(lc, "waiter-does-not-register:long-park", fmt.Sprintf("code %d: %d parked", spec.code, n), nil)
					}
					longRigs = append(longRigs, g)
					longWs = append(longWs, w)
					longParked.Add(1)
				}
			}
			defer func() {
				if wedgedOnce || r.NumViolations() > 0 {
					return
				}
				if d := longHold - time.Since(longStart); d > 0 {
					time.Sleep(d)
				}
				held := time.Since(longStart).Round(time.Second)
				r.Eval(1)
				for _, w := range longWs {
					if w.poll() {
						r.Violation(lc, "waiter-returns-without-matching-request:long-park", fmt.Sprintf("a waiter on code %d that no request addressed returned after at most %s (err=%v)", w.code, held, w.err), map[string]any{"code": w.code, "parked_for": held.String()})
						return
					}
				}
				n := int(longParked.Swap(0))
				if got := parked(); got != n {
					r.Violation(lc, "parked-count-drifts:long-park", fmt.Sprintf("%d goroutines parked after %s, expected the %d long-term waiters", got, held, n), nil)
					return
				}
				for i, w := range longWs {
					longRigs[i].poke(w.code)
					select {
					case e := <-w.done:
						if e != nil {
							r.Violation(lc, "released-waiter-reports-error:long-park", fmt.Sprintf("code %d after %s: %v", w.code, held, e), nil)
							return
						}
					case <-time.After(ev.OpTimeout()):
						r.Violation(lc, "waiter-not-released:long-park", fmt.Sprintf("code %d, parked for %s, not released by a request with its code", w.code, held), nil)
						return
					}
				}
				for _, g := range longRigs {
					g.close()
				}
				r.Count(fmt.Sprintf("waiters parked for the whole run (>= %s) and then released by one request", longHold), len(longWs))
				r.Nontrivial("long-park")
			}()
		}
		idx := 0
		one := func(fam string, sc scenario) {
			c := r.Case(fam, idx)
			idx++
			if c == nil || r.NumViolations() > 8 || wedgedOnce {
				return
			}
			r.Eval(1)
			r.Guard(c, "wait-scenario", sc, func() { run(r, c, sc) })
			if idx < 4 {
				r.Sample(sc)
			}
		}
		// every code as wait code, poked by itself after a non-matching poke
		for code := 0; code < 256; code++ {
			mode := []string{"served", "direct"}[code%2]
			other := (code + 1) % 40
			sc := scenario{Mode: mode, Waiters: []int{code}, Pokes: []int{other, code%40 + 40, code}}
			if code >= 40 {
				sc = scenario{Mode: mode, Waiters: []int{code % 40, code}, Pokes: []int{code, (code + 7) % 256, code % 40}}
			}
			one("everycode", sc)
		}
		// all orders for up to 3 codes
		perms := [][]int{{0, 1, 2}, {0, 2, 1}, {1, 0, 2}, {1, 2, 0}, {2, 0, 1}, {2, 1, 0}}
		sets := [][]int{{11, 13, 17}, {0, 39, 35}, {31, 32, 19}, {22, 23, 1}}
		for si, set := range sets {
			for _, pm := range perms {
				for _, mode := range []string{"served", "direct"} {
					one("perm", scenario{Mode: mode, Locked: (si+pm[0])%3 == 0, CloseAttempt: (si+pm[1])%2 == 0, Waiters: []int{set[0], set[1], set[1], set[2]}, Pokes: []int{set[pm[0]], set[pm[1]], set[pm[2]]}})
				}
			}
			_ = si
		}
		// seeded scenarios
		n := r.Pick(250, 14000)
		for i := 0; i < n; i++ {
			c := r.CaseAlways("gen", i)
			rng := c.Rand
			ncodes := 1 + rng.Intn(4)
			codes := make([]int, ncodes)
			for k := range codes {
				if rng.Intn(5) == 0 {
					codes[k] = rng.Intn(256)
				} else {
					codes[k] = rng.Intn(40)
				}
			}
			sc := scenario{Mode: []string{"served", "direct"}[rng.Intn(2)], Locked: rng.Intn(4) == 0}
			sc.CloseAttempt = sc.Locked && rng.Intn(2) == 0
			for k := 1 + rng.Intn(8); k > 0; k-- {
				sc.Waiters = append(sc.Waiters, codes[rng.Intn(ncodes)])
			}
			for k := rng.Intn(3); k > 0; k-- {
				sc.Late = append(sc.Late, codes[rng.Intn(ncodes)])
			}
			np := 2 + rng.Intn(6)
			for k := 0; k < np; k++ {
				switch rng.Intn(5) {
				case 0:
					sc.Pokes = append(sc.Pokes, rng.Intn(256))
				case 1:
					sc.Pokes = append(sc.Pokes, codes[rng.Intn(ncodes)]%40+40*(1+rng.Intn(5)))
				default:
					sc.Pokes = append(sc.Pokes, codes[rng.Intn(ncodes)])
				}
			}
			for k := range sc.Pokes {
				sc.Pokes[k] %= 256
			}
			one("gen", sc)
		}
		racing(r)
		worn(r)
		reusedConnection(r)
		releaseWhileBusy(r)
		backToBack(r)
		stalledWaiters(r)
		housekeeping(r)
		oneConnectionStreams(r)
		cs := []string{}
		_ = sort.Strings
		_ = cs
		r.Floor(int64(r.Pick(400, 8000)), int64(r.Pick(300, 6000)))
	})
}
