// C01 — certificates are requested only after proof of possession of the registered key.
package main

import (
	"bytes"
	crand "crypto/rand"
	"crypto/sha256"
	"errors"
	"fmt"
	"io"
	"math"
	mrand "math/rand"
	"os"
	"os/exec"
	"path/filepath"
	"regexp"
	"strings"
	"sync"
	"time"

	"github.com/theparanoids/crypki/proto"
	"golang.org/x/crypto/ssh"
	"golang.org/x/crypto/ssh/agent"

	agssh "github.com/theparanoids/ysshra/agent/ssh"
	"github.com/theparanoids/ysshra/csr"
	"github.com/theparanoids/ysshra/gensign"
	"github.com/theparanoids/ysshra/verifharness/lib/ev"
	"github.com/theparanoids/ysshra/verifharness/lib/gen"
	"github.com/theparanoids/ysshra/verifharness/lib/gsrig"
	"github.com/theparanoids/ysshra/verifharness/lib/wire"
)

var behaviours = []string{"honest-with-key", "honest-with-key", "honest-without-key", "other-key", "flipped-data", "empty-data", "previous-challenge", "replay-signature", "garbage-reply", "wrong-type-reply", "empty-signature", "wrong-format", "failure", "close", "truncated-signature"}
var dirStates = []string{"pub", "pub", "bare", "both-same", "both-different", "none", "unparsable", "empty-file", "other-users-key", "right-key-other-name", "other-user-dotted-name", "other-user-dotted-name", "certificate", "pub-is-directory", "symlink-to-key", "dangling-symlink", "dangling-symlink-and-bare", "unusable-pub-shadows-bare", "unusable-pub-shadows-bare"}

type runRec struct {
	Behaviour       string `json:"agent_behaviour"`
	Dir             string `json:"key_directory_state"`
	Policy          string `json:"namespace_policy"`
	HardKey         bool   `json:"hard_key"`
	IfVer           int    `json:"client_interface_version"`
	HardKeySpelling string `json:"hard_key_spelt_as,omitempty"`
	KeyType         string `json:"user_key_type"`
	LogName         string `json:"login_name"`
	NilParam        bool   `json:"nil_param,omitempty"`
	Vouching        string `json:"declared_requester_with_a_registered_key,omitempty"`
	Result          string `json:"result"`
	SignReqs        int    `json:"sign_requests_seen"`
	AddFrames       int    `json:"add_frames_seen"`
	SignerN         int    `json:"signer_calls"`
	AuthOK          bool   `json:"oracle_proof_of_possession"`
}

type chalMon struct {
	mu    sync.Mutex
	seen  map[[32]byte]bool
	bits  [512]int
	n     int
	short int
}

func (m *chalMon) add(r *ev.Run, c *ev.Case, d []byte) {
	m.mu.Lock()
	defer m.mu.Unlock()
	if len(d) < 32 {
		r.Violation(c, fmt.Sprintf("challenge-too-short:len=%d", len(d)), fmt.Sprintf("challenge %x", d), nil)
		return
	}
	h := sha256.Sum256(d)
	if m.seen[h] {
		r.Violation(c, "challenge-repeated", fmt.Sprintf("challenge %x was already used in an earlier run", d), nil)
		return
	}
	m.seen[h] = true
	if len(d) == 64 {
		m.n++
		for i := 0; i < 512; i++ {
			if d[i/8]&(1<<uint(i%8)) != 0 {
				m.bits[i]++
			}
		}
	}
}

func main() {
	ev.MainIsolated("C01", "exploration", 40*time.Minute, func(r *ev.Run) {
		r.Rule("seeded runs of gensign.Run with the real regular handler (built by NewHandler from JSON configuration) over a scripted forwarded agent. Per run: agent behaviour in {honest with the key, honest without it, signs with another key, signs the challenge with one bit flipped / empty data / the previous challenge, replays the previous run's signature, garbage reply, well-formed reply of the wrong type, empty signature blob, wrong format string, truncated signature, failure, closes the connection} x user key type {RSA, ECDSA P-256/384/521, Ed25519, sk-ssh-ed25519@openssh.com} x registered-key directory state {<name>.pub, bare <name>, both (same / different keys), none, unparsable, empty file, another user's key under this name, right key under another name only, <name>.pub unusable while a bare <name> holds the requester's key, <name>.pub a directory / a symlink to the key / a dangling symlink (with and without a bare <name>), an OpenSSH certificate over the user's key (agent holding the certificate identity and/or the issuing key)} x policy {NONS, NSOK, other} x hard-key flag; sequences of 2..6 runs on the same agent (replay / freshness); plus handler lists of 1..4 stub/real handlers with every accept/reject pattern; plus runs while the process entropy source (crypto/rand.Reader) answers in pieces of 1, 7, 32, 63 bytes or fails (the challenge is still 64 fresh bytes, resp. nobody is authenticated). Oracle from the wire log alone: a signer call or an add-identity frame requires that this run's sign request named a registered key and was answered with a signature that the harness itself verifies over exactly the challenge sent, and policy NONS without hard key. distinct_nontrivial = distinct (behaviour, directory state, policy, hard-key, key type, outcome) combinations + distinct handler-list patterns")
		r.Assume("x/crypto/ssh signature verification is the reference for 'valid signature'", "login names contain no path separator", "unpredictability is observed as length >= 32, distinctness over the whole run, per-bit balance within 6 sigma (and getrandom provenance under strace in the thorough tier)")
		gen.Pool()
		// SSH_AUTH_SOCK of the RA's own process names some agent too (the operator's, another requester's): here one that
		// holds every key of the pool and would answer any challenge. Every request of this run has a forwarded agent
		// of its own, handed to its handler as a connection: nothing may ever arrive at the bystander.
		bystander := wire.New()
		defer bystander.Close()
		if bsock, berr := bystander.Listen(); berr == nil {
			for _, k := range gen.Pool() {
				bystander.Keyring.Add(agent.AddedKey{PrivateKey: k.Priv, Comment: "bystander"})
			}
			os.Setenv("SSH_AUTH_SOCK", bsock)
			defer func() {
				if n := bystander.NumRequests(); n > 0 {
					r.Violation(r.CaseAlways("bystander", 0), "request-served-through-an-agent-other-than-the-forwarded-one", fmt.Sprintf("%d requests arrived at the agent named by the RA process's own SSH_AUTH_SOCK; every request of the run had a forwarded agent of its own", n), nil)
				} else {
					r.Count("requests that reached the agent named by the process's own SSH_AUTH_SOCK", 0)
				}
			}()
		}
		mon := &chalMon{seen: map[[32]byte]bool{}}
		nseq := r.Pick(450, 12000)
		var wg sync.WaitGroup
		// handlers that answer late under a request deadline (~4.5 s): beside everything else
		var swg sync.WaitGroup
		swg.Add(1)
		go func() { defer swg.Done(); slowHandlers(r) }()
		defer swg.Wait()
		sem := make(chan struct{}, 8)
		for i := 0; i < nseq; i++ {
			c := r.Case("seq", i)
			if c == nil {
				continue
			}
			wg.Add(1)
			sem <- struct{}{}
			go func(c *ev.Case, i int) {
				defer wg.Done()
				defer func() { <-sem }()
				r.Guard(c, "gensign sequence", nil, func() { sequence(r, c, i, mon) })
			}(c, i)
		}
		wg.Wait()
		handlerLists(r)
		authSock(r)
		reRegistration(r)
		helper(r, mon)
		entropyFaults(r, mon)
		seededPRNG(r, mon)
		// bit balance over all 64-byte challenges
		if mon.n >= 1000 {
			sigma := math.Sqrt(float64(mon.n)) / 2
			worst := 0.0
			for _, b := range mon.bits {
				d := math.Abs(float64(b)-float64(mon.n)/2) / sigma
				if d > worst {
					worst = d
				}
			}
			r.Extra("challenge_bit_balance_worst_sigma", worst)
			if worst > 6 {
				r.Violation(r.CaseAlways("balance", 0), "challenge-bits-biased", fmt.Sprintf("a challenge bit deviates %.1f sigma from 1/2 over %d challenges", worst, mon.n), nil)
			}
		}
		r.Count("distinct challenges observed", len(mon.seen))
		if r.Thorough() && r.Replay == nil {
			provenance(r)
		}
		if r.Replay == nil && r.Counter("runs provisioned after a verified proof of possession") < int64(r.Pick(40, 1000)) {
			r.Inconclusive("too few runs reached the provisioning path")
		}
		r.Floor(int64(r.Pick(1400, 38000)), 150)
	})
}

func sequence(r *ev.Run, c *ev.Case, seqNo int, mon *chalMon) {
	rng := c.Rand
	kd, err := gsrig.NewKeyDir()
	if err != nil {
		r.Inconclusive(err.Error())
		return
	}
	defer kd.Remove()
	// user keys by type
	pool := gen.Pool()
	var user, other *gen.Key
	want := []string{"rsa", "ed25519", "p256", "p384", "p521", "sk-ed25519"}[rng.Intn(6)]
	for _, k := range pool {
		if k.Name == want && user == nil {
			user = k
		}
	}
	if want == "sk-ed25519" {
		// the registered key lives on a security key: the agent's answers carry flags and a counter
		user = gen.SKPool()[rng.Intn(2)]
	}
	for {
		other = pool[rng.Intn(len(pool))]
		if other != user {
			break
		}
	}
	gc, _, err := gsrig.GensignConfig(gsrig.Conf{PubKeyDir: kd.Path, Identifiers: map[string]string{"default": "id-default", "rsa": "id-rsa"}, ValiditySec: 3600})
	if err != nil {
		r.Inconclusive("config: " + err.Error())
		return
	}
	ag := wire.New()
	defer ag.Close()
	rig, err := gsrig.NewRig(ag, gc)
	if err != nil {
		r.Violation(c, "handler-construction-fails", err.Error(), nil)
		return
	}
	defer rig.Close()
	var prevChallenge []byte
	var prevSig *ssh.Signature
	nruns := 2 + rng.Intn(5)
	seqLogin := gsrig.LogName(rng)
	var vouchFiles []string
	for run := 0; run < nruns; run++ {
		if r.NumViolations() > 10 {
			return
		}
		beh := behaviours[rng.Intn(len(behaviours))]
		dir := dirStates[rng.Intn(len(dirStates))]
		// mostly the same user comes back within a sequence (replay and freshness are about that)
		logName := seqLogin
		if rng.Intn(3) == 0 {
			logName = gsrig.LogName(rng)
		}
		rec := runRec{Behaviour: beh, Dir: dir, KeyType: user.Name, LogName: logName}
		// directory
		for _, f := range []string{logName, logName + ".pub", logName + ".doe", logName + ".pub.bak", logName + "-2.pub", "zz-target-" + logName} {
			kd.Delete(f)
		}
		registered := map[string]ssh.PublicKey{}
		var regCert *ssh.Certificate
		line := func(k *gen.Key) []byte { return gsrig.AuthorizedLine(k.Pub, "c") }
		switch dir {
		case "pub":
			kd.Write(logName+".pub", line(user))
			registered[string(user.Pub.Marshal())] = user.Pub
		case "bare":
			kd.Write(logName, line(user))
			registered[string(user.Pub.Marshal())] = user.Pub
		case "both-same":
			kd.Write(logName, line(user))
			kd.Write(logName+".pub", line(user))
			registered[string(user.Pub.Marshal())] = user.Pub
		case "both-different":
			kd.Write(logName, line(other))
			kd.Write(logName+".pub", line(user))
			registered[string(user.Pub.Marshal())] = user.Pub
			registered[string(other.Pub.Marshal())] = other.Pub
		case "none":
		case "unparsable":
			kd.Write(logName+".pub", []byte("ssh-ed25519 not-base64!! x\n"))
		case "empty-file":
			kd.Write(logName+".pub", nil)
		case "other-users-key":
			kd.Write(logName+".pub", line(other))
			registered[string(other.Pub.Marshal())] = other.Pub
		case "other-user-dotted-name":
			// files of OTHER users whose names merely start with this login name: <login>.doe, <login>.pub.bak, <login>.key
			kd.Write(logName+".doe", line(other))
			kd.Write(logName+".pub.bak", line(other))
			kd.Write(logName+"-2.pub", line(other))
		case "right-key-other-name":
			kd.Write(logName+"x.pub", line(user))
			kd.Write("x"+logName, line(user))
		case "unusable-pub-shadows-bare":
			// <name>.pub exists (so it is the registered file) but holds no usable key; a bare <name> file next to it holds
			// a key the requester has — stale, shadowed, not registered
			switch rng.Intn(4) {
			case 0:
				kd.Write(logName+".pub", []byte("ssh-ed25519 not-base64!! x\n"))
			case 1:
				kd.Write(logName+".pub", nil)
			case 2:
				kd.Write(logName+".pub", []byte("# rotated, ask the helpdesk\n"))
			default:
				os.Mkdir(filepath.Join(kd.Path, logName+".pub"), 0o700)
			}
			kd.Write(logName, line(user))
		case "pub-is-directory":
			os.Mkdir(filepath.Join(kd.Path, logName+".pub"), 0o700)
		case "symlink-to-key":
			kd.Write("zz-target-"+logName, line(user))
			os.Symlink(filepath.Join(kd.Path, "zz-target-"+logName), filepath.Join(kd.Path, logName+".pub"))
			registered[string(user.Pub.Marshal())] = user.Pub
		case "dangling-symlink":
			os.Symlink(filepath.Join(kd.Path, "zz-no-such-file"), filepath.Join(kd.Path, logName+".pub"))
		case "dangling-symlink-and-bare":
			os.Symlink(filepath.Join(kd.Path, "zz-no-such-file"), filepath.Join(kd.Path, logName+".pub"))
			kd.Write(logName, line(user))
			registered[string(user.Pub.Marshal())] = user.Pub
		case "certificate":
			// the registered file holds an OpenSSH certificate over the user's key: what is registered is that
			// certificate, and possession is possession of the key it certifies — not of the key that issued it
			regCert = gen.MakeCert(gen.CertSpec{Key: user, KeyID: "registered certificate of " + logName, ValidAfter: 0, ValidBefore: ssh.CertTimeInfinity, Principals: []string{logName}, Serial: uint64(rng.Int63())})
			kd.Write(logName+".pub", gsrig.AuthorizedLine(regCert, "c"))
			registered[string(regCert.Marshal())] = regCert
		}
		// agent content and behaviour
		ag.Keyring.RemoveAll()
		ag.SetPlan(nil)
		ag.Rec.SignHook = nil
		if beh != "honest-without-key" {
			ag.Keyring.Add(agent.AddedKey{PrivateKey: user.Priv, Comment: "user"})
		}
		ag.Keyring.Add(agent.AddedKey{PrivateKey: other.Priv, Comment: "other"})
		if regCert != nil {
			if beh != "honest-without-key" {
				ag.Keyring.Add(agent.AddedKey{PrivateKey: user.Priv, Certificate: regCert, Comment: "user certificate"})
			}
			if rng.Intn(2) == 0 {
				// whoever holds the issuing key (the CA, not the user) is not the user
				ag.Keyring.Add(agent.AddedKey{PrivateKey: gen.CA().Priv, Comment: "issuer of the registered certificate"})
			}
		}
		pc, ps := prevChallenge, prevSig
		switch beh {
		case "other-key":
			ag.Rec.SignHook = func(key ssh.PublicKey, data []byte, fl agent.SignatureFlags) (*ssh.Signature, error, bool) {
				s, e := other.Sgn.Sign(crand.Reader, data)
				return s, e, true
			}
		case "flipped-data", "empty-data", "previous-challenge":
			ag.Rec.SignHook = func(key ssh.PublicKey, data []byte, fl agent.SignatureFlags) (*ssh.Signature, error, bool) {
				d := append([]byte{}, data...)
				switch beh {
				case "flipped-data":
					if len(d) > 0 {
						d[len(d)/2] ^= 1
					}
				case "empty-data":
					d = nil
				case "previous-challenge":
					if pc != nil {
						d = pc
					} else {
						d = []byte("no previous challenge")
					}
				}
				s, e := user.Sgn.Sign(crand.Reader, d)
				return s, e, true
			}
		case "replay-signature":
			ag.Rec.SignHook = func(key ssh.PublicKey, data []byte, fl agent.SignatureFlags) (*ssh.Signature, error, bool) {
				if ps != nil {
					return ps, nil, true
				}
				s, e := user.Sgn.Sign(crand.Reader, []byte("something else"))
				return s, e, true
			}
		case "empty-signature":
			ag.Rec.SignHook = func(key ssh.PublicKey, data []byte, fl agent.SignatureFlags) (*ssh.Signature, error, bool) {
				return &ssh.Signature{Format: key.Type()}, nil, true
			}
		case "wrong-format":
			ag.Rec.SignHook = func(key ssh.PublicKey, data []byte, fl agent.SignatureFlags) (*ssh.Signature, error, bool) {
				s, e := user.Sgn.Sign(crand.Reader, data)
				if e == nil {
					s = &ssh.Signature{Format: "ssh-bogus", Blob: s.Blob}
				}
				return s, e, true
			}
		case "truncated-signature":
			ag.Rec.SignHook = func(key ssh.PublicKey, data []byte, fl agent.SignatureFlags) (*ssh.Signature, error, bool) {
				s, e := user.Sgn.Sign(crand.Reader, data)
				if e == nil && len(s.Blob) > 4 {
					s = &ssh.Signature{Format: s.Format, Blob: s.Blob[:len(s.Blob)-3]}
				}
				return s, e, true
			}
		case "garbage-reply", "failure", "close", "wrong-type-reply":
			kind := map[string]int{"garbage-reply": wire.Garbage, "failure": wire.Failure, "close": wire.Close, "wrong-type-reply": wire.WrongType}[beh]
			ag.SetPlan(func(idx int, req []byte) wire.Action {
				if len(req) > 0 && req[0] == 13 {
					return wire.Action{Kind: kind}
				}
				return wire.Action{Kind: wire.Honest}
			})
		}
		// parameters
		ps2 := gsrig.ParamSpec{LogName: logName, ReqUser: gen.Str(rng, 8), ReqHost: gen.Str(rng, 8), ClientIP: gen.IP(rng), TransID: gen.Ident(rng, 10), Policy: "NONS"}
		switch rng.Intn(8) {
		case 0:
			ps2.Policy = "NSOK"
		case 1:
			ps2.Policy = []string{"", "nons", "ANY", "NONS "}[rng.Intn(4)]
		}
		if rng.Intn(6) == 0 {
			ps2.HardKey = true
		}
		if rng.Intn(4) == 0 {
			ps2.ReqUser = logName // client claims equal to the login name
		}
		// the declared requester may be somebody whose key IS registered, and whom the agent can answer for: it is the
		// login name's registered key that counts (a generator of its own, so that the case streams above stay as they were)
		for _, f := range vouchFiles {
			kd.Delete(f)
		}
		vouchFiles = nil
		if vr := mrand.New(mrand.NewSource(r.Seed*1000003 + int64(seqNo)*131 + int64(run))); vr.Intn(3) == 0 {
			ps2.ReqUser = "vouch" + gen.Ident(vr, 5)
			k := []*gen.Key{other, user}[vr.Intn(2)]
			for _, f := range [][]string{{ps2.ReqUser + ".pub"}, {ps2.ReqUser}, {ps2.ReqUser + ".pub", ps2.ReqUser}}[vr.Intn(3)] {
				kd.Write(f, line(k))
				vouchFiles = append(vouchFiles, f)
			}
			rec.Vouching = ps2.ReqUser
			r.Count("runs whose declared requester has a registered key of its own", 1)
		}
		rec.Policy, rec.HardKey = ps2.Policy, ps2.HardKey
		param := gsrig.Param(ps2)
		if ps2.HardKey && rng.Intn(2) == 0 {
			// the same request as it arrives: a legacy line whose hardware-key flag is spelt in one of the ways that mean true
			spell := []string{"true", "1", "t", "T", "TRUE", "True"}[rng.Intn(6)]
			env := map[string]string{"SSH_ORIGINAL_COMMAND": fmt.Sprintf("IFVer=6 SSHClientVersion=8.1 req=%s@%s HardKey=%s", "u", "h", spell), "LOGNAME": logName, "SSH_CONNECTION": ps2.ClientIP + " 50000 10.0.0.1 22"}
			if np, nerr := csr.NewReqParam(func(k string) string { return env[k] }, func() []string { return []string{"gensign", "-c", "/usr/bin/gensign " + ps2.Policy + " Regular"} }); nerr == nil && np != nil {
				param = np
				rec.HardKeySpelling = spell
			}
		}
		if ps2.HardKey && rec.HardKeySpelling == "" && rng.Intn(2) == 0 {
			// the same request in the current encoding, with an extension entry that says otherwise (the extension
			// map is free-form client data; the typed attribute is the request)
			extKey := []string{"HardKey", "hardkey", "HARDKEY", "hardKey"}[rng.Intn(4)]
			extVal := []string{"false", `"0"`, `"false"`, "0", "null", `"f"`}[rng.Intn(6)]
			line := fmt.Sprintf(`{"ifVer":7,"username":"u","hostname":"h","sshClientVersion":"8.1","hardKey":true,"exts":{"%s":%s}}`, extKey, extVal)
			if rng.Intn(2) == 0 {
				// ... or with text inside a string value that looks like a request in the older format
				line = fmt.Sprintf(`{"ifVer":7,"username":"u","hostname":"%s","sshClientVersion":"8.1","hardKey":true,"exts":{"note":"%s"}}`,
					[]string{"h", "h req=u@h x", "h"}[rng.Intn(3)], []string{"IFVer=6 req=u@h SSHClientVersion=8.1 HardKey=false", " req=u@h ", "x req=a@b"}[rng.Intn(3)])
				extKey, extVal = "note", "legacy-looking text"
			}
			env := map[string]string{"SSH_ORIGINAL_COMMAND": line, "LOGNAME": logName, "SSH_CONNECTION": ps2.ClientIP + " 50000 10.0.0.1 22"}
			if np, nerr := csr.NewReqParam(func(k string) string { return env[k] }, func() []string { return []string{"gensign", "-c", "/usr/bin/gensign " + ps2.Policy + " Regular"} }); nerr == nil && np != nil && np.Attrs != nil {
				param = np
				rec.HardKeySpelling = "json+exts:" + extKey + "=" + extVal
				r.Count("hardware-key requests in the current encoding with a contradicting extension entry", 1)
			}
		}
		// the interface version is a client claim like any other: whatever it says, a hardware-key request is refused
		param.Attrs.IfVer = []int{7, 7, 6, 5, 0, -1, 1 << 30}[rng.Intn(7)]
		rec.IfVer = param.Attrs.IfVer
		if rng.Intn(40) == 0 {
			param = nil
			rec.NilParam = true
		}
		ag.ResetLog()
		signer := &gsrig.Signer{Agent: ag}
		r.Eval(1)
		runErr, escaped := gsrig.Run(param, []gensign.Handler{rig.Handler}, signer)
		if escaped != "" {
			r.Violation(c, gsrig.EscapeSig(escaped)+":"+beh, escaped, rec)
			return
		}
		rec.Result = gsrig.Kind(runErr)
		if runErr != nil {
			// give work the handler may have started in the background a moment to reach the agent: an identity
			// added after a refused run is as much a violation as one added during it
			time.Sleep(1500 * time.Microsecond)
		}
		adds, signs := ag.Rec.Snapshot()
		rec.SignReqs, rec.AddFrames, rec.SignerN = len(signs), len(adds), signer.NumCalls()
		// add frames that never reached the recorder (faulted) still count: look at the wire log
		for _, e := range ag.Events() {
			if (e.Code == 17 || e.Code == 25) && e.Kind != wire.Honest {
				rec.AddFrames++
			}
		}
		// oracle: proof of possession, decided from what the agent saw and answered
		authOK := false
		for _, s := range signs {
			mon.add(r, c, s.Data)
			pk, isReg := registered[string(s.KeyBlob)]
			if isReg && s.OK && s.Sig != nil && pk.Verify(s.Data, s.Sig) == nil {
				authOK = true
			}
			prevChallenge = s.Data
		}
		if beh == "honest-with-key" && len(signs) > 0 && signs[len(signs)-1].Sig != nil {
			prevSig = signs[len(signs)-1].Sig
		}
		// frame-level faults: the handler never received the signature
		if beh == "garbage-reply" || beh == "failure" || beh == "close" || beh == "wrong-type-reply" {
			authOK = false
		}
		rec.AuthOK = authOK
		policyOK := ps2.Policy == "NONS" && !ps2.HardKey && param != nil
		if (rec.SignerN > 0 || rec.AddFrames > 0) && !(authOK && policyOK) {
			what := "proof-of-possession"
			if authOK {
				what = "policy"
			}
			r.Violation(c, fmt.Sprintf("provisioning-without-%s:%s:%s", what, beh, dir), fmt.Sprintf("signer calls=%d, add frames=%d although authOK=%v policyOK=%v; result=%q", rec.SignerN, rec.AddFrames, authOK, policyOK, rec.Result), rec)
			return
		}
		if !(authOK && policyOK) {
			if rec.Result != "all-auth-failed" && !(beh == "wrong-type-reply" && rec.Result == "panic") {
				r.Violation(c, fmt.Sprintf("unauthenticated-run-not-reported-as-all-auth-failed:%s:%s", beh, dir), fmt.Sprintf("result=%q err=%v", rec.Result, runErr), rec)
				return
			}
			r.Count("runs refused ("+beh+")", 1)
		} else {
			if runErr != nil || rec.SignerN != 1 {
				// the property is one-directional ("only if"): a refused run is not a violation; it is counted, and
				// the floor on provisioned runs below keeps the check from passing without ever reaching the success path
				r.Count("authenticated runs that were refused or failed anyway (not a violation)", 1)
				continue
			}
			r.Count("runs provisioned after a verified proof of possession", 1)
			r.Count("runs provisioned, registered key of type "+user.Pub.Type(), 1)
		}
		r.Nontrivial(fmt.Sprintf("%s|%s|%s|%v|%s|%s", beh, dir, ps2.Policy, ps2.HardKey, user.Name, rec.Result))
		if seqNo < 2 && run < 3 {
			r.Sample(rec)
		}
		if beh == "close" {
			// the forwarded connection is gone: rebuild the handler for the following runs
			rig.Close()
			rig, err = gsrig.NewRig(ag, gc)
			if err != nil {
				return
			}
		}
	}
}

// helper drives the exported proof-of-possession helper agent/ssh.ChallengeSSHAgent with the same agent behaviours:
// it may return nil only if the agent answered a fresh challenge with a signature that verifies under the given key.
func helper(r *ev.Run, mon *chalMon) {
	if !r.Want("helper") {
		return
	}
	n := r.Pick(200, 4000)
	for i := 0; i < n; i++ {
		c := r.Case("helper", i)
		if c == nil {
			continue
		}
		rng := c.Rand
		pool := gen.Pool()
		user, other := pool[rng.Intn(len(pool))], pool[rng.Intn(len(pool))]
		if user == other {
			continue
		}
		beh := []string{"honest-with-key", "honest-without-key", "other-key", "flipped-data", "empty-signature", "wrong-format", "garbage-reply", "failure", "close", "wrong-type-reply"}[rng.Intn(10)]
		r.Guard(c, "ChallengeSSHAgent", beh, func() {
			ag := wire.New()
			defer ag.Close()
			if beh != "honest-without-key" {
				ag.Keyring.Add(agent.AddedKey{PrivateKey: user.Priv})
			}
			switch beh {
			case "other-key":
				ag.Rec.SignHook = func(key ssh.PublicKey, data []byte, fl agent.SignatureFlags) (*ssh.Signature, error, bool) {
					s, e := other.Sgn.Sign(crand.Reader, data)
					return s, e, true
				}
			case "flipped-data":
				ag.Rec.SignHook = func(key ssh.PublicKey, data []byte, fl agent.SignatureFlags) (*ssh.Signature, error, bool) {
					d := append([]byte{}, data...)
					if len(d) > 0 {
						d[0] ^= 0x80
					}
					s, e := user.Sgn.Sign(crand.Reader, d)
					return s, e, true
				}
			case "empty-signature":
				ag.Rec.SignHook = func(key ssh.PublicKey, data []byte, fl agent.SignatureFlags) (*ssh.Signature, error, bool) {
					return &ssh.Signature{Format: key.Type()}, nil, true
				}
			case "wrong-format":
				ag.Rec.SignHook = func(key ssh.PublicKey, data []byte, fl agent.SignatureFlags) (*ssh.Signature, error, bool) {
					s, e := user.Sgn.Sign(crand.Reader, data)
					if e == nil {
						s = &ssh.Signature{Format: "ssh-bogus", Blob: s.Blob}
					}
					return s, e, true
				}
			case "garbage-reply", "failure", "close", "wrong-type-reply":
				kind := map[string]int{"garbage-reply": wire.Garbage, "failure": wire.Failure, "close": wire.Close, "wrong-type-reply": wire.WrongType}[beh]
				ag.SetPlan(func(int, []byte) wire.Action { return wire.Action{Kind: kind} })
			}
			conn, err := ag.Pair()
			if err != nil {
				return
			}
			defer conn.Close()
			r.Eval(1)
			var herr error
			func() {
				defer func() {
					if p := recover(); p != nil {
						herr = fmt.Errorf("panicked: %v", p) // the agent client library panics on a wrong-type reply; callers run under gensign.Run's recover
					}
				}()
				herr = agssh.ChallengeSSHAgent(agent.NewClient(conn), user.Pub)
			}()
			_, signs := ag.Rec.Snapshot()
			ok := false
			for _, s := range signs {
				mon.add(r, c, s.Data)
				if string(s.KeyBlob) == string(user.Pub.Marshal()) && s.OK && s.Sig != nil && user.Pub.Verify(s.Data, s.Sig) == nil {
					ok = true
				}
			}
			if beh == "garbage-reply" || beh == "failure" || beh == "close" || beh == "wrong-type-reply" {
				ok = false
			}
			if herr == nil && !ok {
				r.Violation(c, "challenge-helper-accepts-without-proof:"+beh, "ChallengeSSHAgent returned nil although the agent did not produce a valid signature over the challenge under the given key", beh)
				return
			}
			if herr != nil && ok {
				r.Violation(c, "challenge-helper-rejects-valid-proof", herr.Error(), beh)
				return
			}
			r.Count("challenge helper outcomes matching the oracle ("+beh+")", 1)
			r.Nontrivial("helper:" + beh + ":" + user.Name)
		})
	}
}

// ---- faults of the entropy source ------------------------------------------------

// faultyEntropy stands in for crypto/rand.Reader: it hands out at most max bytes per Read (a short read without an
// error is legal for an io.Reader), or fails.
type faultyEntropy struct {
	inner io.Reader
	max   int
	fail  bool
}

func (f *faultyEntropy) Read(p []byte) (int, error) {
	if f.fail {
		return 0, errors.New("scripted entropy failure")
	}
	if len(p) > f.max {
		p = p[:f.max]
	}
	return f.inner.Read(p)
}

// entropyFaults: with an entropy source that answers in short pieces the challenge is still 64 fresh random bytes
// (not a prefix followed by zeros); with one that fails, nobody is authenticated. Runs alone (the source is process-wide).
func entropyFaults(r *ev.Run, mon *chalMon) {
	if !r.Want("entropy") {
		return
	}
	orig := crand.Reader
	defer func() { crand.Reader = orig }()
	user := gen.Pool()[0]
	for ci, f := range []*faultyEntropy{{inner: orig, max: 1}, {inner: orig, max: 7}, {inner: orig, max: 32}, {inner: orig, max: 63}, {inner: orig, fail: true}} {
		c := r.Case("entropy", ci)
		if c == nil {
			continue
		}
		rec := map[string]any{"bytes_per_read": f.max, "fails": f.fail}
		r.Eval(1)
		r.Guard(c, "entropy fault", rec, func() {
			kd, _ := gsrig.NewKeyDir()
			defer kd.Remove()
			kd.Write("alice.pub", gsrig.AuthorizedLine(user.Pub, ""))
			gc, _, err := gsrig.GensignConfig(gsrig.Conf{PubKeyDir: kd.Path, Identifiers: map[string]string{"default": "d"}, ValiditySec: 60})
			if err != nil {
				r.Inconclusive(err.Error())
				return
			}
			ag := wire.New()
			defer ag.Close()
			ag.Keyring.Add(agent.AddedKey{PrivateKey: user.Priv})
			rig, err := gsrig.NewRig(ag, gc)
			if err != nil {
				r.Inconclusive(err.Error())
				return
			}
			defer rig.Close()
			for run := 0; run < 3; run++ {
				ag.ResetLog()
				signer := &gsrig.Signer{Agent: ag}
				crand.Reader = f
				runErr, escaped := gsrig.Run(gsrig.Param(gsrig.ParamSpec{LogName: "alice", ReqUser: "u", ReqHost: "h", ClientIP: "1.2.3.4", TransID: gen.Ident(c.Rand, 10), Policy: "NONS"}), []gensign.Handler{rig.Handler}, signer)
				crand.Reader = orig
				if escaped != "" {
					r.Violation(c, gsrig.EscapeSig(escaped)+":entropy-fault", escaped, rec)
					return
				}
				adds, signs := ag.Rec.Snapshot()
				if f.fail {
					if runErr == nil || signer.NumCalls() > 0 || len(adds) > 0 {
						r.Violation(c, "provisioning-without-fresh-challenge:entropy-source-fails", fmt.Sprintf("err=%v signer calls=%d adds=%d sign requests=%d", runErr, signer.NumCalls(), len(adds), len(signs)), rec)
						return
					}
					continue
				}
				for _, s := range signs {
					mon.add(r, c, s.Data)
					zeros := 0
					for i := len(s.Data) - 1; i >= 0 && s.Data[i] == 0; i-- {
						zeros++
					}
					if zeros >= 16 {
						r.Violation(c, fmt.Sprintf("challenge-not-filled-under-short-reads:max=%d", f.max), fmt.Sprintf("challenge %x ends in %d zero bytes: only the first read of the entropy source was used", s.Data, zeros), rec)
						return
					}
				}
			}
			r.Count("runs under a faulty entropy source judged", 3)
			r.Nontrivial(fmt.Sprintf("entropy:%d:%v", f.max, f.fail))
		})
	}
}

// seededPRNG: the challenge does not come from the process's seedable general-purpose generator: seeding math/rand
// with the same value before two runs (as any unrelated code in the process may do) must not make their challenges equal.
func seededPRNG(r *ev.Run, mon *chalMon) {
	c := r.Case("seeded-prng", 0)
	if c == nil {
		return
	}
	user := gen.Pool()[0]
	r.Eval(1)
	r.Guard(c, "seeded global PRNG", nil, func() {
		kd, _ := gsrig.NewKeyDir()
		defer kd.Remove()
		kd.Write("alice.pub", gsrig.AuthorizedLine(user.Pub, ""))
		gc, _, err := gsrig.GensignConfig(gsrig.Conf{PubKeyDir: kd.Path, Identifiers: map[string]string{"default": "d"}, ValiditySec: 60})
		if err != nil {
			r.Inconclusive(err.Error())
			return
		}
		ag := wire.New()
		defer ag.Close()
		ag.Keyring.Add(agent.AddedKey{PrivateKey: user.Priv})
		rig, err := gsrig.NewRig(ag, gc)
		if err != nil {
			r.Inconclusive(err.Error())
			return
		}
		defer rig.Close()
		var chal [][]byte
		for run := 0; run < 2; run++ {
			ag.ResetLog()
			mrand.Seed(20260928) //nolint:staticcheck // deliberately the deprecated process-wide seeding
			gsrig.Run(gsrig.Param(gsrig.ParamSpec{LogName: "alice", ReqUser: "u", ReqHost: "h", ClientIP: "1.2.3.4", TransID: gen.Ident(c.Rand, 10), Policy: "NONS"}), []gensign.Handler{rig.Handler}, &gsrig.Signer{Agent: ag})
			_, signs := ag.Rec.Snapshot()
			if len(signs) == 0 {
				r.Count("seeded-prng: no challenge observed (not judged)", 1)
				return
			}
			chal = append(chal, signs[0].Data)
		}
		if bytes.Equal(chal[0], chal[1]) {
			r.Violation(c, "challenge-determined-by-global-prng-seed", fmt.Sprintf("after math/rand.Seed(20260928) two runs were sent the same challenge %x", chal[0]), nil)
			return
		}
		r.Count("challenges independent of the math/rand seed", 2)
		r.Nontrivial("seeded-prng")
	})
}

// ---- handler lists -----------------------------------------------------------

type stubHandler struct {
	name      string
	alias     string
	accept    bool
	panics    bool
	genFails  int // 0 no, 1 typed error, 2 plain error, 3 no keys and no error (nil), 4 no keys and no error (empty slice)
	authCalls int
	genCalls  int
	log       *[]string
}

func (s *stubHandler) Name() string {
	if s.alias != "" {
		return s.alias // several configured handlers may well carry one name; they are told apart by position
	}
	return s.name
}
func (s *stubHandler) Authenticate(*csr.ReqParam) error {
	s.authCalls++
	*s.log = append(*s.log, "auth:"+s.name)
	if s.panics {
		panic("scripted panic in Authenticate")
	}
	if s.accept {
		return nil
	}
	// every way of saying no: plain, wrapped, and each of the RA's own error kinds (a handler that is switched off,
	// misconfigured, given bad parameters, ... has not authenticated anybody either)
	switch s.authCalls % 12 {
	case 9:
		return gensign.NewErrorWithMsg(gensign.Unknown, s.name, "a failure the handler cannot classify")
	case 10:
		return gensign.NewErrorWithMsg(gensign.ErrorType(0), s.name, "a zero error kind")
	case 11:
		return gensign.NewErr(gensign.ErrorType(200), errors.New("an error kind of a newer release"))
	case 1:
		return errors.New("scripted rejection (plain error)")
	case 2:
		return fmt.Errorf("wrapped: %w", gensign.NewErrorWithMsg(gensign.HandlerAuthN, s.name, "scripted rejection"))
	case 3:
		return gensign.NewErrorWithMsg(gensign.HandlerDisabled, s.name, "switched off")
	case 4:
		return gensign.NewErrorWithMsg(gensign.HandlerConfErr, s.name, "misconfigured")
	case 5:
		return gensign.NewErrorWithMsg(gensign.InvalidParams, s.name, "bad parameters")
	case 6:
		return gensign.NewErr(gensign.Panic, errors.New("a handler reporting a panic of its own"))
	case 7:
		return gensign.NewErr(gensign.AllAuthFailed, errors.New(""))
	}
	return gensign.NewErrorWithMsg(gensign.HandlerAuthN, s.name, "scripted rejection")
}
func (s *stubHandler) Generate(*csr.ReqParam) ([]csr.AgentKey, error) {
	s.genCalls++
	*s.log = append(*s.log, "generate:"+s.name)
	switch s.genFails {
	case 1:
		return nil, gensign.NewErrorWithMsg(gensign.HandlerGenCSRErr, s.name, "scripted generation failure")
	case 2:
		return nil, errors.New("scripted generation failure (plain error)")
	case 3:
		return nil, nil
	case 4:
		return []csr.AgentKey{}, nil
	}
	return []csr.AgentKey{&stubKey{owner: s.name, log: s.log}}, nil
}

type stubKey struct {
	owner string
	log   *[]string
}

func (k *stubKey) CSRs() []*proto.SSHCertificateSigningRequest {
	return []*proto.SSHCertificateSigningRequest{{KeyId: "from:" + k.owner, PublicKey: string(ssh.MarshalAuthorizedKey(gen.Pool()[1].Pub)), Validity: 60}}
}
func (k *stubKey) AddCertsToAgent([]ssh.PublicKey, []string) error {
	*k.log = append(*k.log, "deliver:"+k.owner)
	return nil
}

func handlerLists(r *ev.Run) {
	if !r.Want("handlers") {
		return
	}
	idx := 0
	for n := 0; n <= 4; n++ {
		for pat := 0; pat < 1<<uint(n); pat++ {
			for realPos := -1; realPos < n; realPos++ {
				for _, realOK := range []bool{true, false} {
					if realPos < 0 && !realOK {
						continue
					}
					c := r.Case("handlers", idx)
					idx++
					if c == nil {
						continue
					}
					r.Eval(1)
					r.Guard(c, "handler list", nil, func() { oneList(r, c, n, pat, realPos, realOK, idx) })
				}
			}
		}
	}
	// a handler whose Authenticate panics has not authenticated anybody: nothing may be generated or signed
	for n := 1; n <= 3; n++ {
		for pos := 0; pos < n; pos++ {
			c := r.Case("handlers-panic", idx)
			idx++
			if c == nil {
				continue
			}
			r.Eval(1)
			r.Guard(c, "handler list with a panicking handler", nil, func() {
				var log []string
				var hs []gensign.Handler
				var stubs []*stubHandler
				for i := 0; i < n; i++ {
					s := &stubHandler{name: fmt.Sprintf("stub%d", i), accept: i > pos, panics: i == pos, log: &log}
					stubs = append(stubs, s)
					hs = append(hs, s)
				}
				signer := &gsrig.Signer{}
				err, escaped := gsrig.Run(gsrig.Param(gsrig.ParamSpec{LogName: "alice", ReqUser: "u", ReqHost: "h", ClientIP: "1.2.3.4", TransID: "0123456789", Policy: "NONS"}), hs, signer)
				rec := map[string]any{"handlers": n, "panicking_position": pos, "log": log}
				if escaped != "" {
					r.Violation(c, gsrig.EscapeSig(escaped)+":handler-list", escaped, rec)
					return
				}
				gens := 0
				for _, s := range stubs[:pos+1] {
					gens += s.genCalls
				}
				if stubs[pos].genCalls > 0 || (err == nil && gens > 0) {
					r.Violation(c, "panicking-handler-treated-as-authenticated", fmt.Sprintf("err=%v log=%v", err, log), rec)
					return
				}
				if err == nil && signer.NumCalls() > 0 && pos == n-1 {
					r.Violation(c, "signing-after-authentication-panic", fmt.Sprintf("log=%v", log), rec)
					return
				}
				r.Count("handler lists with a panicking handler judged", 1)
				r.Nontrivial(fmt.Sprintf("panic-handler:%d:%d", n, pos))
			})
		}
	}
	// the first handler that authenticates fails to generate: the run fails; no later
	// handler's request may be generated, signed or delivered in its place
	for n := 1; n <= 4; n++ {
		for pos := 0; pos < n; pos++ {
			for pat := 0; pat < 1<<uint(n-pos-1); pat++ {
				for mode := 1; mode <= 4; mode++ {
					c := r.Case("handlers-genfail", idx)
					idx++
					if c == nil {
						continue
					}
					r.Eval(1)
					r.Guard(c, "handler list whose first accepting handler fails to generate", nil, func() {
						var log []string
						var hs []gensign.Handler
						var stubs []*stubHandler
						for i := 0; i < n; i++ {
							s := &stubHandler{name: fmt.Sprintf("stub%d", i), log: &log, authCalls: (mode + i) % 12}
							switch {
							case i == pos:
								s.accept, s.genFails = true, mode
							case i > pos:
								s.accept = pat&(1<<uint(i-pos-1)) != 0
							}
							stubs = append(stubs, s)
							hs = append(hs, s)
						}
						signer := &gsrig.Signer{}
						err, escaped := gsrig.Run(gsrig.Param(gsrig.ParamSpec{LogName: "alice", ReqUser: "u", ReqHost: "h", ClientIP: "1.2.3.4", TransID: "0123456789", Policy: "NONS"}), hs, signer)
						rec := map[string]any{"handlers": n, "first_accepting_position": pos, "generate_failure_mode": mode, "later_accept_pattern": fmt.Sprintf("%b", pat), "log": log}
						if escaped != "" {
							r.Violation(c, gsrig.EscapeSig(escaped)+":handler-list", escaped, rec)
							return
						}
						for i, s := range stubs {
							if i != pos && s.genCalls > 0 {
								r.Violation(c, "request-generated-by-a-handler-other-than-the-first-accepting-one", fmt.Sprintf("first accepting handler stub%d failed to generate; %s generated; err=%v log=%v", pos, s.name, err, log), rec)
								return
							}
						}
						if signer.NumCalls() > 0 {
							r.Violation(c, "signing-although-first-accepting-handler-generated-nothing", fmt.Sprintf("signer calls=%d err=%v log=%v", signer.NumCalls(), err, log), rec)
							return
						}
						if err == nil {
							r.Violation(c, "run-succeeds-although-first-accepting-handler-generated-nothing", fmt.Sprintf("log=%v", log), rec)
							return
						}
						r.Count("handler lists with a failing Generate judged", 1)
						r.Nontrivial(fmt.Sprintf("genfail-handler:%d:%d:%b:%d", n, pos, pat, mode))
					})
				}
			}
		}
	}
	// one handler list serves request after request: which handler accepts differs per request, the order in which
	// they are asked does not. Per list a sequence of four requests with their own accept patterns.
	for n := 2; n <= 4; n++ {
		for v := 0; v < 6; v++ {
			c := r.Case("handlers-reused", idx)
			idx++
			if c == nil {
				continue
			}
			r.Eval(1)
			r.Guard(c, "handler list reused across requests", nil, func() {
				var log []string
				var hs []gensign.Handler
				var stubs []*stubHandler
				for i := 0; i < n; i++ {
					s := &stubHandler{name: fmt.Sprintf("stub%d", i), log: &log}
					stubs = append(stubs, s)
					hs = append(hs, s)
				}
				var pats []int
				for q := 0; q < 4; q++ {
					// the first request is accepted by a late handler only, later ones by several
					pat := 1 << uint(n-1)
					if q > 0 {
						pat = c.Rand.Intn(1<<uint(n)-1) + 1
						if q == 1+v%3 {
							pat = 1<<uint(n) - 1
						}
					}
					pats = append(pats, pat)
					first := ""
					for i, st := range stubs {
						st.accept = pat&(1<<uint(i)) != 0
						st.genCalls = 0
						if st.accept && first == "" {
							first = st.name
						}
					}
					signer := &gsrig.Signer{}
					err, escaped := gsrig.Run(gsrig.Param(gsrig.ParamSpec{LogName: "alice", ReqUser: "u", ReqHost: "h", ClientIP: "1.2.3.4", TransID: fmt.Sprintf("%010d", q), Policy: "NONS"}), hs, signer)
					rec := map[string]any{"handlers": n, "accept_patterns_so_far": pats, "log": log}
					if escaped != "" {
						r.Violation(c, gsrig.EscapeSig(escaped)+":handler-list-reused", escaped, rec)
						return
					}
					for _, st := range stubs {
						if (st.genCalls > 0) != (st.name == first) {
							r.Violation(c, "request-not-produced-by-first-accepting-handler:reused-list", fmt.Sprintf("request %d of the list (accept pattern %0*b, earlier patterns %v): first accepting handler in configured order is %s, %s generated %d times; err=%v", q, n, pat, pats[:q], first, st.name, st.genCalls, err), rec)
							return
						}
					}
				}
				r.Count("handler lists reused for four requests judged", 1)
				r.Nontrivial(fmt.Sprintf("reused:%d:%v", n, pats))
			})
		}
	}
	r.Extra("handler_list_patterns", idx)
}

func oneList(r *ev.Run, c *ev.Case, n, pat, realPos int, realOK bool, variant int) {
	var log []string
	var hs []gensign.Handler
	var stubs []*stubHandler
	kd, _ := gsrig.NewKeyDir()
	defer kd.Remove()
	user := gen.Pool()[0]
	ag := wire.New()
	defer ag.Close()
	if realOK {
		ag.Keyring.Add(agent.AddedKey{PrivateKey: user.Priv})
	}
	kd.Write("alice.pub", gsrig.AuthorizedLine(user.Pub, ""))
	gc, _, _ := gsrig.GensignConfig(gsrig.Conf{PubKeyDir: kd.Path, Identifiers: map[string]string{"default": "d"}, ValiditySec: 60})
	var rig *gsrig.Rig
	firstAccept := ""
	for i := 0; i < n; i++ {
		if i == realPos {
			var err error
			rig, err = gsrig.NewRig(ag, gc)
			if err != nil {
				r.Violation(c, "handler-construction-fails", err.Error(), nil)
				return
			}
			defer rig.Close()
			hs = append(hs, rig.Handler)
			if realOK && firstAccept == "" {
				firstAccept = "real"
			}
			continue
		}
		s := &stubHandler{name: fmt.Sprintf("stub%d", i), accept: pat&(1<<uint(i)) != 0, log: &log, authCalls: (variant + i) % 12}
		if variant%4 == 3 {
			s.alias = "Regular" // the name of the real handler, too
		}
		stubs = append(stubs, s)
		hs = append(hs, s)
		if s.accept && firstAccept == "" {
			firstAccept = s.name
		}
	}
	signer := &gsrig.Signer{Agent: ag}
	rec := map[string]any{"handlers": n, "accept_pattern": fmt.Sprintf("%0*b", n, pat), "real_handler_position": realPos, "real_handler_accepts": realOK, "first_accepting": firstAccept}
	param := gsrig.Param(gsrig.ParamSpec{LogName: "alice", ReqUser: "u", ReqHost: "h", ClientIP: "1.2.3.4", TransID: "0123456789", Policy: "NONS"})
	// the keyword the client's command line named: the name of some handler of the list — often a LATER one than the
	// first that accepts — or of none. The order is the configured order all the same.
	if len(hs) > 0 {
		switch variant % 3 {
		case 0:
			param.HandlerName = hs[len(hs)-1].Name()
		case 1:
			param.HandlerName = hs[variant%len(hs)].Name()
		}
		rec["handler_keyword"] = param.HandlerName
	}
	err, escaped := gsrig.Run(param, hs, signer)
	if escaped != "" {
		r.Violation(c, gsrig.EscapeSig(escaped)+":handler-list", escaped, rec)
		return
	}
	rec["log"] = log
	gens := 0
	genBy := ""
	for _, s := range stubs {
		gens += s.genCalls
		if s.genCalls > 0 {
			genBy = s.name
		}
	}
	realGenerated := false
	if adds, _ := ag.Rec.Snapshot(); len(adds) > 0 {
		realGenerated = true
		gens++
		genBy = "real"
	}
	sig := fmt.Sprintf("n=%d:first=%s", n, firstAccept)
	switch {
	case firstAccept == "":
		if gsrig.Kind(err) != "all-auth-failed" {
			r.Violation(c, "no-handler-accepts-but-not-all-auth-failed:"+sig, fmt.Sprintf("err=%v", err), rec)
			return
		}
		if gens != 0 || signer.NumCalls() != 0 {
			r.Violation(c, "generation-or-signing-without-authentication:"+sig, fmt.Sprintf("generate calls=%d signer calls=%d", gens, signer.NumCalls()), rec)
			return
		}
	default:
		if gens != 1 || genBy != firstAccept {
			r.Violation(c, "request-not-produced-by-first-accepting-handler:"+sig, fmt.Sprintf("generate calls=%d by %q, first accepting handler is %q; log=%v realGenerated=%v", gens, genBy, firstAccept, log, realGenerated), rec)
			return
		}
		if err != nil {
			r.Violation(c, "run-fails-although-a-handler-accepted:"+sig, err.Error(), rec)
			return
		}
		// the CSR that reached the signer is the first accepting handler's
		if firstAccept != "real" {
			for _, cl := range signer.Calls {
				if cl.Req.KeyId != "from:"+firstAccept {
					r.Violation(c, "signed-request-from-another-handler:"+sig, cl.Req.KeyId, rec)
					return
				}
			}
		}
	}
	r.Nontrivial(fmt.Sprintf("handlers:%d:%b:%d:%v", n, pat, realPos, realOK))
	r.Count("handler lists judged", 1)
}

// ---- getrandom provenance under strace (thorough) ------------------------------

// a getrandom(2) result in strace's output: on one line, or — when another thread's system call was
// printed in between — on the "<... getrandom resumed>" line that completes an "<unfinished ...>" one
var grRE = regexp.MustCompile(`(?:getrandom\(|getrandom resumed>)"((?:\\x[0-9a-f]{2})+)"`)

func provenance(r *ev.Run) {
	c := r.CaseAlways("strace", 0)
	if _, err := exec.LookPath("strace"); err != nil {
		r.Count("strace provenance: strace not available (sub-check inconclusive)", 1)
		return
	}
	dir, _ := os.MkdirTemp("", "st")
	defer os.RemoveAll(dir)
	out := filepath.Join(dir, "challenges")
	trace := filepath.Join(dir, "trace")
	cmd := exec.Command("strace", "-f", "-e", "trace=getrandom", "-xx", "-s", "4096", "-o", trace, os.Args[0], "-tier", "quick", "-seed", fmt.Sprint(r.Seed), "-no-evidence")
	cmd.Env = append(os.Environ(), "VERIF_C01_DUMP_CHALLENGES="+out, "VERIF_C01_RUNS=50")
	if err := cmd.Run(); err != nil {
		r.Count("strace provenance: child failed (sub-check inconclusive)", 1)
		return
	}
	tb, _ := os.ReadFile(trace)
	bufs := map[string]bool{}
	for _, m := range grRE.FindAllStringSubmatch(string(tb), -1) {
		bufs[strings.ReplaceAll(m[1], `\x`, "")] = true
	}
	cb, _ := os.ReadFile(out)
	lines := strings.Fields(string(cb))
	if len(bufs) == 0 || len(lines) == 0 {
		r.Count("strace provenance: no getrandom calls traced (sub-check inconclusive)", 1)
		return
	}
	miss := 0
	for _, l := range lines {
		found := false
		for b := range bufs {
			if strings.Contains(b, l) {
				found = true
				break
			}
		}
		if !found {
			miss++
		}
	}
	r.Count("strace provenance: challenges traced to a getrandom buffer", len(lines)-miss)
	// every traced call must have been understood before a missing challenge means anything
	calls := strings.Count(string(tb), "getrandom(") + strings.Count(string(tb), "getrandom resumed>") - strings.Count(string(tb), "getrandom( <unfinished") - strings.Count(string(tb), "getrandom(<unfinished")
	if miss > 0 && len(grRE.FindAllStringIndex(string(tb), -1)) < calls {
		r.Count("strace provenance: trace not fully parsed (sub-check inconclusive)", 1)
		return
	}
	if miss > 0 {
		r.Violation(c, "challenge-not-from-getrandom", fmt.Sprintf("%d of %d challenges do not appear in any getrandom(2) result of the process", miss, len(lines)), nil)
	}
}

func init() {
	// child mode for the strace monitor: run a few honest sequences and dump the challenges seen
	if p := os.Getenv("VERIF_C01_DUMP_CHALLENGES"); p != "" {
		ev.Quiet()
		gen.Pool()
		var sb bytes.Buffer
		kd, _ := gsrig.NewKeyDir()
		user := gen.Pool()[0]
		kd.Write("alice.pub", gsrig.AuthorizedLine(user.Pub, ""))
		gc, _, _ := gsrig.GensignConfig(gsrig.Conf{PubKeyDir: kd.Path, Identifiers: map[string]string{"default": "d"}, ValiditySec: 60})
		ag := wire.New()
		ag.Keyring.Add(agent.AddedKey{PrivateKey: user.Priv})
		rig, err := gsrig.NewRig(ag, gc)
		if err == nil {
			for i := 0; i < 50; i++ {
				ag.ResetLog()
				gsrig.Run(gsrig.Param(gsrig.ParamSpec{LogName: "alice", ReqUser: "u", ReqHost: "h", ClientIP: "1.2.3.4", TransID: "0123456789", Policy: "NONS"}), []gensign.Handler{rig.Handler}, &gsrig.Signer{Agent: ag})
				_, signs := ag.Rec.Snapshot()
				for _, s := range signs {
					fmt.Fprintf(&sb, "%x\n", s.Data)
				}
			}
		}
		os.WriteFile(p, sb.Bytes(), 0o644)
		kd.Remove()
		os.Exit(0)
	}
}
