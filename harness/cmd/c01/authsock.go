package main

import (
	"fmt"
	"net"
	"os"
	"path/filepath"
	"sort"
	"time"

	"golang.org/x/crypto/ssh/agent"

	agssh "github.com/theparanoids/ysshra/agent/ssh"
	"github.com/theparanoids/ysshra/gensign"
	"github.com/theparanoids/ysshra/verifharness/lib/ev"
	"github.com/theparanoids/ysshra/verifharness/lib/gen"
	"github.com/theparanoids/ysshra/verifharness/lib/gsrig"
	"github.com/theparanoids/ysshra/verifharness/lib/wire"
)

// authSock: the requester's forwarded agent is the one SSH_AUTH_SOCK names when the request is served. A sequence of
// requests in one process, each with a forwarded agent of its own (with or without the registered key), reached the way
// the command-line tool reaches it (agssh.AgentConn): the challenge of request i arrives at agent i, and only a request
// whose own agent holds the key is provisioned — into that agent. Earlier connections stay open (a requester may
// still be connected). Runs strictly one after the other: the environment is process-wide.
func authSock(r *ev.Run) {
	if !r.Want("auth-sock") {
		return
	}
	old, had := os.LookupEnv("SSH_AUTH_SOCK")
	defer func() {
		if had {
			os.Setenv("SSH_AUTH_SOCK", old)
		} else {
			os.Unsetenv("SSH_AUTH_SOCK")
		}
	}()
	for si, pattern := range [][]bool{{true, false, true, false}, {false, true, false}, {true, true, false, false, true}} {
		c := r.Case("auth-sock", si)
		if c == nil {
			continue
		}
		r.Eval(1)
		r.Guard(c, "requests with forwarded agents of their own", pattern, func() {
			kd, err := gsrig.NewKeyDir()
			if err != nil {
				r.Inconclusive(err.Error())
				return
			}
			defer kd.Remove()
			user := gen.Pool()[(si*5)%len(gen.Pool())]
			kd.Write("alice.pub", gsrig.AuthorizedLine(user.Pub, ""))
			gc, _, err := gsrig.GensignConfig(gsrig.Conf{PubKeyDir: kd.Path, Identifiers: map[string]string{"default": "d"}, ValiditySec: 600})
			if err != nil {
				r.Inconclusive(err.Error())
				return
			}
			var agents []*wire.Agent
			var conns []net.Conn
			defer func() {
				for _, cn := range conns {
					cn.Close()
				}
				for _, a := range agents {
					a.Close()
				}
			}()
			for i, hasKey := range pattern {
				ag := wire.New()
				agents = append(agents, ag)
				sock, err := ag.Listen()
				if err != nil {
					r.Inconclusive(err.Error())
					return
				}
				if hasKey {
					ag.Keyring.Add(agent.AddedKey{PrivateKey: user.Priv, Comment: "registered key"})
				} else {
					ag.Keyring.Add(agent.AddedKey{PrivateKey: gen.Pool()[(si*5+1+i)%len(gen.Pool())].Priv, Comment: "some other key"})
				}
				os.Setenv("SSH_AUTH_SOCK", sock)
				conn, err := agssh.AgentConn()
				if err != nil {
					r.Violation(c, "forwarded-agent-unreachable", err.Error(), pattern)
					return
				}
				conns = append(conns, conn)
				rig, err := gsrig.NewRigConn(conn, gc)
				if err != nil {
					r.Violation(c, "handler-construction-fails", err.Error(), pattern)
					return
				}
				before := make([]int, len(agents))
				for k, a := range agents {
					before[k] = a.NumRequests()
				}
				signer := &gsrig.Signer{}
				runErr, escaped := gsrig.Run(gsrig.Param(gsrig.ParamSpec{LogName: "alice", ReqUser: "u", ReqHost: "h", ClientIP: "10.9.8.7", TransID: fmt.Sprintf("%010d", i), Policy: "NONS"}), []gensign.Handler{rig.Handler}, signer)
				rec := map[string]any{"agents_hold_the_key": pattern, "request": i}
				if escaped != "" {
					r.Violation(c, gsrig.EscapeSig(escaped)+":auth-sock", escaped, rec)
					return
				}
				for k, a := range agents {
					if k != i && a.NumRequests() != before[k] {
						r.Violation(c, "request-served-through-another-requesters-agent", fmt.Sprintf("request %d (its own agent holds the key: %v): %d requests arrived at the forwarded agent of request %d", i, hasKey, a.NumRequests()-before[k], k), rec)
						return
					}
				}
				if !hasKey && (runErr == nil || signer.NumCalls() > 0) {
					r.Violation(c, "provisioning-without-proof-from-the-requesters-agent", fmt.Sprintf("request %d: its forwarded agent does not hold the registered key; err=%v, signer calls=%d", i, runErr, signer.NumCalls()), rec)
					return
				}
				if hasKey && (runErr != nil || signer.NumCalls() != 1) {
					r.Violation(c, "refused-although-the-requesters-agent-proved-possession", fmt.Sprintf("request %d: err=%v, signer calls=%d", i, runErr, signer.NumCalls()), rec)
					return
				}
				r.Count("requests served through the agent SSH_AUTH_SOCK named at the time", 1)
			}
			r.Nontrivial(fmt.Sprintf("auth-sock:%v", pattern))
		})
	}
}

// reRegistration: the registered key is what the key file says when the request is served. A user's key is replaced by
// another one of the same type (so the file keeps its size) and the file keeps its modification time (as a
// provisioning tool that preserves time stamps leaves it). From then on only the new key proves possession: a
// requester holding the old one is refused, on the same handler and on a new one.
func reRegistration(r *ev.Run) {
	if !r.Want("re-registration") {
		return
	}
	pool := gen.Pool()
	var byType = map[string][]*gen.Key{}
	for _, k := range pool {
		byType[k.Pub.Type()] = append(byType[k.Pub.Type()], k)
	}
	idx := 0
	var types []string
	for typ := range byType {
		types = append(types, typ)
	}
	sort.Strings(types)
	for _, typ := range types {
		ks := byType[typ]
		if len(ks) < 2 {
			continue
		}
		for _, ext := range []string{".pub", ""} {
			c := r.Case("re-registration", idx)
			idx++
			if c == nil {
				continue
			}
			rec := map[string]any{"key_type": typ, "file": "alice" + ext}
			r.Eval(1)
			r.Guard(c, "re-registered key", rec, func() {
				kd, err := gsrig.NewKeyDir()
				if err != nil {
					r.Inconclusive(err.Error())
					return
				}
				defer kd.Remove()
				oldK, newK := ks[0], ks[1]
				lineOld, lineNew := gsrig.AuthorizedLine(oldK.Pub, "alice"), gsrig.AuthorizedLine(newK.Pub, "alice")
				kd.Write("alice"+ext, lineOld)
				stamp := time.Now().Add(-72 * time.Hour).Truncate(time.Second)
				os.Chtimes(filepath.Join(kd.Path, "alice"+ext), stamp, stamp)
				gc, _, err := gsrig.GensignConfig(gsrig.Conf{PubKeyDir: kd.Path, Identifiers: map[string]string{"default": "d"}, ValiditySec: 600})
				if err != nil {
					r.Inconclusive(err.Error())
					return
				}
				run := func(rig *gsrig.Rig, what string) (provisioned bool, ok bool) {
					signer := &gsrig.Signer{}
					runErr, escaped := gsrig.Run(gsrig.Param(gsrig.ParamSpec{LogName: "alice", ReqUser: "u", ReqHost: "h", ClientIP: "10.9.8.7", TransID: gen.Ident(c.Rand, 10), Policy: "NONS"}), []gensign.Handler{rig.Handler}, signer)
					if escaped != "" {
						r.Violation(c, gsrig.EscapeSig(escaped)+":re-registration", escaped, rec)
						return false, false
					}
					return runErr == nil && signer.NumCalls() > 0, true
				}
				agOld, agNew := wire.New(), wire.New()
				defer agOld.Close()
				defer agNew.Close()
				agOld.Keyring.Add(agent.AddedKey{PrivateKey: oldK.Priv, Comment: "old key"})
				agNew.Keyring.Add(agent.AddedKey{PrivateKey: newK.Priv, Comment: "new key"})
				rigOld, err := gsrig.NewRig(agOld, gc)
				if err != nil {
					r.Violation(c, "handler-construction-fails", err.Error(), rec)
					return
				}
				defer rigOld.Close()
				if p, ok := run(rigOld, "before"); !ok || !p {
					if ok {
						r.Violation(c, "refused-although-the-requesters-agent-proved-possession:re-registration", "before the key was replaced", rec)
					}
					return
				}
				// the key is replaced: same size (same type and comment), same modification time
				if len(lineOld) != len(lineNew) {
					r.Count("re-registration: the two key lines differ in length (skipped)", 1)
					return
				}
				kd.Write("alice"+ext, lineNew)
				os.Chtimes(filepath.Join(kd.Path, "alice"+ext), stamp, stamp)
				if p, ok := run(rigOld, "after, same handler"); !ok || p {
					if ok {
						r.Violation(c, "provisioning-under-a-key-that-is-no-longer-registered:same-handler", fmt.Sprintf("the %s key in %s was replaced by another one (same size, same modification time); a requester holding only the old key was provisioned", typ, "alice"+ext), rec)
					}
					return
				}
				rigOld2, err := gsrig.NewRig(agOld, gc)
				if err == nil {
					defer rigOld2.Close()
					if p, ok := run(rigOld2, "after, new handler"); !ok || p {
						if ok {
							r.Violation(c, "provisioning-under-a-key-that-is-no-longer-registered:new-handler", fmt.Sprintf("the %s key in %s was replaced by another one (same size, same modification time); a requester holding only the old key was provisioned by a handler built afterwards", typ, "alice"+ext), rec)
						}
						return
					}
				}
				rigNew, err := gsrig.NewRig(agNew, gc)
				if err == nil {
					defer rigNew.Close()
					if p, ok := run(rigNew, "after, new key"); !ok || !p {
						if ok {
							r.Violation(c, "refused-although-the-requesters-agent-proved-possession:re-registration", "the holder of the newly registered key", rec)
						}
						return
					}
				}
				r.Count("re-registrations that kept file size and modification time: only the new key proves possession", 1)
				r.Nontrivial("re-registration:" + typ + ext)
			})
		}
	}
}
