// C02 — signing requests carry server-side identity and policy, never client claims.
package main

import (
	"encoding/json"
	"fmt"
	"github.com/theparanoids/ysshra/message"
	"github.com/theparanoids/ysshra/verifharness/lib/msgref"
	mrand "math/rand"
	"reflect"
	"sort"
	"strings"
	"sync"
	"time"

	"golang.org/x/crypto/ssh"
	"golang.org/x/crypto/ssh/agent"

	"github.com/theparanoids/ysshra/csr"
	"github.com/theparanoids/ysshra/gensign"
	"github.com/theparanoids/ysshra/keyid"
	"github.com/theparanoids/ysshra/sshutils/version"
	"github.com/theparanoids/ysshra/verifharness/lib/ev"
	"github.com/theparanoids/ysshra/verifharness/lib/gen"
	"github.com/theparanoids/ysshra/verifharness/lib/gsrig"
	"github.com/theparanoids/ysshra/verifharness/lib/wire"
)

// the fixed default extension set of an OpenSSH user certificate (pinned here)
var defaultExts = map[string]string{"permit-pty": "", "permit-X11-forwarding": "", "permit-agent-forwarding": "", "permit-port-forwarding": "", "permit-user-rc": ""}

type reqRec struct {
	Conf          string              `json:"handler_configuration_json"`
	LogName       string              `json:"login_name"`
	ClientAttrs   *message.Attributes `json:"other_client_attributes,omitempty"`
	ReqUser       string              `json:"client_user"`
	ReqHost       string              `json:"client_host"`
	IP            string              `json:"client_ip"`
	TransID       string              `json:"transaction_id"`
	CAAlgo        int                 `json:"requested_ca_key_algorithm"`
	ClientVersion string              `json:"declared_client_version,omitempty"`
	Validity      uint64              `json:"configured_validity"`
	IDs           map[string]string   `json:"configured_identifiers"`
	Result        string              `json:"result"`
	KeyID         string              `json:"key_id,omitempty"`
	ViaWire       bool                `json:"decoded_from_the_wire_message,omitempty"`
}

// slowAgent: the requester's agent takes more than a second to accept the new key. However long the run waits for it,
// the request asks for exactly the configured validity (the shortest configurable ones included).
func slowAgent(r *ev.Run) {
	var wg sync.WaitGroup
	defer wg.Wait()
	for ci, validity := range []uint64{1, 2, 3600} {
		c := r.Case("slow-agent", ci)
		if c == nil {
			continue
		}
		rec := map[string]any{"configured_validity": validity, "agent_delay_ms": 1300}
		r.Eval(1)
		wg.Add(1)
		go r.Guard(c, "slow agent", rec, func() {
			defer wg.Done()
			kd, _ := gsrig.NewKeyDir()
			defer kd.Remove()
			user := gen.Pool()[0]
			kd.Write("alice.pub", gsrig.AuthorizedLine(user.Pub, ""))
			gc, _, err := gsrig.GensignConfig(gsrig.Conf{PubKeyDir: kd.Path, Identifiers: map[string]string{"default": "d"}, ValiditySec: validity})
			if err != nil {
				r.Inconclusive(err.Error())
				return
			}
			ag := wire.New()
			defer ag.Close()
			ag.Keyring.Add(agent.AddedKey{PrivateKey: user.Priv})
			ag.SetPlan(func(_ int, req []byte) wire.Action {
				if len(req) > 0 && (req[0] == 17 || req[0] == 25) {
					return wire.Action{Kind: wire.Honest, Delay: 1300 * time.Millisecond}
				}
				return wire.Action{Kind: wire.Honest}
			})
			rig, err := gsrig.NewRig(ag, gc)
			if err != nil {
				r.Inconclusive(err.Error())
				return
			}
			defer rig.Close()
			gsrig.Run(gsrig.Param(gsrig.ParamSpec{LogName: "alice", ReqUser: "u", ReqHost: "h", ClientIP: "1.2.3.4", TransID: "0123456789", Policy: "NONS"}), []gensign.Handler{rig.Handler}, rig.Signer)
			if len(rig.Signer.Calls) != 1 {
				r.Count("slow agent: no request reached the CA (not judged)", 1)
				return
			}
			if got := rig.Signer.Calls[0].Req.Validity; got != validity {
				r.Violation(c, "csr-field:validity:slow-agent", fmt.Sprintf("configured %d s, the agent took 1.3 s to accept the key, the request asks for %d s", validity, got), rec)
				return
			}
			r.Count("requests with the configured validity although the agent was slow", 1)
			r.Nontrivial(fmt.Sprintf("slow-agent:%d", validity))
		})
	}
}

// longLived: one handler instance serves request after request (a handler kept across requests). The fortieth request
// asks for what the first one asked for: the configured validity, the configured slot, a fresh key, one principal; and
// the agent lifetime of what it adds is not shorter than that validity.
func longLived(r *ev.Run) {
	for ci, validity := range []uint64{1, 3600, 86400} {
		c := r.Case("long-lived-handler", ci)
		if c == nil {
			continue
		}
		rec := map[string]any{"configured_validity": validity, "requests": 40}
		r.Eval(1)
		r.Guard(c, "long-lived handler", rec, func() {
			kd, _ := gsrig.NewKeyDir()
			defer kd.Remove()
			user := gen.Pool()[1]
			kd.Write("alice.pub", gsrig.AuthorizedLine(user.Pub, ""))
			gc, _, err := gsrig.GensignConfig(gsrig.Conf{PubKeyDir: kd.Path, Identifiers: map[string]string{"default": "slot-d"}, ValiditySec: validity})
			if err != nil {
				r.Inconclusive(err.Error())
				return
			}
			ag := wire.New()
			defer ag.Close()
			ag.Keyring.Add(agent.AddedKey{PrivateKey: user.Priv})
			rig, err := gsrig.NewRig(ag, gc)
			if err != nil {
				r.Inconclusive(err.Error())
				return
			}
			defer rig.Close()
			seen := map[string]int{}
			for n := 0; n < 40; n++ {
				ag.ResetLog()
				signer := &gsrig.Signer{Agent: ag}
				runErr, escaped := gsrig.Run(gsrig.Param(gsrig.ParamSpec{LogName: "alice", ReqUser: "u", ReqHost: "h", ClientIP: "1.2.3.4", TransID: fmt.Sprintf("%010d", n), Policy: "NONS"}), []gensign.Handler{rig.Handler}, signer)
				if escaped != "" || runErr != nil || len(signer.Calls) != 1 {
					r.Violation(c, "request-refused-on-a-long-lived-handler", fmt.Sprintf("request %d: err=%v escaped=%q signer calls=%d", n, runErr, escaped, len(signer.Calls)), rec)
					return
				}
				q := signer.Calls[0].Req
				if q.Validity != validity || q.GetKeyMeta().GetIdentifier() != "slot-d" || len(q.Principals) != 1 || q.Principals[0] != "alice" {
					r.Violation(c, "csr-field:drifts-on-a-long-lived-handler", fmt.Sprintf("request %d on one handler instance: validity %d (configured %d), slot %q, principals %v", n, q.Validity, validity, q.GetKeyMeta().GetIdentifier(), q.Principals), rec)
					return
				}
				if prev, dup := seen[q.PublicKey]; dup {
					r.Violation(c, "csr-field:public-key-reused", fmt.Sprintf("requests %d and %d on one handler instance certify the same key", prev, n), rec)
					return
				}
				seen[q.PublicKey] = n
				adds, _ := ag.Rec.Snapshot()
				for _, a := range adds {
					if a.LifetimeSecs == 0 || uint64(a.LifetimeSecs) < q.Validity {
						r.Violation(c, "lifetime-shorter-than-requested-validity:long-lived-handler", fmt.Sprintf("request %d: validity %d s requested, agent lifetime %d s", n, q.Validity, a.LifetimeSecs), rec)
						return
					}
				}
			}
			r.Count("requests served by long-lived handler instances, each like the first", 40)
			r.Nontrivial(fmt.Sprintf("long-lived:%d", validity))
		})
	}
}

func main() {
	ev.MainIsolated("C02", "exploration", 40*time.Minute, func(r *ev.Run) {
		r.Rule("seeded requests through the real handler (NewHandler from JSON configuration) and gensign.Run with an honest forwarded agent and a recording signer: login name / client user / host / transaction id from a hostile alphabet (quotes, backslashes, NUL, newlines, braces, multi-byte UTF-8, up to 1 KiB), IPv4/IPv6 literals, requested CA key algorithm 0..5 and out of range, validity in {1, 59, 3600, 43200, 2^31, 10 years, default}, identifier maps with 0..5 entries keyed by algorithm name in random case or by decimal number. Each CSR is compared field by field with an oracle built from the inputs; the KeyID is decoded with encoding/json into a map (exact key set and JSON types) and with keyid.Unmarshal; the certified public key must be new (pairwise distinct over the whole run, different from the user's key) and be the public half of the private key this run added to the agent. distinct_nontrivial = distinct requests that produced a CSR and passed every field comparison + distinct refused (algorithm, identifier map) combinations")
		r.Assume("strings are valid UTF-8", "encoding/json is the independent KeyID decoder")
		gen.Pool()
		var swg sync.WaitGroup
		swg.Add(1)
		go func() { defer swg.Done(); slowAgent(r); longLived(r) }()
		defer swg.Wait()
		n := r.Pick(600, 20000)
		var wg sync.WaitGroup
		sem := make(chan struct{}, 8)
		var mu sync.Mutex
		seenKeys := map[string]int{}
		for i := 0; i < n; i++ {
			c := r.Case("req", i)
			if c == nil {
				continue
			}
			wg.Add(1)
			sem <- struct{}{}
			go func(c *ev.Case, i int) {
				defer wg.Done()
				defer func() { <-sem }()
				r.Guard(c, "gensign request", nil, func() { one(r, c, i, &mu, seenKeys) })
			}(c, i)
		}
		wg.Wait()
		r.Count("distinct certified public keys", len(seenKeys))
		// a validity that is not a non-negative number is not a validity: the handler is not built from such a
		// configuration (and certainly no request asking for some reinterpretation of it reaches the CA)
		for bi, bad := range []any{-1, -60.0, "0100", "60", "3600s", true, []any{60}, map[string]any{"sec": 60}} {
			c := r.Case("bad-validity", bi)
			if c == nil {
				continue
			}
			rec := map[string]any{"cert_validity_sec": bad}
			r.Eval(1)
			r.Guard(c, "invalid validity in the configuration", rec, func() {
				kd, _ := gsrig.NewKeyDir()
				defer kd.Remove()
				user := gen.Pool()[0]
				kd.Write("alice.pub", gsrig.AuthorizedLine(user.Pub, ""))
				gc, _, err := gsrig.GensignConfig(gsrig.Conf{PubKeyDir: kd.Path, Identifiers: map[string]string{"default": "d"}, RawValidity: bad})
				if err != nil {
					r.Count("invalid validity refused when the configuration is loaded", 1)
					r.Nontrivial(fmt.Sprintf("bad-validity:%v", bad))
					return
				}
				ag := wire.New()
				defer ag.Close()
				ag.Keyring.Add(agent.AddedKey{PrivateKey: user.Priv})
				rig, err := gsrig.NewRig(ag, gc)
				if err != nil {
					r.Count("invalid validity refused when the handler is built", 1)
					r.Nontrivial(fmt.Sprintf("bad-validity:%v", bad))
					return
				}
				defer rig.Close()
				gsrig.Run(gsrig.Param(gsrig.ParamSpec{LogName: "alice", ReqUser: "u", ReqHost: "h", ClientIP: "1.2.3.4", TransID: "0123456789", Policy: "NONS"}), []gensign.Handler{rig.Handler}, rig.Signer)
				if len(rig.Signer.Calls) > 0 {
					r.Violation(c, "csr-field:validity:from-invalid-configuration", fmt.Sprintf("cert_validity_sec=%#v was accepted and a request asking for %d seconds reached the CA", bad, rig.Signer.Calls[0].Req.Validity), rec)
					return
				}
				r.Count("invalid validity: no request reached the CA", 1)
			})
		}
		r.Floor(int64(r.Pick(600, 20000)), int64(r.Pick(200, 5000)))
	})
}

func randCase(rng interface{ Intn(int) int }, s string) string {
	b := []byte(s)
	for i := range b {
		if rng.Intn(2) == 0 && b[i] >= 'a' && b[i] <= 'z' {
			b[i] -= 32
		}
	}
	return string(b)
}

func one(r *ev.Run, c *ev.Case, i int, mu *sync.Mutex, seenKeys map[string]int) {
	rng := c.Rand
	kd, err := gsrig.NewKeyDir()
	if err != nil {
		r.Inconclusive(err.Error())
		return
	}
	defer kd.Remove()
	user := gen.PickKey(rng)
	if rng.Intn(8) == 0 {
		// a user registered with a security-key backed key: the certificate is for the RA's fresh software key all the same
		user = gen.SKPool()[rng.Intn(2)]
	}
	str := func(max int) string {
		if rng.Intn(10) == 0 {
			return strings.Repeat(gen.NonEmptyStr(rng, 8), 1+rng.Intn(60))
		}
		return gen.NonEmptyStr(rng, max)
	}
	logName := gsrig.LogName(rng)
	kd.Write(logName+".pub", gsrig.AuthorizedLine(user.Pub, ""))
	// identifier map
	names := []string{"default", "unknown", "rsa", "dsa", "ecdsa", "ed25519", "0", "1", "2", "3", "4", "5", "17"}
	ids := map[string]string{}
	want := map[int]string{}
	for k := rng.Intn(6); k > 0; k-- {
		nm := names[rng.Intn(len(names))]
		a, _ := gsrig.AlgoOf(nm)
		if _, dup := want[int(a)]; dup {
			continue // two spellings of one algorithm: which wins is not specified
		}
		id := "slot-" + gen.Ident(rng, 6)
		if rng.Intn(5) == 0 {
			// slot names are opaque text: nothing in them refers to the process environment, a home directory or a pattern
			id = []string{"ssh-user-rsa$v2", "${HOME}", "$PATH", "slot$$" + gen.Ident(rng, 3), "~/slot", "slot-*", "%h-slot", "slot " + gen.Ident(rng, 2), "$" + gen.Ident(rng, 4), "`id`"}[rng.Intn(10)]
		}
		ids[randCase(rng, nm)] = id
		want[int(a)] = id
	}
	validity := []uint64{1, 59, 3600, 43200, 1 << 31, 315360000, 7, 0, 1<<32 + 1, 1 << 40, 9223372037, 10000000000, 1<<53 - 1}[rng.Intn(13)]
	conf := gsrig.Conf{PubKeyDir: kd.Path, Identifiers: ids, ValiditySec: validity, Siblings: rng.Intn(3) == 0}
	if rng.Intn(12) == 0 {
		conf.OmitValidity = true
		validity = 12 * 3600 // documented default
	}
	gc, confJSON, err := gsrig.GensignConfig(conf)
	if err != nil {
		r.Inconclusive("config: " + err.Error())
		return
	}
	ag := wire.New()
	defer ag.Close()
	ag.Keyring.Add(agent.AddedKey{PrivateKey: user.Priv})
	rig, err := gsrig.NewRig(ag, gc)
	if err != nil {
		r.Violation(c, "handler-construction-fails", err.Error()+" conf="+confJSON, nil)
		return
	}
	defer rig.Close()
	ps := gsrig.ParamSpec{LogName: logName, ReqUser: str(24), ReqHost: str(40), ClientIP: gen.IP(rng), TransID: gen.Ident(rng, 10), Policy: "NONS", CAAlgo: []int{0, 1, 2, 3, 4, 5, 0, 1, 3, 17, -1, 256, 257, 259, 1<<32 + 1, 1 << 16, -255}[rng.Intn(17)]}
	if rng.Intn(6) == 0 {
		// names with white space at their ends are names all the same ("recorded verbatim")
		ws := []string{" ", "\t", "\u00a0", "\n", "\u0085", "  "}
		ps.ReqUser = ws[rng.Intn(6)] + ps.ReqUser
		ps.ReqHost = ps.ReqHost + ws[rng.Intn(6)]
	}
	if len(want) > 0 && rng.Intn(10) < 6 {
		var ks []int
		for k := range want {
			ks = append(ks, k)
		}
		sort.Ints(ks)
		ps.CAAlgo = ks[rng.Intn(len(ks))]
	}
	if rng.Intn(5) == 0 {
		ps.TransID = str(12)
	}
	if rng.Intn(6) == 0 {
		ps.ReqUser = "root"
	}
	if rng.Intn(6) == 0 {
		// a declared user that is the login name in another spelling (case, or letters that fold onto ASCII ones): a
		// client claim like any other — recorded verbatim, and never the principal
		switch rng.Intn(4) {
		case 0:
			ps.ReqUser = strings.ToUpper(logName)
		case 1:
			ps.ReqUser = strings.ToLower(logName)
		case 2:
			ps.ReqUser = strings.NewReplacer("k", "\u212a", "s", "\u017f", "K", "\u212a").Replace(logName)
		default:
			ps.ReqUser = strings.Title(logName)
		}
	}
	// the legacy request format ("req=alice@", "req=@laptop") lets a client declare an
	// empty user or host name
	switch rng.Intn(16) {
	case 0:
		ps.ReqUser = ""
	case 1:
		ps.ReqHost = ""
	case 2:
		ps.ReqUser, ps.ReqHost = "", ""
	}
	rec := reqRec{Conf: confJSON, LogName: logName, ReqUser: ps.ReqUser, ReqHost: ps.ReqHost, IP: ps.ClientIP, TransID: ps.TransID, CAAlgo: ps.CAAlgo, Validity: validity, IDs: ids}
	// earlier requests on the same agent leave their private keys (and certificates) behind
	for k := c.Rand.Intn(4); k > 0; k-- {
		warm := ps
		warm.TransID = gen.Ident(rng, 10)
		if rng.Intn(3) == 0 {
			// an earlier request on the same handler that is refused for want of a
			// configured CA key slot (after its key pair has been generated)
			for _, a := range []int{5, 17, -1, 4, 3, 2, 1, 0} {
				if _, ok := want[a]; !ok {
					refused := warm
					refused.CAAlgo = a
					rs := &gsrig.Signer{Agent: ag}
					if e, esc := gsrig.Run(gsrig.Param(refused), []gensign.Handler{rig.Handler}, rs); esc == "" && e != nil && len(rs.Calls) == 0 {
						r.Count("earlier refused requests on the same handler and agent", 1)
					}
					break
				}
			}
		}
		if _, ok := want[warm.CAAlgo]; !ok {
			continue
		}
		ws := &gsrig.Signer{Agent: ag, Scribble: rng.Intn(2) == 0}
		ag.ResetLog()
		if _, esc := gsrig.Run(gsrig.Param(warm), []gensign.Handler{rig.Handler}, ws); esc == "" && len(ws.Calls) == 1 {
			if pk, _, _, _, pe := ssh.ParseAuthorizedKey([]byte(ws.Calls[0].Req.PublicKey)); pe == nil {
				// the certified key was generated for this request: its private half was
				// handed to the agent during this run, not during an earlier one
				added := false
				wadds, _ := ag.Rec.Snapshot()
				for _, a := range wadds {
					if a.Certificate != nil {
						continue // delivery of the certificate re-adds the private key
					}
					if sg, e := ssh.NewSignerFromKey(a.PrivateKey); e == nil && string(sg.PublicKey().Marshal()) == string(pk.Marshal()) {
						added = true
					}
				}
				if !added {
					r.Violation(c, "csr-field:public-key-not-generated-for-this-request", fmt.Sprintf("earlier request on the same handler: the certified key was not among the %d private keys added to the agent during the run", len(wadds)), rec)
					return
				}
				mu.Lock()
				if prev, dup := seenKeys[string(pk.Marshal())]; dup {
					mu.Unlock()
					r.Violation(c, "csr-field:public-key-reused", fmt.Sprintf("same key as request %d (earlier request on the same agent)", prev), rec)
					return
				}
				seenKeys[string(pk.Marshal())] = -i
				mu.Unlock()
			}
			r.Count("earlier requests on the same agent", 1)
		}
	}
	ag.ResetLog()
	r.Eval(1)
	rig.Signer.Scribble = rng.Intn(3) == 0
	param := gsrig.Param(ps)
	if rng.Intn(2) == 0 {
		// whatever else the client put into its message (touchless-sudo hosts and time, firefighter flag, touch-to-ssh,
		// signature algorithm, interface version, extension map) has no bearing on the signing request
		a := msgref.Attrs(rng, false)
		a.Username, a.Hostname, a.SSHClientVersion = ps.ReqUser, ps.ReqHost, "8.1"
		a.CAPubKeyAlgo, a.HardKey = param.Attrs.CAPubKeyAlgo, false
		if a.TouchlessSudo == nil && rng.Intn(2) == 0 {
			a.TouchlessSudo = &message.TouchlessSudo{IsFirefighter: rng.Intn(2) == 0, Hosts: "host1,host2", Time: int64(1 + rng.Intn(30))}
		}
		param.Attrs = a
		param.SignatureAlgo = a.SignatureAlgo // as csr.NewReqParam copies it
		rec.ClientAttrs = a
	}
	if rec.ClientAttrs == nil && ps.ReqUser != "" && ps.ReqHost != "" && ps.CAAlgo >= 0 && rng.Intn(2) == 0 {
		// the request as it arrives: a current-format message in SSH_ORIGINAL_COMMAND, decoded by the RA's own entry
		// point. What the message declares is what must be recorded; the transaction id is the one the RA drew.
		line, _ := json.Marshal(map[string]any{"ifVer": 7, "username": ps.ReqUser, "hostname": ps.ReqHost, "sshClientVersion": "8.1", "caPubKeyAlgo": ps.CAAlgo, "hardKey": false})
		env := map[string]string{"SSH_ORIGINAL_COMMAND": string(line), "LOGNAME": logName, "SSH_CONNECTION": ps.ClientIP + " 50000 10.0.0.1 22"}
		if np, nerr := csr.NewReqParam(func(k string) string { return env[k] }, func() []string { return []string{"gensign", "-c", "/usr/bin/gensign NONS Regular"} }); nerr == nil && np != nil && np.TransID != "" {
			param = np
			ps.TransID, rec.TransID = np.TransID, np.TransID
			rec.ViaWire = true
			r.Count("requests decoded from the wire message by the RA's own entry point", 1)
		}
	}
	// the client's declared OpenSSH version is one more claim without bearing on the signing request: old, current,
	// absent and extreme ones (a generator of its own: the case streams above stay as they were)
	if param != nil && param.Attrs != nil {
		vr := mrand.New(mrand.NewSource(r.Seed*7919 + int64(c.Index)))
		v := [][2]uint16{{8, 1}, {0, 0}, {5, 3}, {6, 4}, {6, 5}, {7, 2}, {9, 9}, {65535, 65535}, {3, 9}, {6, 0}}[vr.Intn(10)]
		param.SSHClientVersion = version.New(v[0], v[1])
		param.Attrs.SSHClientVersion = fmt.Sprintf("%d.%d", v[0], v[1])
		rec.ClientVersion = param.Attrs.SSHClientVersion
	}
	runErr, escaped := gsrig.Run(param, []gensign.Handler{rig.Handler}, rig.Signer)
	rec.Result = gsrig.Kind(runErr)
	if escaped != "" {
		r.Violation(c, gsrig.EscapeSig(escaped), escaped, rec)
		return
	}
	wantID, configured := want[ps.CAAlgo]
	calls := rig.Signer.Calls
	if !configured {
		if len(calls) != 0 {
			r.Violation(c, fmt.Sprintf("request-signed-without-configured-identifier:algo=%d", ps.CAAlgo), fmt.Sprintf("identifier %q used; configured: %v", calls[0].Req.GetKeyMeta().GetIdentifier(), ids), rec)
			return
		}
		if _, ok := gensign.IsError(runErr); !ok {
			r.Violation(c, "missing-identifier-not-refused-with-typed-error", fmt.Sprintf("err=%v", runErr), rec)
			return
		}
		r.Count("refused: no identifier configured for the requested algorithm", 1)
		var ks []string
		for k := range want {
			ks = append(ks, fmt.Sprint(k))
		}
		sort.Strings(ks)
		r.Nontrivial(fmt.Sprintf("refused:%d:%v", ps.CAAlgo, ks))
		return
	}
	if len(calls) != 1 {
		// no request reached the CA: nothing for the property to say (counted; the floor on judged CSRs keeps the check honest)
		r.Count("configured requests that did not reach the CA (not a violation)", 1)
		return
	}
	if runErr != nil {
		// the request did reach the CA, so it is judged even though the run failed afterwards
		r.Count("runs that failed after their request had reached the CA", 1)
	}
	q := calls[0].Req
	rec.KeyID = q.KeyId
	bad := func(field, detail string) { r.Violation(c, "csr-field:"+field, detail, rec) }
	if !reflect.DeepEqual(q.Principals, []string{logName}) {
		bad("principals", fmt.Sprintf("%q, want [%q]", q.Principals, logName))
		return
	}
	if q.Validity != validity {
		bad("validity", fmt.Sprintf("%d, configured %d", q.Validity, validity))
		return
	}
	if !reflect.DeepEqual(q.Extensions, defaultExts) {
		bad("extensions", fmt.Sprintf("%v", q.Extensions))
		return
	}
	if len(q.CriticalOptions) != 0 {
		bad("critical-options", fmt.Sprintf("%v", q.CriticalOptions))
		return
	}
	if q.GetKeyMeta().GetIdentifier() != wantID {
		bad("identifier", fmt.Sprintf("%q, configured for algorithm %d: %q", q.GetKeyMeta().GetIdentifier(), ps.CAAlgo, wantID))
		return
	}
	pk, _, _, rest, perr := ssh.ParseAuthorizedKey([]byte(q.PublicKey))
	if perr != nil || len(strings.TrimSpace(string(rest))) != 0 {
		bad("public-key-unparsable", fmt.Sprint(perr))
		return
	}
	blob := string(pk.Marshal())
	if blob == string(user.Pub.Marshal()) {
		bad("public-key-is-users-long-term-key", "")
		return
	}
	mu.Lock()
	prev, dup := seenKeys[blob]
	seenKeys[blob] = i
	mu.Unlock()
	if dup {
		bad("public-key-reused", fmt.Sprintf("same key as request %d", prev))
		return
	}
	adds, _ := ag.Rec.Snapshot()
	if len(adds) == 0 {
		bad("no-private-key-added", "")
		return
	}
	if s, e := ssh.NewSignerFromKey(adds[0].PrivateKey); e != nil || string(s.PublicKey().Marshal()) != blob {
		bad("public-key-not-of-added-private-key", fmt.Sprint(e))
		return
	}
	// KeyID: independent decoding
	var m map[string]any
	if e := json.Unmarshal([]byte(q.KeyId), &m); e != nil {
		bad("keyid-not-json", e.Error())
		return
	}
	wantKeys := []string{"isFirefighter", "isHWKey", "isHeadless", "isNonce", "prins", "reqHost", "reqIP", "reqUser", "touchPolicy", "transID", "usage", "ver"}
	var got []string
	for k := range m {
		got = append(got, k)
	}
	sort.Strings(got)
	if !reflect.DeepEqual(got, wantKeys) {
		bad("keyid-key-set", fmt.Sprintf("%v", got))
		return
	}
	eq := func(k string, v any) bool { return reflect.DeepEqual(m[k], v) }
	switch {
	case !eq("ver", float64(1)):
		bad("keyid-version", fmt.Sprint(m["ver"]))
	case !eq("isFirefighter", false) || !eq("isHWKey", false) || !eq("isHeadless", false) || !eq("isNonce", false):
		bad("keyid-flags", q.KeyId)
	case !eq("usage", float64(0)):
		bad("keyid-usage", fmt.Sprint(m["usage"]))
	case !eq("touchPolicy", float64(1)):
		bad("keyid-touch-policy", fmt.Sprint(m["touchPolicy"]))
	case !eq("prins", []any{logName}):
		bad("keyid-principals", fmt.Sprint(m["prins"]))
	case !eq("transID", ps.TransID):
		bad("keyid-transid", fmt.Sprintf("%q vs %q", m["transID"], ps.TransID))
	case !eq("reqIP", ps.ClientIP):
		bad("keyid-ip", fmt.Sprintf("%q vs %q", m["reqIP"], ps.ClientIP))
	case !eq("reqUser", ps.ReqUser):
		bad("keyid-requser", fmt.Sprintf("%q vs %q", m["reqUser"], ps.ReqUser))
	case !eq("reqHost", ps.ReqHost):
		bad("keyid-reqhost", fmt.Sprintf("%q vs %q", m["reqHost"], ps.ReqHost))
	default:
		k, e := keyid.Unmarshal(q.KeyId)
		if e != nil {
			bad("keyid-not-decodable-by-codec", e.Error())
			return
		}
		if !reflect.DeepEqual(k.Principals, []string{logName}) || k.TransID != ps.TransID || k.ReqIP != ps.ClientIP || k.ReqUser != ps.ReqUser || k.ReqHost != ps.ReqHost || k.Version != 1 {
			bad("keyid-codec-disagrees", fmt.Sprintf("%+v", *k))
			return
		}
		r.Count("CSRs matching the oracle on every field", 1)
		r.Nontrivial(q.KeyId + q.PublicKey[:40])
		if i < 3 {
			r.Sample(rec)
		}
	}
}
