// C04 — every fault ends in a typed error; never a silent success, never a crash.
package main

import (
	"context"
	crand "crypto/rand"
	"errors"
	"fmt"
	"github.com/theparanoids/ysshra/sshutils/key"
	"os"
	"strings"
	"time"

	"github.com/theparanoids/crypki/proto"
	"golang.org/x/crypto/ssh"
	"golang.org/x/crypto/ssh/agent"

	agssh "github.com/theparanoids/ysshra/agent/ssh"
	"github.com/theparanoids/ysshra/csr"
	"github.com/theparanoids/ysshra/gensign"
	"github.com/theparanoids/ysshra/verifharness/lib/ev"
	"github.com/theparanoids/ysshra/verifharness/lib/gen"
	"github.com/theparanoids/ysshra/verifharness/lib/gsrig"
	"github.com/theparanoids/ysshra/verifharness/lib/wire"
)

// tracker wraps a handler and records at which agent-request index each stage begins and ends.
type tracker struct {
	inner             gensign.Handler
	ag                *wire.Agent
	authEnd, genStart int
	genEnd            int
	panicIn           string // "Name" | "Authenticate" | "Generate"
	emptyGenerate     bool
	emptyNonNil       bool // the empty result is an empty, non-nil slice
	keys              []*trackedKey
	wrapKeys          bool
	keyPanic          string // "CSRs" | "AddCertsToAgent"
	panicVal          any    // what is panicked with (nil: a string)
	cancelIn          string // "Authenticate" | "Generate": the request context ends while this method runs
	cancel            func()
}

// pval is the value a scripted panic is raised with.
func (t *tracker) pval(def string) any {
	if rp, ok := t.panicVal.(runtimePanic); ok {
		rp.raise() // a panic raised by the Go runtime itself, not by a panic statement
	}
	if t.panicVal != nil {
		return t.panicVal
	}
	return def
}

// runtimePanic names a mistake that makes the Go runtime panic (the value recovered is a runtime.Error).
type runtimePanic int

func (rp runtimePanic) raise() {
	switch rp % 4 {
	case 0:
		var m map[string]int
		m["x"] = 1
	case 1:
		var s []int
		_ = s[int(rp)+3]
	case 2:
		var p *tracker
		_ = p.panicIn
	default:
		var v any = "a string"
		_ = v.(int)
	}
}

func (t *tracker) Name() string {
	if t.panicIn == "Name" {
		panic(t.pval("scripted panic in Name"))
	}
	return t.inner.Name()
}
func (t *tracker) Authenticate(p *csr.ReqParam) error {
	if t.panicIn == "Authenticate" {
		panic(t.pval("scripted panic in Authenticate"))
	}
	err := t.inner.Authenticate(p)
	if t.cancelIn == "Authenticate" {
		t.cancel()
	}
	t.authEnd = t.ag.NumRequests()
	return err
}
func (t *tracker) Generate(p *csr.ReqParam) ([]csr.AgentKey, error) {
	t.genStart = t.ag.NumRequests()
	if t.panicIn == "Generate" {
		panic(t.pval("scripted panic in Generate"))
	}
	if t.emptyGenerate {
		if t.emptyNonNil {
			return []csr.AgentKey{}, nil
		}
		return nil, nil
	}
	ks, err := t.inner.Generate(p)
	if t.cancelIn == "Generate" {
		t.cancel()
	}
	t.genEnd = t.ag.NumRequests()
	var out []csr.AgentKey
	for _, k := range ks {
		tk := &trackedKey{inner: k, t: t}
		t.keys = append(t.keys, tk)
		out = append(out, tk)
	}
	return out, err
}

type trackedKey struct {
	inner     csr.AgentKey
	t         *tracker
	delivered bool
	delivErr  error
	certsIn   []ssh.PublicKey
}

func (k *trackedKey) CSRs() []*proto.SSHCertificateSigningRequest {
	if k.t.keyPanic == "CSRs" {
		panic(k.t.pval("scripted panic in CSRs"))
	}
	return k.inner.CSRs()
}
func (k *trackedKey) AddCertsToAgent(certs []ssh.PublicKey, comments []string) error {
	if k.t.keyPanic == "AddCertsToAgent" {
		panic(k.t.pval("scripted panic in AddCertsToAgent"))
	}
	k.certsIn = certs
	k.delivErr = k.inner.AddCertsToAgent(certs, comments)
	k.delivered = k.delivErr == nil
	return k.delivErr
}

// stub handler: K agent keys with C CSRs each; delivery goes through the real agent/ssh AgentKey.
type stubHandler struct {
	ag    agent.Agent
	nKeys int
	nCSRs int
	fail  bool
	plain bool // the failure is not one of the RA's typed errors (a third-party handler)
	// unnamed: the typed failure does not name the handler it comes from (built with NewErr / NewErrWithMsg)
	unnamed int
}

func (s *stubHandler) Name() string                     { return "stub" }
func (s *stubHandler) Authenticate(*csr.ReqParam) error { return nil }
func (s *stubHandler) Generate(*csr.ReqParam) ([]csr.AgentKey, error) {
	if s.fail && s.plain {
		return nil, fmt.Errorf("scripted generation failure: %w", os.ErrDeadlineExceeded)
	}
	if s.fail && s.unnamed == 1 {
		return nil, gensign.NewErr(gensign.HandlerGenCSRErr, errors.New("scripted generation failure"))
	}
	if s.fail && s.unnamed == 2 {
		return nil, gensign.NewErrWithMsg(gensign.HandlerGenCSRErr, "scripted generation failure")
	}
	if s.fail {
		return nil, gensign.NewErrorWithMsg(gensign.HandlerGenCSRErr, "stub", "scripted generation failure")
	}
	var out []csr.AgentKey
	for i := 0; i < s.nKeys; i++ {
		opt := agssh.DefaultKeyOpt
		opt.PrivateKeyValiditySec = 7200
		opt.CertLabel = fmt.Sprintf("stub-cert-%d", i)
		// every key type the RA can generate (RSA sparingly: slow to make)
		opt.PublicKeyAlgo = []key.PublicKeyAlgo{key.ECDSAsecp384r1, key.ED25519, key.ECDSAsecp256r1, key.ECDSAsecp521r1}[(i+s.nCSRs)%4]
		if s.nKeys == 3 && s.nCSRs == 1 && i == 2 {
			opt.PublicKeyAlgo = key.RSA2048
		}
		opt.PrivateKeyLabel = []string{"private-key", "", "stub key"}[(i+s.nKeys)%3]
		lbl := opt.CertLabel
		opt.KeyRefreshFilter = func(k *agent.Key) bool { return strings.Contains(k.Comment, lbl) }
		ak, err := agssh.NewSSHAgentKeyWithOpt(s.ag, opt)
		if err != nil {
			return nil, gensign.NewError(gensign.HandlerGenCSRErr, "stub", err)
		}
		sk := &stubKey{AgentKey: ak}
		for j := 0; j < s.nCSRs; j++ {
			// the requests of one key may well share the key id and differ in CA key slot, principals and validity
			kid := fmt.Sprintf("k%d-c%d", i, j)
			if (i+s.nCSRs)%2 == 0 {
				kid = fmt.Sprintf("k%d", i)
			}
			req := &proto.SSHCertificateSigningRequest{KeyId: kid, KeyMeta: &proto.KeyMeta{Identifier: fmt.Sprintf("slot-%d", j)}, Principals: []string{"p", fmt.Sprintf("p%d", j)}, Validity: uint64(3600 + j), PublicKey: string(ssh.MarshalAuthorizedKey(ak.PublicKey()))}
			if (i+j+s.nCSRs)%2 == 1 {
				// optional members left out, as a handler for a single-slot CA may: no key metadata, no extensions, no principals
				req.KeyMeta, req.Extensions = nil, nil
				if j%2 == 1 {
					req.Principals = nil
				}
			}
			sk.csrs = append(sk.csrs, req)
		}
		out = append(out, sk)
	}
	return out, nil
}

// refuser is a handler that does not authenticate anybody.
type refuser struct {
	plain bool
	kind  gensign.ErrorType // 0: authentication failure; otherwise the kind the handler gives its refusal (named or not)
}

func (f *refuser) Name() string { return "refuser" }
func (f *refuser) Authenticate(*csr.ReqParam) error {
	if f.plain {
		return fmt.Errorf("not for me")
	}
	if f.kind != 0 {
		return gensign.NewErrorWithMsg(f.kind, "refuser", "not for me")
	}
	return gensign.NewErrorWithMsg(gensign.HandlerAuthN, "refuser", "not for me")
}
func (f *refuser) Generate(*csr.ReqParam) ([]csr.AgentKey, error) {
	return nil, gensign.NewErrorWithMsg(gensign.HandlerGenCSRErr, "refuser", "never authenticated")
}

type stubKey struct {
	*agssh.AgentKey
	csrs []*proto.SSHCertificateSigningRequest
}

func (k *stubKey) CSRs() []*proto.SSHCertificateSigningRequest { return k.csrs }

type shape struct {
	Real   bool `json:"real_handler"`
	Keys   int  `json:"agent_keys"`
	CSRs   int  `json:"csrs_per_key"`
	NCerts int  `json:"certificates_per_csr"`
	// Warm: an earlier successful run on the same agent left a generation of certificates,
	// so that delivery has to list and remove them first (more agent operations to fault)
	Warm bool `json:"earlier_generation_present"`
	// PlainFirst: every reply of the CA starts with a plain public key (its own key line) before the certificates
	PlainFirst bool `json:"ca_reply_starts_with_a_plain_key,omitempty"`
}

type faultRec struct {
	Shape  shape  `json:"shape"`
	Fault  string `json:"fault"`
	At     int    `json:"index"`
	Stage  string `json:"stage_of_fault"`
	Result string `json:"result"`
	Frames int    `json:"agent_requests_in_pilot"`
	Signs  int    `json:"signer_calls_in_pilot"`
}

type env struct {
	kd   *gsrig.KeyDir
	user *gen.Key
}

// build makes a fresh identical rig for a shape.
func build(e *env, sh shape) (*wire.Agent, *tracker, *gsrig.Signer, func(), error) {
	ag := wire.New()
	ag.Keyring.Add(agent.AddedKey{PrivateKey: e.user.Priv, Comment: "user"})
	signer := &gsrig.Signer{Agent: ag, NCerts: sh.NCerts, NonCert: sh.PlainFirst, NonCertPos: 1}
	var inner gensign.Handler
	closeFn := func() { ag.Close() }
	if sh.Real {
		gc, _, err := gsrig.GensignConfig(gsrig.Conf{PubKeyDir: e.kd.Path, Identifiers: map[string]string{"default": "d"}, ValiditySec: 3600})
		if err != nil {
			return nil, nil, nil, closeFn, err
		}
		rig, err := gsrig.NewRig(ag, gc)
		if err != nil {
			return nil, nil, nil, closeFn, err
		}
		inner = rig.Handler
		closeFn = func() { rig.Close(); ag.Close() }
	} else {
		conn, err := ag.Pair()
		if err != nil {
			return nil, nil, nil, closeFn, err
		}
		inner = &stubHandler{ag: agent.NewClient(conn), nKeys: sh.Keys, nCSRs: sh.CSRs}
		closeFn = func() { conn.Close(); ag.Close() }
	}
	if sh.Warm {
		if werr, esc := gsrig.Run(param(), []gensign.Handler{inner}, &gsrig.Signer{Agent: ag, NCerts: sh.NCerts}); werr != nil || esc != "" {
			return nil, nil, nil, closeFn, fmt.Errorf("warm-up run failed: %v %s", werr, esc)
		}
		ag.ResetLog()
	}
	return ag, &tracker{inner: inner, ag: ag}, signer, closeFn, nil
}

func param() *csr.ReqParam {
	return gsrig.Param(gsrig.ParamSpec{LogName: "alice", ReqUser: "u", ReqHost: "h", ClientIP: "10.0.0.9", TransID: "00aa11bb22", Policy: "NONS"})
}

func main() {
	ev.MainIsolated("C04", "fault_enumeration", 40*time.Minute, func(r *ev.Run) {
		r.Rule("for every run shape within the bound (the real regular handler with the CA returning 1..3 certificates, on a fresh agent and on an agent that already holds an earlier generation (so that delivery lists and removes first); stub handlers returning 1..K agent keys with 1..C CSRs each and 1..3 certificates per CSR, delivery through the real agent/ssh AgentKey) a fault-free pilot run counts the agent requests N and signer calls S; then ONE run per (request index i < N) x {failure reply, garbage reply, wrong-type reply, oversized frame, truncated frame, connection closed} and per (signer call j < S) x {error, panic}, plus a panic in each Handler method (Name, Authenticate, Generate) and in each AgentKey method (CSRs, AddCertsToAgent), an empty Generate result and a failing Generate. Oracle: the error kind must match the stage in which the pilot performed that operation (auth -> all-authentications-failed; generation -> CSR-generation / configuration / invalid-params; signer -> signer; delivery -> agent; panic -> panic); nil only if every CSR was signed and every returned certificate is in the agent; no certificate-bearing add frame for a key one of whose CSRs was not signed; no panic escapes Run. distinct_nontrivial = distinct (shape, fault kind, index) runs judged. exhaustive within the bound")
		r.Assume("single faults only", "a wrong-type reply may surface as the stage's kind or as the panic kind (the agent client library panics on it and Run recovers)")
		r.Exhaustive(true)
		gen.Pool()
		kd, err := gsrig.NewKeyDir()
		if err != nil {
			r.Inconclusive(err.Error())
			return
		}
		defer kd.Remove()
		e := &env{kd: kd, user: gen.Pool()[0]}
		kd.Write("alice.pub", gsrig.AuthorizedLine(e.user.Pub, ""))
		var shapes []shape
		for nc := 1; nc <= 3; nc++ {
			shapes = append(shapes, shape{Real: true, Keys: 1, CSRs: 1, NCerts: nc})
			shapes = append(shapes, shape{Real: true, Keys: 1, CSRs: 1, NCerts: nc, Warm: true})
		}
		shapes = append(shapes, shape{Keys: 2, CSRs: 1, NCerts: 2, Warm: true}, shape{Keys: 1, CSRs: 2, NCerts: 1, Warm: true})
		shapes = append(shapes, shape{Real: true, Keys: 1, CSRs: 1, NCerts: 2, PlainFirst: true}, shape{Keys: 1, CSRs: 2, NCerts: 1, PlainFirst: true})
		maxK := r.Pick(2, 3)
		for k := 1; k <= maxK; k++ {
			for cs := 1; cs <= maxK; cs++ {
				for nc := 1; nc <= maxK; nc++ {
					shapes = append(shapes, shape{Keys: k, CSRs: cs, NCerts: nc})
				}
			}
		}
		idx := 0
		kinds := []int{wire.Failure, wire.Garbage, wire.WrongType, wire.Oversized, wire.Oversized2G, wire.Oversized4G, wire.Truncated, wire.Close}
		for _, sh := range shapes {
			if hungOnce {
				break
			}
			// pilot
			ag, tr, signer, closeFn, err := build(e, sh)
			if err != nil {
				r.Inconclusive("rig: " + err.Error())
				closeFn()
				continue
			}
			perr, esc := gsrig.Run(param(), []gensign.Handler{tr}, signer)
			N, S := ag.NumRequests(), signer.NumCalls()
			authEnd, genEnd := tr.authEnd, tr.genEnd
			signAt := []int{}
			for _, cl := range signer.Calls {
				signAt = append(signAt, cl.ReqIdxAt)
			}
			pilotOK := perr == nil && esc == ""
			if pilotOK {
				// success was reported: then every request was signed and every returned certificate is in the agent
				pilotOK = delivered(r, r.CaseAlways("pilot", idx), ag, tr, signer, sh, "fault-free run")
			}
			closeFn()
			if !pilotOK {
				if esc != "" {
					r.Violation(r.CaseAlways("pilot", idx), gsrig.EscapeSig(esc)+":fault-free", esc, sh)
					if esc == gsrig.Hung {
						hungOnce = true
					}
				} else {
					r.Inconclusive(fmt.Sprintf("the fault-free pilot run of shape %+v did not succeed (err=%v): no fault enumeration possible for it", sh, perr))
				}
				continue
			}
			r.Count("pilot runs", 1)
			stageOf := func(i int) string {
				switch {
				case i < authEnd:
					return "auth"
				case i < genEnd:
					return "generation"
				default:
					return "delivery"
				}
			}
			// agent faults
			for i := 0; i < N; i++ {
				for _, kind := range kinds {
					c := r.Case("fault", idx)
					idx++
					if c == nil {
						continue
					}
					rec := faultRec{Shape: sh, Fault: wire.KindName[kind], At: i, Stage: stageOf(i), Frames: N, Signs: S}
					judge(r, c, e, sh, rec, func(ag *wire.Agent, tr *tracker, s *gsrig.Signer) {
						ag.SetPlan(func(n int, req []byte) wire.Action {
							if n == i {
								return wire.Action{Kind: kind}
							}
							return wire.Action{Kind: wire.Honest}
						})
					})
				}
			}
			// signer faults
			for j := 0; j < S; j++ {
				for _, f := range []string{"error", "panic", "other-key"} {
					c := r.Case("fault", idx)
					idx++
					if c == nil {
						continue
					}
					rec := faultRec{Shape: sh, Fault: "signer-" + f, At: j, Stage: "signer", Frames: N, Signs: S}
					switch f {
					case "panic":
						rec.Stage = "panic"
					case "other-key":
						// the CA answers without error but its last certificate is issued for another key
						rec.Stage = "misissue"
					}
					judge(r, c, e, sh, rec, func(ag *wire.Agent, tr *tracker, s *gsrig.Signer) { s.Fault = map[int]string{j: f} })
				}
			}
			// the request context ends (deadline, client gone) before a signer call: the context-aware CA
			// client fails that call, which is a CA failure like any other
			ctxFaults := []string{"context-ends-before-run", "context-ends-in-Authenticate", "context-ends-in-Generate"}
			for j := 0; j+1 < S; j++ {
				ctxFaults = append(ctxFaults, fmt.Sprintf("context-ends-after-signer-call-%d", j))
			}
			for _, f := range ctxFaults {
				c := r.Case("fault", idx)
				idx++
				if c == nil {
					continue
				}
				rec := faultRec{Shape: sh, Fault: f, Stage: "signer", Frames: N, Signs: S}
				judge(r, c, e, sh, rec, func(ag *wire.Agent, tr *tracker, s *gsrig.Signer) {
					s.CtxAware = true
					switch {
					case strings.HasSuffix(f, "Authenticate"):
						tr.cancelIn = "Authenticate"
					case strings.HasSuffix(f, "Generate"):
						tr.cancelIn = "Generate"
					case strings.HasPrefix(f, "context-ends-after-signer-call-"):
						var at int
						fmt.Sscanf(f, "context-ends-after-signer-call-%d", &at)
						s.After = func(i int) {
							if i == at {
								tr.cancel()
							}
						}
					}
				})
			}
			// the forwarded agent answers the challenge without any error — with a signature that is not the registered
			// key's (another key's, over other data, of another format, empty): nobody authenticated
			if sh.Real {
				for _, hostile := range []string{"other-key", "other-data", "other-format", "empty-blob"} {
					hostile := hostile
					c := r.Case("fault", idx)
					idx++
					if c == nil {
						continue
					}
					rec := faultRec{Shape: sh, Fault: "challenge-answered-with-a-signature-of-" + hostile, Stage: "auth", Frames: N, Signs: S}
					judge(r, c, e, sh, rec, func(ag *wire.Agent, tr *tracker, s *gsrig.Signer) {
						first := true
						ag.Rec.SignHook = func(key ssh.PublicKey, data []byte, fl agent.SignatureFlags) (*ssh.Signature, error, bool) {
							if !first {
								return nil, nil, false
							}
							first = false
							other := gen.Pool()[7]
							if string(other.Pub.Marshal()) == string(key.Marshal()) {
								other = gen.Pool()[8]
							}
							switch hostile {
							case "other-key":
								sig, err := other.Sgn.Sign(crand.Reader, data)
								return sig, err, true
							case "other-data":
								sig, err := e.user.Sgn.Sign(crand.Reader, append([]byte("x"), data...))
								return sig, err, true
							case "other-format":
								sig, err := e.user.Sgn.Sign(crand.Reader, data)
								if sig != nil {
									sig.Format = ssh.KeyAlgoED25519
									if key.Type() == ssh.KeyAlgoED25519 {
										sig.Format = ssh.KeyAlgoECDSA256
									}
								}
								return sig, err, true
							}
							return &ssh.Signature{Format: key.Type(), Blob: nil}, nil, true
						}
					})
				}
			}
			// panics in handler / agent-key methods, empty and failing Generate
			var nilErr *gensign.Error
			pvals := []struct {
				name string
				v    any
			}{{"", nil}, {"-with-an-error-value", fmt.Errorf("an error value")}, {"-with-a-gensign-error", gensign.NewErrorWithMsg(gensign.HandlerAuthN, "x", "a typed error used as panic value")}, {"-with-a-nil-gensign-error", nilErr}}
			for mi, m0 := range []string{"Name", "Authenticate", "Generate", "CSRs", "AddCertsToAgent", "Name", "Authenticate", "Generate", "CSRs", "AddCertsToAgent", "Name", "Authenticate", "Generate", "CSRs", "AddCertsToAgent", "empty-generate", "empty-generate-non-nil", "failing-generate", "failing-generate-plain", "failing-generate-unnamed-1", "failing-generate-unnamed-2"} {
				m := m0
				c := r.Case("fault", idx)
				idx++
				if c == nil {
					continue
				}
				// the first five panic with a string; the second five with another kind of value (which one rotates with the shape)
				pv := pvals[0]
				if mi >= 5 && mi < 10 {
					pv = pvals[1+(mi+len(shapes)+sh.Keys+sh.CSRs+sh.NCerts)%3]
				}
				if mi >= 10 && mi < 15 {
					// the third five: the runtime raises the panic (nil map, index, nil pointer, type assertion)
					pv.name, pv.v = "-raised-by-the-runtime", runtimePanic(mi+sh.Keys+sh.CSRs+sh.NCerts)
				}
				rec := faultRec{Shape: sh, Fault: "panic-in-" + m + pv.name, Stage: "panic", Frames: N, Signs: S}
				switch m {
				case "empty-generate", "empty-generate-non-nil":
					rec.Fault, rec.Stage = m, "generation"
				case "failing-generate", "failing-generate-plain", "failing-generate-unnamed-1", "failing-generate-unnamed-2":
					if sh.Real {
						continue
					}
					rec.Fault, rec.Stage = m, "generation"
				}
				judge(r, c, e, sh, rec, func(ag *wire.Agent, tr *tracker, s *gsrig.Signer) {
					tr.panicVal = pv.v
					switch m {
					case "Name", "Authenticate", "Generate":
						tr.panicIn = m
					case "CSRs", "AddCertsToAgent":
						tr.keyPanic = m
					case "empty-generate":
						tr.emptyGenerate = true
					case "empty-generate-non-nil":
						tr.emptyGenerate, tr.emptyNonNil = true, true
					case "failing-generate":
						tr.inner.(*stubHandler).fail = true
					case "failing-generate-plain":
						tr.inner.(*stubHandler).fail, tr.inner.(*stubHandler).plain = true, true
					case "failing-generate-unnamed-1":
						tr.inner.(*stubHandler).fail, tr.inner.(*stubHandler).unnamed = true, 1
					case "failing-generate-unnamed-2":
						tr.inner.(*stubHandler).fail, tr.inner.(*stubHandler).unnamed = true, 2
					}
				})
			}
			_ = signAt
		}
		// a panic is a panic whatever happened before it: handlers that refused (with a typed or a plain error) precede
		// the handler in which something panics
		for nRef := 1; nRef <= 2; nRef++ {
			for _, m := range []string{"Name", "Authenticate", "Generate", "CSRs", "AddCertsToAgent", "signer"} {
				for _, plain := range []bool{false, true} {
					c := r.Case("fault", idx)
					idx++
					if c == nil || hungOnce {
						continue
					}
					sh := shape{Keys: 1, CSRs: 1, NCerts: 1}
					rec := faultRec{Shape: sh, Fault: fmt.Sprintf("panic-in-%s-after-%d-refusing-handlers", m, nRef), Stage: "panic"}
					ag, tr, signer, closeFn, err := build(e, sh)
					if err != nil {
						closeFn()
						continue
					}
					switch m {
					case "Name", "Authenticate", "Generate":
						tr.panicIn = m
					case "CSRs", "AddCertsToAgent":
						tr.keyPanic = m
					case "signer":
						signer.Fault = map[int]string{0: "panic"}
					}
					var hs []gensign.Handler
					for k := 0; k < nRef; k++ {
						rf := &refuser{plain: plain != (k == 1)}
						if !rf.plain {
							// the refusal is of some kind of the RA's own, named or not (unknown, zero, one of a newer release)
							rf.kind = []gensign.ErrorType{0, gensign.Unknown, gensign.HandlerDisabled, 200, gensign.InvalidParams, 0, gensign.Unknown}[(idx+k)%7]
						}
						hs = append(hs, rf)
					}
					hs = append(hs, tr)
					r.Eval(1)
					runErr, escaped := gsrig.Run(param(), hs, signer)
					rec.Result = gsrig.Kind(runErr)
					closeFn()
					_ = ag
					switch {
					case escaped != "":
						r.Violation(c, gsrig.EscapeSig(escaped)+":"+rec.Fault, escaped, rec)
						if escaped == gsrig.Hung {
							hungOnce = true
						}
					case rec.Result != "panic":
						r.Violation(c, fmt.Sprintf("wrong-error-kind:%s@panic:got=%s", rec.Fault, rec.Result), fmt.Sprintf("Run returned %q (%v)", rec.Result, runErr), rec)
					default:
						r.Count("panic after refusing handlers -> panic kind", 1)
						r.Nontrivial(fmt.Sprintf("%s|%v", rec.Fault, plain))
					}
				}
			}
		}
		r.Extra("shapes", len(shapes))
		r.Extra("fault_runs", idx)
		r.Floor(int64(r.Pick(300, 2000)), int64(r.Pick(300, 2000)))
	})
}

// delivered checks the success post-condition: every CSR signed, every returned certificate in the agent.
func delivered(r *ev.Run, c *ev.Case, ag *wire.Agent, tr *tracker, signer *gsrig.Signer, sh shape, what string) bool {
	keys, _ := ag.Keyring.List()
	held := map[string]bool{}
	for _, k := range keys {
		held[string(k.Blob)] = true
	}
	want := sh.Keys * sh.CSRs
	if sh.Real {
		want = 1
	}
	if signer.NumCalls() != want {
		if c != nil {
			r.Violation(c, "success-without-signing-every-request", fmt.Sprintf("%s: %d signer calls, %d CSRs", what, signer.NumCalls(), want), nil)
		}
		return false
	}
	for _, cl := range signer.Calls {
		if cl.Err != nil {
			if c != nil {
				r.Violation(c, "success-although-a-request-was-not-signed", what, nil)
			}
			return false
		}
		for _, pk := range cl.Certs {
			if _, isCert := pk.(*ssh.Certificate); isCert && !held[string(pk.Marshal())] {
				if c != nil {
					r.Violation(c, "success-although-a-certificate-was-not-delivered", fmt.Sprintf("%s: a certificate for %q is not in the agent", what, cl.Req.KeyId), nil)
				}
				return false
			}
		}
	}
	return true
}

var hungOnce bool

func judge(r *ev.Run, c *ev.Case, e *env, sh shape, rec faultRec, inject func(*wire.Agent, *tracker, *gsrig.Signer)) {
	if hungOnce {
		return // a run that never returned may hold process-wide state; later runs in this process are not meaningful
	}
	ag, tr, signer, closeFn, err := build(e, sh)
	defer closeFn()
	if err != nil {
		r.Inconclusive("rig: " + err.Error())
		return
	}
	ctx, cancel := context.WithTimeout(context.Background(), 30*time.Second)
	defer cancel()
	tr.cancel = cancel
	inject(ag, tr, signer)
	if rec.Fault == "context-ends-before-run" {
		cancel()
	}
	r.Eval(1)
	runErr, escaped := gsrig.RunCtx(ctx, param(), []gensign.Handler{tr}, signer)
	rec.Result = gsrig.Kind(runErr)
	sig := fmt.Sprintf("%s@%s", rec.Fault, rec.Stage)
	if escaped != "" {
		r.Violation(c, gsrig.EscapeSig(escaped)+":"+sig, escaped, rec)
		if escaped == gsrig.Hung {
			hungOnce = true
		}
		return
	}
	// no certificate reaches the agent for a key one of whose requests the CA did not sign
	adds, _ := ag.Rec.Snapshot()
	failedKeys := map[string]bool{}
	for _, cl := range signer.Calls {
		if cl.Err != nil || cl.Certs == nil {
			if pk, _, _, _, e := ssh.ParseAuthorizedKey([]byte(cl.Req.PublicKey)); e == nil {
				failedKeys[string(pk.Marshal())] = true
			}
		}
	}
	for _, a := range adds {
		if a.Certificate != nil && failedKeys[string(a.Certificate.Key.Marshal())] {
			r.Violation(c, "certificate-delivered-for-unsigned-request:"+sig, "", rec)
			return
		}
	}
	// was the fault reached at all? (a fault index beyond the point where the run legitimately ended cannot happen: single fault, same prefix)
	if rec.Stage == "misissue" {
		// not every returned certificate can have been handed to the agent usefully; whatever the run does
		// with such a reply, success may be reported only if every returned certificate is in the agent
		if runErr == nil {
			if !delivered(r, c, ag, tr, signer, sh, "certificate for another key returned by the CA") {
				return
			}
		} else if _, typed := gensign.IsError(runErr); !typed {
			r.Violation(c, "untyped-error:"+sig, fmt.Sprintf("%T %v", runErr, runErr), rec)
			return
		}
		r.Count("runs with a certificate issued for another key judged", 1)
		r.Nontrivial(fmt.Sprintf("%+v|%s|%d", sh, rec.Fault, rec.At))
		return
	}
	if runErr == nil {
		// nil is acceptable only if the fault had no bearing and everything was delivered
		if rec.Fault == "garbage" || rec.Fault == "failure" || rec.Fault == "wrong-type" || rec.Fault == "close" || rec.Fault == "oversized" || rec.Fault == "oversized-2g" || rec.Fault == "oversized-4g" || rec.Fault == "truncated" || strings.HasPrefix(rec.Fault, "signer-") || strings.HasPrefix(rec.Fault, "context-ends-") || strings.HasPrefix(rec.Fault, "panic-in-") || rec.Fault == "empty-generate" || rec.Fault == "empty-generate-non-nil" || rec.Fault == "failing-generate" {
			r.Violation(c, "fault-ends-in-success:"+sig, fmt.Sprintf("Run returned nil although %s was injected at index %d (%s stage)", rec.Fault, rec.At, rec.Stage), rec)
			return
		}
	}
	ok := false
	switch rec.Stage {
	case "auth":
		ok = rec.Result == "all-auth-failed"
	case "generation":
		ok = rec.Result == "csr-generation" || rec.Result == "configuration" || rec.Result == "invalid-params"
		if rec.Fault == "failing-generate" || strings.HasPrefix(rec.Fault, "failing-generate-unnamed") {
			// the handler said what kind of failure it was (whether or not it named itself)
			ok = rec.Result == "csr-generation"
		}
		if rec.Fault == "failing-generate-plain" {
			// the handler's own error, as it is or classified: an error either way
			ok = runErr != nil && (rec.Result != "plain" || errors.Is(runErr, os.ErrDeadlineExceeded))
		}
	case "signer":
		ok = rec.Result == "signer"
	case "delivery":
		ok = rec.Result == "agent"
	case "panic":
		ok = rec.Result == "panic"
	}
	if rec.Fault == "wrong-type" && rec.Result == "panic" {
		ok = true
	}
	if !ok {
		r.Violation(c, fmt.Sprintf("wrong-error-kind:%s:got=%s", sig, rec.Result), fmt.Sprintf("fault %s at index %d falls into the %s stage, Run returned %q (%v)", rec.Fault, rec.At, rec.Stage, rec.Result, runErr), rec)
		return
	}
	// the process keeps running: the next, fault-free run (fresh agent, same process) completes
	if r.Counter("follow-up runs after a fault")%7 == 0 {
		ag2, tr2, s2, close2, berr := build(e, shape{Real: sh.Real, Keys: sh.Keys, CSRs: sh.CSRs, NCerts: sh.NCerts})
		if berr == nil {
			e2, esc2 := gsrig.Run(param(), []gensign.Handler{tr2}, s2)
			if esc2 != "" || e2 != nil {
				r.Violation(c, gsrig.EscapeSig(esc2)+":follow-up-run-after:"+sig, fmt.Sprintf("after the faulted run, a fault-free run in the same process: err=%v %s", e2, esc2), rec)
				if esc2 == gsrig.Hung {
					hungOnce = true
				}
				close2()
				return
			}
			_ = ag2
		}
		close2()
	}
	r.Count("follow-up runs after a fault", 1)
	r.Count("fault in "+rec.Stage+" stage -> matching kind", 1)
	r.Nontrivial(fmt.Sprintf("%+v|%s|%d", sh, rec.Fault, rec.At))
	if r.Counter("samples") < 5 {
		r.Count("samples", 1)
		r.Sample(rec)
	}
}
