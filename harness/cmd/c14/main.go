// C14 — request parameters parse totally and come from the server-side environment.
package main

import (
	crand "crypto/rand"
	"encoding/json"
	"errors"
	"fmt"
	"io"
	mrand "math/rand"
	"net"
	"os"
	"regexp"
	"strconv"
	"strings"
	"sync"
	"time"

	"github.com/theparanoids/ysshra/csr"
	"github.com/theparanoids/ysshra/verifharness/lib/ev"
	"github.com/theparanoids/ysshra/verifharness/lib/gen"
	"github.com/theparanoids/ysshra/verifharness/lib/msgref"
)

type input struct {
	Cmd     string   `json:"ssh_original_command"`
	LogName string   `json:"logname"`
	Conn    string   `json:"ssh_connection"`
	Argv    []string `json:"argv"`
	// Other holds further variables of the environment sshd hands over (USER, HOME, SHELL, ...): none of them is the login name
	Other map[string]string `json:"other_environment,omitempty"`
}

// dictated: transaction ids that client messages of this run offered.
var dictated sync.Map

var transRE = regexp.MustCompile(`^[0-9a-f]{10}$`)
var verRE = regexp.MustCompile(`^[0-9]+\.[0-9]+$`)

func genCmd(c *ev.Case) (string, string) {
	r := c.Rand
	switch r.Intn(20) {
	case 18:
		// long texts in several scripts, most of them refused: whatever is done with a refused text (quoting it in the
		// error, shortening it) meets every mixture of one-, two-, three- and four-octet characters and every length
		alpha := [][]string{{"a", "Z", "7", "=", " "}, {"é", "ß", "я"}, {"中", "あ", "€"}, {"😀", "𝔘"}}
		var b strings.Builder
		target := []int{200, 250, 255, 256, 257, 300, 512, 1024, 4000}[r.Intn(9)] + r.Intn(3) - 1
		mix := 1 + r.Intn(15) // which widths take part
		for b.Len() < target {
			w := r.Intn(4)
			if mix&(1<<uint(w)) == 0 {
				continue
			}
			b.WriteString(alpha[w][r.Intn(len(alpha[w]))])
		}
		switch r.Intn(4) {
		case 0:
			return fmt.Sprintf(`{"username":%q,"hostname":"h","sshClientVersion":"8.1","ifVer":7}`, strings.ReplaceAll(b.String(), " ", "_")), "json-object"
		case 1:
			return "IFVer=6 SSHClientVersion=8.1 req=" + strings.ReplaceAll(strings.ReplaceAll(b.String(), " ", "_"), "=", "-"), "long-text" // no host part: refused
		}
		return b.String(), "long-text"
	case 17:
		// a current-format object whose declared interface version is low, absent or odd, with blank-separated text that
		// looks like the older format inside its string values: the object is the message
		iv := []string{`"ifVer":6,`, `"ifVer":0,`, ``, `"ifVer":-3,`, `"ifVer":7,`}[r.Intn(5)]
		return fmt.Sprintf(`{%s"username":"j%s","hostname":"x req=mallory@evil SSHClientVersion=9.9 HardKey=false y","sshClientVersion":"8.%d","exts":{"note":"IFVer=6 req=root@evil"}}`, iv, gen.Ident(r, 3), r.Intn(10)), "json-object"
	case 16:
		// a complete current-format object followed by something else: as a whole the text is not a current-format
		// message (it is a legacy line if it holds the tokens of one, and nothing otherwise)
		obj := fmt.Sprintf(`{"username":"j%s","hostname":"jh","sshClientVersion":"9.%d","ifVer":7}`, gen.Ident(r, 3), r.Intn(10))
		tail := []string{" IFVer=6 SSHClientVersion=8.1 req=lu@lh", " req=" + gen.Ident(r, 3) + "@lh SSHClientVersion=7.2", "}", " x", obj, " " + obj, "\x00\xff", " null", ",", "\n{}"}[r.Intn(10)]
		return obj + tail, "json-then-more"
	case 15:
		// the client offers a transaction id of its own, wherever a client can put one: ids come from the server
		id := []string{"0123456789", "deadbeef00", "ffffffffff", "aaaaaaaaaa"}[r.Intn(4)]
		dictated.Store(id, true)
		switch r.Intn(4) {
		case 0:
			return fmt.Sprintf(`{"username":"u","hostname":"h","sshClientVersion":"8.1","ifVer":7,"exts":{"transID":%q}}`, id), "json-transid"
		case 1:
			return fmt.Sprintf(`{"username":"u","hostname":"h","sshClientVersion":"8.1","ifVer":7,"transID":%q,"exts":{"TRANSID":%q,"transid":%q}}`, id, id, id), "json-transid"
		case 2:
			return fmt.Sprintf("IFVer=6 SSHClientVersion=8.1 req=u@h transID=%s", id), "legacy-transid"
		default:
			return fmt.Sprintf("IFVer=6 SSHClientVersion=8.1 req=u@h TransID=%s transid=%s TRANSID=%s", id, id, id), "legacy-transid"
		}
	case 14:
		// only the ASCII space separates legacy tokens: a tab, line feed, NBSP or em space inside a value is part of it
		odd := []string{"\t", "\n", "\u00a0", "\u2003", "\r", "\v", "\u2028"}[r.Intn(7)]
		host := gen.Ident(r, 3) + odd + []string{"HardKey=true", "req=root@evil", gen.Ident(r, 4), "IFVer=9"}[r.Intn(4)]
		user := gen.Ident(r, 4)
		if r.Intn(3) == 0 {
			user = gen.Ident(r, 2) + odd + gen.Ident(r, 2)
		}
		return fmt.Sprintf("IFVer=%d SSHClientVersion=8.%d req=%s@%s", r.Intn(7), r.Intn(10), user, host), "legacy-odd-spaces"
	case 13:
		// legacy attribute names are exact: look-alikes in another case are just extended attributes
		ver := []string{"sshClientVersion", "SSHCLIENTVERSION", "sshclientversion", "SshClientVersion"}
		parts := []string{"IFVer=" + strconv.Itoa(r.Intn(7)), "req=" + gen.Ident(r, 4) + "@" + gen.Ident(r, 5)}
		for k := 1 + r.Intn(2); k > 0; k-- {
			parts = append(parts, ver[r.Intn(len(ver))]+"="+strconv.Itoa(1+r.Intn(11))+"."+strconv.Itoa(r.Intn(12)))
		}
		switch r.Intn(4) {
		case 0:
			parts = append(parts, "REQ=root@evil", "Req=root@evil")
		case 1:
			parts = append(parts, "hardkey=true", "HARDKEY=true", "ifver=9")
		case 2:
			parts = append(parts, "SSHClientVersion=") // the exact name, empty
		}
		r.Shuffle(len(parts), func(i, j int) { parts[i], parts[j] = parts[j], parts[i] })
		return strings.Join(parts, " "), "legacy-casefold"
	case 0, 1, 2, 3:
		a := msgref.Attrs(r, false)
		if r.Intn(3) > 0 {
			a.SSHClientVersion = strconv.Itoa(r.Intn(12)) + "." + strconv.Itoa(r.Intn(12))
		}
		b, _ := json.Marshal(a)
		return string(b), "json-object"
	case 4, 5:
		a := msgref.Attrs(r, true)
		if r.Intn(3) > 0 {
			a.SSHClientVersion = strconv.Itoa(r.Intn(12)) + "." + strconv.Itoa(r.Intn(12))
		}
		t, _ := a.MarshalLegacy()
		if r.Intn(4) == 0 { // legacy message that omits the version
			t = strings.Replace(t, "SSHClientVersion="+a.SSHClientVersion, "", 1)
		}
		return t, "legacy"
	case 6:
		return []string{"null", " null", "true", "false", "0", "-1.5e3", `""`, `"x"`, "[]", "[null]", `[{"username":"u"}]`, "{}", `{"a":{}}`}[r.Intn(13)], "json-other"
	case 7:
		// objects with wrong types / odd versions
		v := []string{`"8.1"`, `"08.001"`, `"65535.65535"`, `"65536.1"`, `"8.65537"`, `"99999999999999999999.1"`, `"8"`, `"8.1.2"`, `" 8.1"`, `"8.1 "`, `"-1.0"`, `"+8.1"`, `"８.１"`, `""`, `8.1`, `null`, `"1e1.0"`, `"0x8.1"`, `"811"`, `"8x1"`, `"8-1"`, `"1 2"`, `"12345"`, `"8,1"`, `"010.7"`, `"8.010"`, `"0017.0100"`, `"00.00"`, `"0777.0777"`, `"09.08"`}[r.Intn(30)]
		u := []string{`"u"`, `""`, `null`, `1`, `"` + "root" + `"`}[r.Intn(5)]
		return fmt.Sprintf(`{"username":%s,"hostname":"h","sshClientVersion":%s,"ifVer":7}`, u, v), "json-versions"
	case 8:
		v := []string{"8.1", "08.001", "65535.65535", "65536.1", "8.65537", "99999999999999999999.1", "8", "8.1.2", "-1.0", "+8.1", "", "x", "811", "8x1", "8-1", "12345", "8,1", "8_1", "010.7", "8.010", "0017.0100", "00.00", "0777.0777", "09.08"}[r.Intn(24)]
		return fmt.Sprintf("IFVer=6 SSHClientVersion=%s req=%s@%s", v, gen.Ident(r, 4), gen.Ident(r, 5)), "legacy-versions"
	case 9:
		return "", "empty"
	case 10:
		return string(gen.Bytes(r, r.Intn(40))), "bytes"
	case 11:
		return gen.Str(r, 40), "text"
	case 12:
		// client tries to smuggle a different login name
		return fmt.Sprintf(`{"username":"root","hostname":"h","sshClientVersion":"9.0","logName":"root","LogName":"root","exts":{"LOGNAME":"root"}}`), "json-smuggle"
	}
	return "req=root@evil LOGNAME=root LogName=root SSHClientVersion=9.1 HandlerName=x NONS", "legacy-smuggle"
}

func genConn(c *ev.Case) string {
	r := c.Rand
	switch r.Intn(12) {
	case 0:
		return ""
	case 1:
		return " " + gen.IP(r) + " 22 10.0.0.1 22"
	case 2:
		return gen.IP(r)
	case 3:
		return "fe80::1%eth0 1234 fe80::2%eth0 22"
	case 4:
		return "::ffff:1.2.3.4 1 2 3"
	case 5:
		return gen.Str(r, 20)
	case 6:
		return gen.IP(r) + "\t22 10.0.0.1 22"
	case 7:
		return "1.2.3.4.5 1 2 3"
	case 8:
		return "01.2.3.4 1 2 3"
	case 9:
		return "1.2.3.4/32 1 2 3"
	case 10:
		// what sshd and its relatives put there when the peer has no IP address, and other words that are not addresses
		w := []string{"UNKNOWN", "unknown", "localhost", "-", "UNIX", "[::1]", "0x7f.1", "::1%", "1.2.3", "４.４.４.４"}[r.Intn(10)]
		return w + " 65535 " + w + " 65535"
	}
	return gen.IP(r) + " " + strconv.Itoa(r.Intn(65536)) + " " + gen.IP(r) + " 22"
}

func genArgv(c *ev.Case) []string {
	r := c.Rand
	pol := []string{"NONS", "NSOK", "NONS", "NSOK", "nons", "NSOK ", "", "NS", "NONSX", "ALL"}[r.Intn(10)]
	handler := []string{"Regular", "paranoids.regular", "x", "", "NONS"}[r.Intn(5)]
	switch r.Intn(10) {
	case 0:
		return nil
	case 1:
		return []string{"/usr/bin/gensign", pol, handler}
	case 2:
		return []string{"gensign", "-c", "/usr/bin/gensign " + pol + " " + handler}
	case 3:
		return []string{"/usr/bin/gensign " + pol + " " + handler}
	case 4:
		return []string{"sh", "-c", "/usr/bin/gensign", pol, handler}
	case 5:
		return []string{"a", "b", "c", "d", pol, handler}
	case 6:
		return []string{"a", "b", "c", "d", "e", pol, handler}
	case 7:
		return []string{"gensign", pol + "  " + handler} // double space -> empty token
	case 8:
		return []string{"gensign", handler, pol}
	}
	n := r.Intn(9)
	out := make([]string, n)
	for i := range out {
		switch r.Intn(4) {
		case 0:
			out[i] = pol
		case 1:
			out[i] = gen.Ident(r, 3) + " " + pol
		case 2:
			out[i] = gen.Ident(r, 2)
		default:
			out[i] = pol + " " + handler
		}
	}
	return out
}

func main() {
	ev.MainIsolated("C14", "exploration", 40*time.Minute, func(r *ev.Run) {
		r.Rule("seeded (original command, LOGNAME, SSH_CONNECTION, argv) tuples: JSON attribute objects, other JSON values, legacy texts (with and without a version), odd version strings, smuggling attempts, empty, bytes; LOGNAME empty/hostile; connection strings empty, leading space, IPv6, zone ids, tabs, malformed; argv of 0..8 arguments with embedded spaces. distinct_nontrivial = distinct inputs for which NewReqParam SUCCEEDED and every clause of the oracle was evaluated Plus 900 requests in a row with the process entropy source (crypto/rand.Reader) down during requests 250..399: every id handed out is well-formed and never repeats an earlier one.")
		r.Assume("reference decoders for 'what the client declared': encoding/json into a mirror struct, reference legacy tokenizer", "40-bit ids: at most one duplicate per 5000-call window, never two equal consecutive ids")
		// the RA's own command line is not the request's: make it one that would parse as a forced command
		os.Args = []string{"/usr/bin/gensign", "NSOK", "Regular"}
		ring := ev.NewRing("NewReqParam", r.Seed, 43)
		n := r.Pick(20000, 1000000)
		var lastID string
		window := map[string]int{}
		dups := 0
		for i := 0; i < n; i++ {
			c := r.Case("call", i)
			if c == nil {
				continue
			}
			cmd, shape := genCmd(c)
			in := input{Cmd: cmd, LogName: gen.NonEmptyStr(c.Rand, 12), Conn: genConn(c), Argv: genArgv(c)}
			switch c.Rand.Intn(10) {
			case 0:
				in.LogName = ""
			case 1:
				in.LogName = "alice"
			}
			if c.Rand.Intn(2) == 0 { // bias towards acceptable envelopes so that the success clauses are reached
				in.Conn = gen.IP(c.Rand) + " 50000 10.0.0.1 22"
				in.Argv = []string{"gensign", "-c", "/usr/bin/gensign " + []string{"NONS", "NSOK"}[c.Rand.Intn(2)] + " Regular"}
			}
			env := map[string]string{"SSH_ORIGINAL_COMMAND": in.Cmd, "LOGNAME": in.LogName, "SSH_CONNECTION": in.Conn}
			if c.Rand.Intn(2) == 0 {
				in.Other = map[string]string{"USER": []string{"root", "alice", "nobody", gen.NonEmptyStr(c.Rand, 8)}[c.Rand.Intn(4)], "HOME": "/home/x", "SHELL": "/bin/sh", "SSH_CLIENT": "203.0.113.9 4444 22", "LOGNAME_": "root", "SUDO_USER": "root"}
				for k, v := range in.Other {
					env[k] = v
				}
			}
			r.Eval(1)
			evalOnce := func() string {
				q, e := csr.NewReqParam(func(k string) string { return env[k] }, func() []string { return in.Argv })
				if e != nil || q == nil {
					return "error"
				}
				aj, _ := json.Marshal(q.Attrs)
				return fmt.Sprintf("%s|%s|%s|%s|%s|%s|%v|%s", q.LogName, q.ClientIP, q.NamespacePolicy, q.HandlerName, q.ReqUser, q.ReqHost, q.SSHClientVersion, aj)
			}
			var p *csr.ReqParam
			var err error
			if r.Guard(c, "NewReqParam", in, func() {
				p, err = csr.NewReqParam(func(k string) string { return env[k] }, func() []string { return in.Argv })
			}) {
				continue
			}
			ring.Add(r, c, evalOnce, func() string {
				if err != nil || p == nil {
					return "error"
				}
				aj, _ := json.Marshal(p.Attrs)
				return fmt.Sprintf("%s|%s|%s|%s|%s|%s|%v|%s", p.LogName, p.ClientIP, p.NamespacePolicy, p.HandlerName, p.ReqUser, p.ReqHost, p.SSHClientVersion, aj)
			}(), fmt.Sprintf("%+v", in))
			if err != nil {
				r.Count("refused ("+shape+")", 1)
				if p != nil {
					r.Violation(c, "error-with-params", fmt.Sprintf("%+v", in), in)
				}
				continue
			}
			r.Count("accepted ("+shape+")", 1)
			if p == nil {
				r.Violation(c, "nil-params-without-error", fmt.Sprintf("%+v", in), in)
				continue
			}
			bad := func(sig, detail string) {
				r.Violation(c, sig+":"+shape, detail+fmt.Sprintf("\ninput=%+v\nparam=%+v attrs=%+v", in, *p, p.Attrs), in)
			}
			if in.LogName == "" || p.LogName != in.LogName {
				bad("logname-not-server-side", fmt.Sprintf("LogName=%q LOGNAME=%q", p.LogName, in.LogName))
			}
			first := strings.Split(in.Conn, " ")[0]
			if p.ClientIP != first || net.ParseIP(p.ClientIP) == nil {
				bad("client-ip", fmt.Sprintf("ClientIP=%q first field=%q", p.ClientIP, first))
			}
			var toks []string
			for _, a := range in.Argv {
				toks = append(toks, strings.Split(a, " ")...)
			}
			if pol := string(p.NamespacePolicy); (pol != "NONS" && pol != "NSOK") || len(toks) < 2 || toks[len(toks)-2] != pol {
				bad("namespace-policy", fmt.Sprintf("policy=%q tokens=%q", p.NamespacePolicy, toks))
			}
			if !transRE.MatchString(p.TransID) {
				bad("transid-format", fmt.Sprintf("TransID=%q", p.TransID))
			}
			if _, isClients := dictated.Load(p.TransID); isClients {
				bad("transid-dictated-by-client", fmt.Sprintf("TransID=%q is a value the client's message carried", p.TransID))
			}
			user, host, ver, isJSON, ok := msgref.Declared(in.Cmd)
			if !ok {
				bad("accepted-undecodable-command", "neither reference decoder accepts the text")
			} else {
				if p.ReqUser != user || p.ReqHost != host {
					bad("client-claims-not-verbatim", fmt.Sprintf("ReqUser=%q ReqHost=%q declared %q %q", p.ReqUser, p.ReqHost, user, host))
				}
				wantVer := "0.0"
				if ver != "" || isJSON {
					wantVer = canonVer(ver)
				}
				if wantVer == "" || p.SSHClientVersion.Marshal() != wantVer {
					bad("client-version", fmt.Sprintf("SSHClientVersion=%s declared %q (canonical %q)", p.SSHClientVersion.Marshal(), ver, wantVer))
				}
				if p.Attrs == nil {
					bad("nil-attrs", "")
				}
			}
			// freshness
			if p.TransID == lastID {
				bad("transid-repeated-consecutively", p.TransID)
			}
			lastID = p.TransID
			window[p.TransID]++
			if window[p.TransID] == 2 {
				dups++
				if dups > 1 {
					bad("transid-duplicates", fmt.Sprintf("%d duplicated ids within one window", dups))
				}
			}
			if len(window) >= 5000 {
				window = map[string]int{}
				dups = 0
			}
			r.Nontrivial(fmt.Sprintf("%+v", in))
			if r.Counter("samples") < 6 {
				r.Count("samples", 1)
				r.Sample(map[string]any{"input": in, "result": map[string]any{"LogName": p.LogName, "ClientIP": p.ClientIP, "Policy": p.NamespacePolicy, "ReqUser": p.ReqUser, "ReqHost": p.ReqHost, "TransID": p.TransID, "Version": p.SSHClientVersion.Marshal()}})
			}
		}
		if r.Replay == nil {
			ring.Stress(r, r.CaseAlways("stress", 0), 8, 2)
		}
		entropyOutage(r)
		seededPRNG(r)
		r.Floor(int64(r.Pick(20000, 1000000)), 1000)
	})
}

// outageReader stands in for crypto/rand.Reader and fails while down is set.
type outageReader struct {
	inner io.Reader
	down  bool
}

func (o *outageReader) Read(p []byte) (int, error) {
	if o.down {
		return 0, errors.New("scripted entropy outage")
	}
	return o.inner.Read(p)
}

// entropyOutage: 900 requests in a row; while requests 250..399 are handled (longer than any plausible batch of pre-fetched entropy lasts) the process entropy source is down. What
// those requests get is not judged; every other request gets a well-formed transaction id, and no id is ever handed
// out twice — before, across or after the outage. Runs alone (the source is process-wide).
func entropyOutage(r *ev.Run) {
	c := r.Case("entropy-outage", 0)
	if c == nil {
		return
	}
	orig := crand.Reader
	o := &outageReader{inner: orig}
	crand.Reader = o
	defer func() { crand.Reader = orig }()
	env := map[string]string{"SSH_ORIGINAL_COMMAND": `{"username":"u","hostname":"h","sshClientVersion":"8.1","ifVer":7}`, "LOGNAME": "alice", "SSH_CONNECTION": "10.0.0.1 1234 10.0.0.2 22"}
	argv := []string{"gensign", "Regular", "NONS", "x"}
	seen := map[string]int{}
	judged := 0
	for i := 0; i < 900; i++ {
		o.down = i >= 250 && i < 400
		var p *csr.ReqParam
		var err error
		r.Eval(1)
		if r.Guard(c, "NewReqParam", map[string]any{"request": i, "entropy_source_down": o.down}, func() {
			p, err = csr.NewReqParam(func(k string) string { return env[k] }, func() []string { return argv })
		}) {
			return
		}
		if err != nil || p == nil || (o.down && p.TransID == "") {
			continue // while the source is down a request may be refused or go without an id; an id that IS handed out is judged
		}
		if !transRE.MatchString(p.TransID) {
			r.Violation(c, "transid-format:after-entropy-outage", fmt.Sprintf("request %d: TransID=%q", i, p.TransID), map[string]any{"request": i})
			return
		}
		if first, dup := seen[p.TransID]; dup {
			r.Violation(c, "transid-repeated:entropy-outage", fmt.Sprintf("request %d got transaction id %s, which request %d had been given (the entropy source was down during requests 250..399)", i, p.TransID, first), map[string]any{"request": i, "first": first})
			return
		}
		seen[p.TransID] = i
		judged++
	}
	if judged < 700 {
		r.Inconclusive(fmt.Sprintf("entropy-outage: only %d of 900 requests were accepted", judged))
		return
	}
	r.Count("requests around an entropy outage with fresh transaction ids", judged)
	r.Nontrivial("entropy-outage")
}

// canonVer returns "maj.min" with both parts as uint16 decimal numbers, or "" if
// the declared text is not of that form (then success is a violation).
func canonVer(v string) string {
	if !verRE.MatchString(v) {
		return ""
	}
	i := strings.Index(v, ".")
	a, e1 := strconv.ParseUint(v[:i], 10, 16)
	b, e2 := strconv.ParseUint(v[i+1:], 10, 16)
	if e1 != nil || e2 != nil {
		return ""
	}
	return fmt.Sprintf("%d.%d", a, b)
}

// seededPRNG: something in the process seeds the general-purpose generator (math/rand) with a value that repeats —
// the classic rand.Seed(time.Now().Unix()) of a dependency. Transaction ids do not come from there: the ids handed out
// after equal seeds differ, and none repeats an earlier one.
func seededPRNG(r *ev.Run) {
	c := r.Case("seeded-prng", 0)
	if c == nil {
		return
	}
	env := map[string]string{"SSH_ORIGINAL_COMMAND": `{"username":"u","hostname":"h","sshClientVersion":"8.1","ifVer":7}`, "LOGNAME": "alice", "SSH_CONNECTION": "10.0.0.1 1234 10.0.0.2 22"}
	seen := map[string]int{}
	for round := 0; round < 40; round++ {
		mrand.Seed(int64(4711 + round%2)) //nolint:staticcheck // the deprecated call is the point
		r.Eval(1)
		var p *csr.ReqParam
		var err error
		if r.Guard(c, "NewReqParam", round, func() {
			p, err = csr.NewReqParam(func(k string) string { return env[k] }, func() []string { return []string{"gensign", "-c", "/usr/bin/gensign NONS Regular"} })
		}) {
			return
		}
		if err != nil || p == nil {
			r.Violation(c, "request-refused-without-reason:seeded-prng", fmt.Sprint(err), nil)
			return
		}
		if prev, dup := seen[p.TransID]; dup {
			r.Violation(c, "transid-repeats-after-the-general-purpose-generator-was-seeded", fmt.Sprintf("math/rand was seeded with %d before requests %d and %d: both got transaction id %s", 4711+round%2, prev, round, p.TransID), nil)
			return
		}
		seen[p.TransID] = round
	}
	r.Count("transaction ids drawn right after math/rand was seeded with a repeating value: all distinct", len(seen))
	r.Nontrivial("seeded-prng")
}
