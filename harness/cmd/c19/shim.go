package main

import "github.com/theparanoids/ysshra/verifharness/lib/ev"

// shimListing checks the comments attached by the shim agent's listing (filled in once lib/wire exists).
var shimListing = func(r *ev.Run) {}
