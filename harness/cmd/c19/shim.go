package main

import (
	"fmt"
	"strings"
	"time"

	"golang.org/x/crypto/ssh/agent"

	"github.com/theparanoids/ysshra/agent/shimagent"
	"github.com/theparanoids/ysshra/verifharness/lib/ev"
	"github.com/theparanoids/ysshra/verifharness/lib/gen"
	"github.com/theparanoids/ysshra/verifharness/lib/wire"
)

// shimListing checks the comments attached by the shim agent's listing: for a
// certificate of a known type the comment starts with the label (type name,
// "SSH-", transaction id), followed by "-<original comment>" if there is one; a
// certificate of the unknown type keeps its comment.
func shimListing(r *ev.Run) {
	if !r.Want("shimlist") {
		return
	}
	gen.Pool()
	now := uint64(time.Now().Unix())
	idx := 0
	for fl := 0; fl < 16; fl++ {
		for _, tp := range []int{0, 1, 2, 3, 4} {
			for opt := 0; opt < 4; opt++ {
				a := attrs{FF: fl&1 != 0, HW: fl&2 != 0, Headless: fl&4 != 0, Nonce: fl&8 != 0, Touch: tp, Opt: opt}
				c := r.Case("shimlist", idx)
				idx++
				if c == nil {
					continue
				}
				if _, hung := r.GuardWithin(c, "shim listing", a, ev.CaseBudget(), func() {
					ag := wire.New()
					defer ag.Close()
					sock, _ := ag.Listen()
					s, err := shimagent.New(shimagent.Option{Address: sock})
					if err != nil {
						r.Violation(c, "shim-construction-fails", err.Error(), a)
						return
					}
					defer s.Close()
					want := refType(a)
					for _, viaHard := range []bool{false, true} {
						k := gen.PickKey(c.Rand)
						transID := gen.Ident(c.Rand, 10)
						comment := []string{"", "laptop", "a-b c"}[c.Rand.Intn(3)]
						tmpl := mkCert(a, transID, []string{"u"}, "u")
						cert := gen.MakeCert(gen.CertSpec{Key: k, KeyID: tmpl.KeyId, ValidAfter: now - 100, ValidBefore: now + 1000, CritOpts: tmpl.CriticalOptions, Serial: uint64(c.Rand.Int63())})
						ag.Keyring.RemoveAll()
						s.RemoveAll()
						if viaHard {
							ag.Keyring.Add(agent.AddedKey{PrivateKey: k.Priv, Comment: "plain"})
							if err := s.AddHardCert(cert, comment); err != nil {
								r.Violation(c, "add-hard-cert-fails", err.Error(), a)
								return
							}
						} else {
							ag.Keyring.Add(agent.AddedKey{PrivateKey: k.Priv, Certificate: cert, Comment: comment})
						}
						r.Eval(1)
						keys, err := s.List()
						if err != nil {
							r.Violation(c, "list-fails", err.Error(), a)
							return
						}
						found := false
						for _, lk := range keys {
							if string(lk.Blob) != string(cert.Marshal()) {
								continue
							}
							found = true
							exp := comment
							if want != tUnknown {
								exp = refName[want] + "SSH-" + transID
								if comment != "" {
									exp += "-" + comment
								}
							}
							if lk.Comment != exp {
								r.Violation(c, fmt.Sprintf("listing-comment-mismatch:hard=%v:type=%s", viaHard, refName[want]), fmt.Sprintf("comment %q, expected %q for %+v", lk.Comment, exp, a), a)
								return
							}
							if want != tUnknown && !strings.HasPrefix(lk.Comment, refName[want]+"SSH-"+transID) {
								r.Violation(c, "listing-comment-lacks-label", lk.Comment, a)
								return
							}
						}
						if !found {
							r.Violation(c, "certificate-not-listed", fmt.Sprintf("%+v hard=%v", a, viaHard), a)
							return
						}
						r.Count("shim listing comments checked", 1)
					}
					r.Nontrivial(fmt.Sprintf("shimlist:%+v", a))
				}); hung {
					r.Unfinished("shim listing")
					return
				}
			}
		}
	}
}
