// C19 — certificate type, label and principal suffix are a fixed total function of the KeyID.
package main

import (
	"encoding/json"
	"fmt"
	"hash/fnv"
	"reflect"
	"strings"
	"sync"
	"sync/atomic"
	"time"

	"golang.org/x/crypto/ssh"

	certutil "github.com/theparanoids/ysshra/sshutils/cert"
	"github.com/theparanoids/ysshra/verifharness/lib/ev"
	"github.com/theparanoids/ysshra/verifharness/lib/gen"
)

// Reference names, pinned here (not read from the package under test).
const (
	tUnknown = iota
	tTouchSudo
	tTouchless
	tTouchlessSudo
	tFirefighter
	tNonce
	_
	tTouchlessInAgent
	tTouchlessSudoInAgent
)

var refName = map[int]string{
	tTouchSudo: "TouchSudo", tTouchless: "Touchless", tTouchlessSudo: "TouchlessSudo", tFirefighter: "FireFighterSudo",
	tNonce: "Nonce", tTouchlessInAgent: "TouchlessInAgent", tTouchlessSudoInAgent: "TouchlessSudoInAgent",
}

const optName = "touchless-sudo-hosts"

type attrs struct {
	FF, HW, Headless, Nonce bool
	Touch                   int
	Usage                   int
	Opt                     int // 0 nil map, 1 empty map, 2 present but empty, 3 set, 4 other option only, 5..7 set to a non-empty value that names no host (separators, blanks, a NUL)
}

func consistent(a attrs) bool {
	never := a.Touch == 1
	if a.Headless && (a.HW || a.FF || !never) {
		return false
	}
	if a.Nonce && (a.FF || a.Headless || !never) {
		return false
	}
	return true
}

func optSet(a attrs) bool { return a.Opt == 3 || a.Opt >= 5 }

// refType is the rule table transcribed from the type documentation / statement.
func refType(a attrs) int {
	if !consistent(a) {
		return tUnknown
	}
	switch {
	case a.Nonce:
		return tNonce
	case a.FF && a.HW:
		return tFirefighter
	case a.FF:
		if optSet(a) {
			return tTouchlessSudoInAgent
		}
		return tTouchlessInAgent
	case a.Touch == 2 || a.Touch == 3:
		return tTouchSudo
	case a.Touch == 1:
		if optSet(a) {
			return tTouchlessSudo
		}
		return tTouchless
	}
	return tUnknown
}

func refPrincipals(p []string, t int) []string {
	switch t {
	case tUnknown:
		return nil
	case tTouchSudo:
		return suffix(p, ":touch")
	case tTouchless, tTouchlessSudo:
		return suffix(p, ":notouch")
	}
	return p
}

func suffix(p []string, s string) []string {
	var out []string
	for _, x := range p {
		out = append(out, x+s)
	}
	return out
}

func mkCert(a attrs, transID string, prins []string, reqUser string) *ssh.Certificate {
	// the KeyID text is written out by the harness itself (not through the codec's own types, whose widths are part of what is being checked)
	pj, _ := json.Marshal(prins)
	tj, _ := json.Marshal(transID)
	uj, _ := json.Marshal(reqUser)
	// every third KeyID also carries members this release does not know (as "usage" once was unknown to older ones)
	extra := ""
	if (a.Touch+a.Opt+a.Usage+len(prins))%3 == 0 {
		extra = `,"issuedBy":"ca-7","attrs":{"x":[1,2,{"ver":2}]},"isFuture":true`
	}
	b := []byte(fmt.Sprintf(`{"prins":%s,"transID":%s,"reqUser":%s,"reqIP":"10.1.2.3","reqHost":"h","isFirefighter":%v,"isHWKey":%v,"isHeadless":%v,"isNonce":%v,"usage":%d,"touchPolicy":%d,"ver":1%s}`,
		pj, tj, uj, a.FF, a.HW, a.Headless, a.Nonce, a.Usage, a.Touch, extra))
	// JSON white space around the object is part of a JSON text (a KeyID that went through a tool which appends a line feed)
	switch (a.Touch + 2*a.Opt + 3*a.Usage + len(transID)) % 7 {
	case 0:
		b = append(b, '\n')
	case 1:
		b = append([]byte(" "), append(b, '\r', '\n')...)
	case 2:
		b = append([]byte("\t"), b...)
	}
	c := &ssh.Certificate{KeyId: string(b), ValidPrincipals: prins}
	// everything else about the certificate is irrelevant to its type, label and principals: varied
	// (determined by the KeyID text, so that a case replays identically)
	h := fnv.New32a()
	h.Write(b)
	v := h.Sum32()
	c.CertType = []uint32{0, ssh.UserCert, ssh.HostCert, ssh.UserCert, 7}[v%5]
	c.Serial = uint64(v) * 2654435761
	c.ValidAfter, c.ValidBefore = [][2]uint64{{0, 0}, {0, ssh.CertTimeInfinity}, {1, 2}, {1 << 62, 1<<62 + 1}}[(v>>3)%4][0], [][2]uint64{{0, 0}, {0, ssh.CertTimeInfinity}, {1, 2}, {1 << 62, 1<<62 + 1}}[(v>>3)%4][1]
	if (v>>5)%2 == 0 {
		c.Key = gen.Pool()[int(v>>6)%len(gen.Pool())].Pub
	}
	if (v>>9)%2 == 0 {
		c.Extensions = map[string]string{"permit-pty": "", "touchless-sudo-hosts": "not-a-critical-option"}
	}
	switch a.Opt {
	case 1:
		c.CriticalOptions = map[string]string{}
	case 2:
		c.CriticalOptions = map[string]string{optName: ""}
	case 3:
		c.CriticalOptions = map[string]string{optName: "host1,host2"}
	case 4:
		c.CriticalOptions = map[string]string{"force-command": "x", "Touchless-Sudo-Hosts": "y"}
	case 5:
		c.CriticalOptions = map[string]string{optName: ", ,"}
	case 6:
		c.CriticalOptions = map[string]string{optName: " "}
	case 7:
		c.CriticalOptions = map[string]string{optName: "\x00"}
	}
	return c
}

func eqStrs(a, b []string) bool {
	if len(a) == 0 && len(b) == 0 {
		return (a == nil) == (b == nil) || true
	}
	return reflect.DeepEqual(a, b)
}

func main() {
	ev.MainIsolated("C19", "exploration", 60*time.Minute, func(r *ev.Run) {
		r.Rule("complete enumeration: 2^4 flags x touch policy {-1,0,1,2,3,4} x usage {0,1} x critical-option state {nil map, empty map, option present but empty, option set, only other options} = 960 attribute combinations, each with 3 principal lists/transaction ids; plus undecodable KeyIDs, nil certificate, the comments a real shim agent attaches when listing certificates of every attribute combination (held by the underlying agent and as in-memory hardware certificates), and metamorphic variants (only principals/transID/reqUser/usage/headless changed). distinct_nontrivial = distinct (attribute combination, derived type) pairs whose KeyID is consistent (reaches the rule table) plus distinct undecodable KeyIDs")
		r.Assume("type names and suffixes are pinned in the harness from the type documentation")
		r.Exhaustive(true)
		idx := 0
		ring := ev.NewRing("GetType/Label/GetPrincipals", r.Seed, 23)
		typesSeen := map[int]int{}
		for fl := 0; fl < 16; fl++ {
			for _, tp := range []int{-1, 0, 1, 2, 3, 4, 255, 256, -128, 65536, 1 << 40} {
				for us := 0; us < 2; us++ {
					for opt := 0; opt < 8; opt++ {
						a := attrs{FF: fl&1 != 0, HW: fl&2 != 0, Headless: fl&4 != 0, Nonce: fl&8 != 0, Touch: tp, Usage: us, Opt: opt}
						c := r.Case("table", idx)
						idx++
						if c == nil {
							continue
						}
						want := refType(a)
						typesSeen[want]++
						for rep := 0; rep < 3; rep++ {
							transID := gen.Ident(c.Rand, 10)
							if rep == 2 {
								transID = gen.Str(c.Rand, 12)
							}
							prins := gen.StrList(c.Rand, 5, 12)
							if rep == 1 && len(prins) > 0 {
								prins[0] = prins[0] + ":touch"
							}
							cert := mkCert(a, transID, prins, gen.Str(c.Rand, 8))
							rec := map[string]any{"attrs": a, "transID": transID, "principals": prins, "keyid": cert.KeyId}
							r.Eval(1)
							var got certutil.Type
							var label string
							var lerr error
							var gp []string
							if r.Guard(c, "GetType/Label/GetPrincipals", rec, func() {
								got = certutil.GetType(cert)
								label, lerr = certutil.Label(cert)
								gp = certutil.GetPrincipals(prins, got)
							}) {
								continue
							}
							// the three results are a function of the certificate alone: the same again later, and from several goroutines at once
							evalAll := func() string {
								return ev.Digest(func() string {
									g := certutil.GetType(cert)
									l, e := certutil.Label(cert)
									return fmt.Sprintf("%d|%q|%v|%q", g, l, e != nil, certutil.GetPrincipals(append([]string(nil), prins...), g))
								})
							}
							ring.Add(r, c, evalAll, fmt.Sprintf("%d|%q|%v|%q", got, label, lerr != nil, gp), cert.KeyId)
							sigA := fmt.Sprintf("ff=%v,hw=%v,hl=%v,n=%v,tp=%d,opt=%d", a.FF, a.HW, a.Headless, a.Nonce, a.Touch, a.Opt)
							if int(got) != want {
								r.Violation(c, "type-mismatch:"+sigA, fmt.Sprintf("GetType=%d(%s) want %d(%s) for %+v", got, got, want, refName[want], a), rec)
								continue
							}
							if consistent(a) {
								r.Nontrivial(fmt.Sprintf("%s->%d", sigA, want))
							}
							if want == tUnknown {
								if lerr == nil || label != "" {
									r.Violation(c, "unknown-type-has-label:"+sigA, fmt.Sprintf("label=%q err=%v", label, lerr), rec)
								}
								if gp != nil {
									r.Violation(c, "unknown-type-has-principals:"+sigA, fmt.Sprintf("principals=%q", gp), rec)
								}
								r.Count("unknown type (no label, no principals)", 1)
								continue
							}
							wl := refName[want] + "SSH-" + transID
							if lerr != nil || label != wl {
								r.Violation(c, "label-mismatch:"+refName[want], fmt.Sprintf("label=%q err=%v want %q", label, lerr, wl), rec)
							}
							if got.String() != refName[want] {
								r.Violation(c, "type-name-mismatch:"+refName[want], fmt.Sprintf("String()=%q", got.String()), rec)
							}
							wp := refPrincipals(prins, want)
							if !(len(gp) == 0 && len(wp) == 0) && !reflect.DeepEqual(gp, wp) {
								r.Violation(c, "principals-mismatch:"+refName[want], fmt.Sprintf("got %q want %q", gp, wp), rec)
							}
							r.Count("type "+refName[want], 1)
							// metamorphic: only principals / transID / reqUser / usage changed -> same type
							a2 := a
							a2.Usage = 1 - a.Usage
							c2 := mkCert(a2, gen.Str(c.Rand, 10), gen.StrList(c.Rand, 3, 8), gen.Str(c.Rand, 20))
							r.Eval(1)
							if g2 := certutil.GetType(c2); g2 != got {
								r.Violation(c, "type-depends-on-irrelevant-field:"+sigA, fmt.Sprintf("type %d vs %d after changing only principals/transID/reqUser/usage", got, g2), rec)
							}
							// headless flipped where still consistent: same type
							a3 := a
							a3.Headless = !a.Headless
							if consistent(a3) {
								r.Eval(1)
								if g3 := certutil.GetType(mkCert(a3, transID, prins, "u")); g3 != got {
									r.Violation(c, "type-depends-on-headless:"+sigA, fmt.Sprintf("type %d vs %d", got, g3), rec)
								}
								r.Count("headless metamorphic pairs", 1)
							}
							if rep == 0 && idx%61 == 0 {
								r.Sample(map[string]any{"attrs": a, "type": refName[want], "label": label, "principals_in": prins, "principals_out": gp})
							}
						}
					}
				}
			}
		}
		r.Extra("table_size", idx)
		if r.Replay == nil {
			ring.Stress(r, r.CaseAlways("stress", 0), 8, 3)
		}
		ts := map[string]int{}
		for k, v := range typesSeen {
			n := refName[k]
			if k == tUnknown {
				n = "unknown"
			}
			ts[n] = v
		}
		r.Extra("reference_types_over_table", ts)
		// precedence clauses, stated independently of the table: nonce and firefighter dominate touch policy
		if r.Want("precedence") {
			i := 0
			for _, tp := range []int{-1, 0, 1, 2, 3, 4} {
				for opt := 0; opt < 8; opt++ {
					for hw := 0; hw < 2; hw++ {
						c := r.Case("precedence", i)
						i++
						if c == nil {
							continue
						}
						a := attrs{FF: true, HW: hw == 1, Touch: tp, Opt: opt}
						r.Eval(1)
						g := int(certutil.GetType(mkCert(a, "t", []string{"p"}, "u")))
						okFF := (hw == 1 && g == tFirefighter) || (hw == 0 && (g == tTouchlessInAgent || g == tTouchlessSudoInAgent))
						if !okFF {
							r.Violation(c, fmt.Sprintf("firefighter-not-dominant:tp=%d,hw=%d", tp, hw), fmt.Sprintf("got type %d for %+v", g, a), a)
						}
						r.Count("firefighter-over-touch-policy checks", 1)
					}
				}
			}
			for opt := 0; opt < 8; opt++ {
				for hw := 0; hw < 2; hw++ {
					c := r.Case("precedence", i)
					i++
					if c == nil {
						continue
					}
					a := attrs{Nonce: true, HW: hw == 1, Touch: 1, Opt: opt}
					r.Eval(1)
					if g := int(certutil.GetType(mkCert(a, "t", []string{"p"}, "u"))); g != tNonce {
						r.Violation(c, "nonce-not-dominant", fmt.Sprintf("got type %d for %+v", g, a), a)
					}
				}
			}
		}
		// the same KeyID text under different critical options (and back): the derived type must follow the option every
		// time, whatever was derived for that KeyID before
		if r.Want("same-keyid") {
			i := 0
			for fl := 0; fl < 16; fl++ {
				for _, tp := range []int{0, 1, 2, 3} {
					c := r.Case("same-keyid", i)
					i++
					if c == nil {
						continue
					}
					base := attrs{FF: fl&1 != 0, HW: fl&2 != 0, Headless: fl&4 != 0, Nonce: fl&8 != 0, Touch: tp}
					transID := gen.Ident(c.Rand, 10)
					for _, opt := range []int{3, 0, 3, 2, 1, 3, 4, 0} {
						a := base
						a.Opt = opt
						cert := mkCert(a, transID, []string{"p"}, "u")
						r.Eval(1)
						if g := int(certutil.GetType(cert)); g != refType(a) {
							r.Violation(c, fmt.Sprintf("type-depends-on-earlier-derivation:opt=%d", opt), fmt.Sprintf("same KeyID %q, option state %d: type %d, expected %d", cert.KeyId, opt, g, refType(a)), a)
							break
						}
						if l, err := certutil.Label(cert); (err == nil) != (refType(a) != tUnknown) || (err == nil && l != refName[refType(a)]+"SSH-"+transID) {
							r.Violation(c, "label-depends-on-earlier-derivation", fmt.Sprintf("label %q err=%v", l, err), a)
							break
						}
					}
					r.Count("same-KeyID option sequences", 1)
				}
			}
		}
		// undecodable KeyIDs and nil certificate
		if r.Want("undecodable") {
			bad := []string{"", "bad keyID", "null", "{}", "[]", `{"ver":1}`, `{"prins":["a"],"transID":"t","reqUser":"u","reqIP":"i","reqHost":"h","isFirefighter":false,"isHWKey":true,"isHeadless":false,"isNonce":false,"touchPolicy":1,"ver":2}`,
				`{"prins":["a"],"transID":"t","reqUser":"u","reqIP":"i","reqHost":"h","isFirefighter":false,"isHWKey":true,"isHeadless":false,"isNonce":false,"touchPolicy":1}`,
				`{"prins":["a"],"transID":"t","reqUser":"u","reqIP":"i","reqHost":"h","isFirefighter":false,"isHWKey":true,"isHeadless":false,"touchPolicy":1,"ver":1}`,
				`{"prins":["a"],"transID":"t","reqUser":"u","reqIP":"i","reqHost":"h","isFirefighter":"no","isHWKey":true,"isHeadless":false,"isNonce":false,"touchPolicy":1,"ver":1}`,
				`{"prins":["a"],"transID":"t","reqUser":"u","reqIP":"i","reqHost":"h","isFirefighter":false,"isHWKey":true,"isHeadless":false,"isNonce":false,"touchPolicy":1,"ver":null}`,
				`{"prins":["a"],"transID":"t","reqUser":"u","reqIP":"i","reqHost":"h","isFirefighter":true,"isHWKey":true,"isHeadless":false,"isNonce":false,"touchPolicy":3,"ver":null}`,
				`{"prins":["a"],"transID":"t","reqUser":"u","reqIP":"i","reqHost":"h","isFirefighter":false,"isHWKey":true,"isHeadless":false,"isNonce":true,"touchPolicy":1,"ver":"1"}`,
				"user@host", "\x00\xff", `{"prins":["a"],"transID":"t"`}
			// derived from a KeyID that does decode (and selects the touchless type): text after or before it, every
			// required member removed in turn, or moved into a member the decoder ignores
			good := `{"prins":["a"],"transID":"t","reqUser":"u","reqIP":"i","reqHost":"h","isFirefighter":false,"isHWKey":true,"isHeadless":false,"isNonce":false,"touchPolicy":1,"ver":1}`
			for _, v := range []string{"65537", "131073", "-65535", "4294967297", "1.0e0", "1e0"} {
				bad = append(bad, strings.Replace(good, `"ver":1`, `"ver":`+v, 1))
			}
			// member names are exact: a required member spelt in another case is a missing member
			for _, ren := range [][2]string{{`"touchPolicy"`, `"TOUCHPOLICY"`}, {`"isNonce"`, `"IsNonce"`}, {`"transID"`, `"transid"`}, {`"ver"`, `"VER"`}, {`"prins"`, `"Prins"`}, {`"isHWKey"`, `"ishwkey"`}, {`"reqIP"`, `"reqIp"`}} {
				bad = append(bad, strings.Replace(good, ren[0], ren[1], 1))
			}
			for _, tail := range []string{"x", "}", good, " trailing", "\n[]", ",", "\x00"} {
				bad = append(bad, good+tail)
			}
			bad = append(bad, "x"+good, "[]"+good, "["+good+"]", `"`+strings.ReplaceAll(good, `"`, `\"`)+`"`)
			for _, member := range []string{`"prins":["a"],`, `"transID":"t",`, `"reqUser":"u",`, `"reqIP":"i",`, `"reqHost":"h",`, `"isFirefighter":false,`, `"isHWKey":true,`, `"isHeadless":false,`, `"isNonce":false,`, `"touchPolicy":1,`} {
				without := strings.Replace(good, member, "", 1)
				bad = append(bad, without, strings.Replace(without, `"ver":1`, `"ver":1,"ext":{`+strings.TrimSuffix(member, ",")+`}`, 1))
			}
			for i, kid := range bad {
				c := r.Case("undecodable", i)
				if c == nil {
					continue
				}
				for opt := 0; opt < 4; opt++ {
					cert := &ssh.Certificate{KeyId: kid}
					if opt == 3 {
						cert.CriticalOptions = map[string]string{optName: "h"}
					}
					r.Eval(1)
					r.Guard(c, "GetType/Label", kid, func() {
						g := certutil.GetType(cert)
						l, err := certutil.Label(cert)
						gp := certutil.GetPrincipals([]string{"a", "b"}, g)
						if g != 0 || err == nil || l != "" || gp != nil {
							r.Violation(c, "undecodable-keyid-not-unknown", fmt.Sprintf("keyid=%q type=%d label=%q err=%v principals=%q", kid, g, l, err, gp), kid)
						}
					})
				}
				r.Nontrivial("undecodable:" + kid)
				r.Count("undecodable KeyIDs", 1)
			}
			if c := r.Case("nilcert", 0); c != nil {
				r.Eval(1)
				r.Guard(c, "GetType(nil)", "nil", func() {
					g := certutil.GetType(nil)
					l, err := certutil.Label(nil)
					if g != 0 || err == nil || l != "" {
						r.Violation(c, "nil-cert-not-unknown", fmt.Sprintf("type=%d label=%q err=%v", g, l, err), nil)
					}
				})
				r.Count("nil certificate", 1)
			}
		}
		population(r)
		shimListing(r)
		r.Floor(2000, 100)
	})
}

// population: a long-running process derives the type of a great many distinct certificates. Every one of them must
// get the type its own attributes select, whatever was derived before (a function of the KeyID has no memory).
// Several workers share the work, as the connections of a shim agent do.
func population(r *ev.Run) {
	c := r.Case("population", 0)
	if c == nil {
		return
	}
	n := r.Pick(320000, 3000000)
	salt := c.Rand.Uint32()
	shapes := []attrs{
		{HW: true, Touch: 3}, {HW: true, Touch: 1}, {HW: true, Touch: 1, Opt: 3}, {FF: true, HW: true, Touch: 3},
		{FF: true, Touch: 0}, {FF: true, Touch: 0, Opt: 3}, {Nonce: true, HW: true, Touch: 1}, {Touch: 0}, {Headless: true, Touch: 1}, {HW: true, Touch: 2},
	}
	workers := 8
	var wg sync.WaitGroup
	var bad atomic.Int64
	for w := 0; w < workers; w++ {
		wg.Add(1)
		go func(w int) {
			defer wg.Done()
			for i := w; i < n; i += workers {
				a := shapes[(uint32(i)*2654435761>>7)%uint32(len(shapes))]
				tid := fmt.Sprintf("%08x", uint32(i)*2246822519+salt)
				kid := fmt.Sprintf(`{"prins":["u"],"transID":"%s","reqUser":"u","reqIP":"10.1.2.3","reqHost":"h","isFirefighter":%v,"isHWKey":%v,"isHeadless":%v,"isNonce":%v,"touchPolicy":%d,"ver":1}`, tid, a.FF, a.HW, a.Headless, a.Nonce, a.Touch)
				cert := &ssh.Certificate{KeyId: kid}
				if a.Opt == 3 {
					cert.CriticalOptions = map[string]string{optName: "host1"}
				}
				want := refType(a)
				g := int(certutil.GetType(cert))
				ok := g == want
				if ok && i%16 == 0 {
					l, err := certutil.Label(cert)
					ok = (err == nil) == (want != tUnknown) && (err != nil || l == refName[want]+"SSH-"+tid)
				}
				if !ok && bad.Add(1) <= 3 {
					r.Violation(c, "type-depends-on-earlier-derivations", fmt.Sprintf("certificate %d of a population of %d distinct KeyIDs: %q derived type %d, expected %d", i, n, kid, g, want), a)
				}
			}
		}(w)
	}
	wg.Wait()
	r.Eval(n)
	r.Count("distinct KeyIDs typed in one process (population)", n)
	r.Nontrivial(fmt.Sprintf("population:%d", n))
}
