// C12 — the agent server survives any byte stream and answers each request once.
package main

import (
	"bytes"
	"crypto/ed25519"
	crand "crypto/rand"
	"encoding/binary"
	"encoding/hex"
	"fmt"
	"io"
	"math/big"
	"net"
	"runtime"
	"runtime/debug"
	"strings"
	"sync"
	"sync/atomic"
	"time"

	"golang.org/x/crypto/ssh"
	"golang.org/x/crypto/ssh/agent"

	"github.com/theparanoids/ysshra/agent/yubiagent"
	"github.com/theparanoids/ysshra/verifharness/lib/ev"
	"github.com/theparanoids/ysshra/verifharness/lib/frames"
	"github.com/theparanoids/ysshra/verifharness/lib/gen"
	"github.com/theparanoids/ysshra/verifharness/lib/wire"
)

const maxFrame = 16 << 20

// piece is one element of a generated stream.
type piece struct {
	raw   []byte // bytes put on the wire (with length prefix)
	f     *frames.Frame
	class string // wellformed | empty | oversized | truncated | malformed
	note  string
}

type streamRec struct {
	Pieces     []string `json:"pieces"`
	Hex        string   `json:"stream_hex"`
	Fragmented bool     `json:"fragmented_delivery"`
}

type result struct {
	responses [][]byte
	tail      []byte // bytes after the last complete response frame
	err       error
	panicked  string
	hung      bool
	events    []wire.Event
}

// longStream: one connection that stays open sends 40 relayed requests of 2 MiB each, one after the other. What the
// process holds on to while serving it is bounded by the frame in hand (and its reply), not by how many frames came
// before: after 30 frames and a collection the live heap has not grown by tens of megabytes. Runs alone.
func longStream(r *ev.Run) {
	c := r.Case("long-stream", 0)
	if c == nil {
		return
	}
	r.Eval(1)
	r.Guard(c, "long stream", nil, func() {
		ag := wire.New()
		defer ag.Close()
		sock, err := ag.Listen()
		if err != nil {
			r.Inconclusive(err.Error())
			return
		}
		srv, err := yubiagent.NewServer(sock, true)
		if err != nil {
			r.Inconclusive(err.Error())
			return
		}
		defer srv.Close()
		c1, c2, err := wire.SocketPair()
		if err != nil {
			r.Inconclusive(err.Error())
			return
		}
		defer c1.Close()
		go func() { defer c2.Close(); defer func() { recover() }(); yubiagent.ServeAgent(srv, c2) }()
		var ms runtime.MemStats
		runtime.GC()
		runtime.ReadMemStats(&ms)
		base := ms.HeapAlloc
		body := append([]byte{200}, bytes.Repeat([]byte{0x5a}, 2<<20)...)
		frame := wire.Frame(body)
		var grown uint64
		for i := 0; i < 40; i++ {
			done := make(chan error, 1)
			go func() {
				if _, err := c1.Write(frame); err != nil {
					done <- err
					return
				}
				_, err := wire.ReadFrame(c1)
				done <- err
			}()
			select {
			case err := <-done:
				if err != nil {
					r.Violation(c, "well-formed-request-not-answered:long-stream", fmt.Sprintf("frame %d of 40: %v", i, err), nil)
					return
				}
			case <-time.After(ev.OpTimeout()):
				r.Violation(c, "serving-never-ends:long-stream", fmt.Sprintf("frame %d of 40 was not answered", i), nil)
				return
			}
			ag.ResetLog() // the scripted agent's own event log would otherwise hold every frame
			if i == 30 {
				runtime.GC()
				runtime.ReadMemStats(&ms)
				if ms.HeapAlloc > base {
					grown = ms.HeapAlloc - base
				}
			}
		}
		if grown > 40<<20 {
			r.Violation(c, "memory-held-grows-with-the-number-of-frames", fmt.Sprintf("after 30 frames of 2 MiB on one connection (and a garbage collection) the live heap is %d MiB above where it started", grown>>20), map[string]any{"live_heap_growth_bytes": grown})
			return
		}
		// the same connection goes on with requests the standard agent protocol answers: what may be written back is
		// bounded per response, not per connection
		_, priv, _ := ed25519.GenerateKey(crand.Reader)
		if err := ag.Keyring.Add(agent.AddedKey{PrivateKey: priv, Comment: strings.Repeat("c", 1<<20)}); err != nil {
			r.Inconclusive("the scripted agent refuses an identity with a long comment: " + err.Error())
			return
		}
		for i := 0; i < 24; i++ {
			type rep struct {
				b   []byte
				err error
			}
			done := make(chan rep, 1)
			go func() {
				if _, err := c1.Write(wire.Frame([]byte{11})); err != nil {
					done <- rep{nil, err}
					return
				}
				b, err := wire.ReadFrame(c1)
				done <- rep{b, err}
			}()
			select {
			case p := <-done:
				if p.err != nil || len(p.b) < 1<<20 || p.b[0] != 12 {
					r.Violation(c, "well-formed-request-not-answered:long-stream:listing", fmt.Sprintf("listing %d of 24 on one connection (each reply a little over 1 MiB): err=%v, %d octets", i, p.err, len(p.b)), nil)
					return
				}
			case <-time.After(ev.OpTimeout()):
				r.Violation(c, "serving-never-ends:long-stream:listing", fmt.Sprintf("listing %d of 24 was not answered", i), nil)
				return
			}
			ag.ResetLog()
		}
		r.Count("listings of 1 MiB answered on the same connection after them", 24)
		r.Count("frames of 2 MiB served on one connection with a bounded live heap", 40)
		r.Extra("long_stream_live_heap_growth_bytes", grown)
		r.Nontrivial("long-stream")
	})
}

// upstreamHangsUp: the underlying agent reads a relayed request and closes the connection instead of answering.
var upstreamHangsUp atomic.Bool

// serve runs one stream through a fresh server.
func serve(stream []byte, frag bool, pokeCodes []byte, r *ev.Run, abrupt ...bool) *result {
	res := &result{}
	ag := wire.New()
	defer ag.Close()
	sock, err := ag.Listen()
	if err != nil {
		res.err = err
		return res
	}
	// the underlying agent answers requests it does not know (the relayed ones) with replies of every shape,
	// chosen by the request bytes so that a stream is reproducible: failure, empty frame, arbitrary bytes
	ag.SetPlan(func(_ int, req []byte) wire.Action {
		if len(req) == 0 {
			return wire.Action{Kind: wire.Honest}
		}
		switch req[0] {
		case 1, 11, 13, 17, 18, 19, 22, 23, 25, 27:
			return wire.Action{Kind: wire.Honest}
		}
		if upstreamHangsUp.Load() {
			return wire.Action{Kind: wire.Close}
		}
		h := 0
		for _, b := range req {
			h = h*131 + int(b)
		}
		switch (h & 0x7fffffff) % 4 {
		case 0:
			return wire.Action{Kind: wire.Custom, Reply: []byte{}}
		case 1:
			rep := make([]byte, 1+(h&0x3ff))
			for i := range rep {
				rep[i] = byte(h >> uint(i%24))
			}
			return wire.Action{Kind: wire.Custom, Reply: rep, Fragment: h&1 == 0}
		}
		return wire.Action{Kind: wire.Honest}
	})
	srv, err := yubiagent.NewServer(sock, true)
	if err != nil {
		res.panicked = "server construction: " + err.Error()
		return res
	}
	defer srv.Close()
	c1, c2, err := wire.SocketPair()
	if err != nil {
		res.err = err
		return res
	}
	defer c1.Close()
	done := make(chan struct{})
	go func() {
		defer close(done)
		defer c2.Close()
		defer func() {
			if p := recover(); p != nil {
				res.panicked = fmt.Sprintf("panic: %v\n%s", p, debug.Stack())
			}
		}()
		res.err = yubiagent.ServeAgent(srv, c2)
	}()
	var out bytes.Buffer
	rd := make(chan struct{})
	go func() { defer close(rd); io.Copy(&out, c1) }()
	// poker: wakes wait frames of the stream
	stopPoke := make(chan struct{})
	var pw sync.WaitGroup
	if len(pokeCodes) > 0 {
		pw.Add(1)
		go func() {
			defer pw.Done()
			for {
				for _, code := range pokeCodes {
					select {
					case <-stopPoke:
						return
					default:
					}
					p1, p2, perr := wire.SocketPair()
					if perr != nil {
						return
					}
					sd := make(chan struct{})
					go func() {
						defer close(sd)
						defer p2.Close()
						defer func() { recover() }()
						yubiagent.ServeAgent(srv, p2)
					}()
					p1.Write(wire.Frame([]byte{code}))
					p1.SetReadDeadline(time.Now().Add(200 * time.Millisecond))
					wire.ReadFrame(p1)
					p1.Close()
					<-sd
				}
				select {
				case <-stopPoke:
					return
				case <-time.After(time.Millisecond):
				}
			}
		}()
	}
	// deliver
	if frag {
		for i := 0; i < len(stream); {
			n := 1 + (i*7+3)%5
			if i+n > len(stream) {
				n = len(stream) - i
			}
			if len(stream) > 4096 && i > 64 {
				n = len(stream) - i // only the head of large streams is delivered byte-wise
			}
			c1.Write(stream[i : i+n])
			i += n
			time.Sleep(40 * time.Microsecond)
		}
	} else {
		c1.Write(stream)
	}
	if len(abrupt) > 0 && abrupt[0] {
		// the peer vanishes without reading a single response: every reply write of the server fails
		c1.Close()
	} else {
		c1.(*net.UnixConn).CloseWrite()
	}
	select {
	case <-done:
	case <-time.After(ev.OpTimeout()):
		// ServeAgent did not return although the peer finished writing. Release a reader
		// that may be parked on a wait (poke every supported code), then give up on it.
		hung := true
		c1.Close()
		c2.Close()
		for code := 0; code < 40; code++ {
			p1, p2, perr := wire.SocketPair()
			if perr != nil {
				break
			}
			go func() { defer p2.Close(); defer func() { recover() }(); yubiagent.ServeAgent(srv, p2) }()
			p1.Write(wire.Frame([]byte{byte(code)}))
			p1.SetReadDeadline(time.Now().Add(100 * time.Millisecond))
			wire.ReadFrame(p1)
			p1.Close()
		}
		select {
		case <-done:
		case <-time.After(5 * time.Second):
		}
		close(stopPoke)
		return &result{hung: hung}
	}
	close(stopPoke)
	pw.Wait()
	<-rd
	b := out.Bytes()
	for len(b) >= 4 {
		n := int(binary.BigEndian.Uint32(b))
		if n > len(b)-4 {
			break
		}
		res.responses = append(res.responses, append([]byte{}, b[4:4+n]...))
		b = b[4+n:]
	}
	res.tail = b
	res.events = ag.Events()
	return res
}

// respKindOK checks the response against the request kind.
func respKindOK(f *frames.Frame, resp []byte, relayed []wire.Event, relayIdx *int) string {
	switch f.Kind {
	case frames.KList:
		if len(resp) < 5 || resp[0] != 12 {
			return "list request not answered with an identities answer"
		}
	case frames.KListV1:
		if len(resp) < 1 || (resp[0] != 2 && resp[0] != 5) {
			return "v1 list request not answered with a v1 identities answer"
		}
	case frames.KSign:
		if len(resp) < 1 || (resp[0] != 14 && resp[0] != 5) {
			return "sign request not answered with a sign response or failure"
		}
	case frames.KSimple:
		if len(resp) != 1 || (resp[0] != 6 && resp[0] != 5) {
			return "request not answered with success or failure"
		}
	case frames.KAddHardCert, frames.KWait:
		if len(resp) == 0 {
			return "empty reply text"
		}
	case frames.KListSlots:
		var m struct {
			Slots []string
			Err   string
		}
		if err := ssh.Unmarshal(resp, &m); err != nil {
			return "slot list reply does not parse: " + err.Error()
		}
	case frames.KReadSlot, frames.KAttestSlot:
		var m struct {
			Cert []byte
			Err  string
		}
		if err := ssh.Unmarshal(resp, &m); err != nil {
			return "slot reply does not parse: " + err.Error()
		}
		if m.Err == "" && len(m.Cert) == 0 {
			return "slot reply carries neither certificate nor error"
		}
	case frames.KRelayed:
		// must be exactly what the underlying agent answered to exactly this request
		for *relayIdx < len(relayed) {
			e := relayed[*relayIdx]
			*relayIdx++
			if bytes.Equal(e.Req, f.Body) {
				if !bytes.Equal(e.Reply, resp) {
					return "relayed reply differs from what the underlying agent sent"
				}
				return ""
			}
		}
		return "request was not relayed to the underlying agent byte for byte"
	}
	return ""
}

func judge(r *ev.Run, c *ev.Case, pcs []piece, frag bool, res *result) {
	rec := streamRec{Fragmented: frag}
	var stream []byte
	for _, p := range pcs {
		rec.Pieces = append(rec.Pieces, p.class+":"+p.note)
		stream = append(stream, p.raw...)
	}
	if len(stream) <= 4096 {
		rec.Hex = hex.EncodeToString(stream)
	} else {
		rec.Hex = hex.EncodeToString(stream[:2048]) + "…"
	}
	sigCls := func(i int) string {
		if i < len(pcs) {
			return pcs[i].class + ":" + pcs[i].note
		}
		return "end"
	}
	if res.panicked != "" {
		r.Violation(c, "panic:ServeAgent:"+ev.PanicSite(res.panicked), res.panicked, rec)
		return
	}
	if res.hung {
		r.Violation(c, "serving-never-ends", fmt.Sprintf("ServeAgent did not return within %s after the peer finished writing (a reader parked on a wait nobody can satisfy, or stuck in a read)", ev.OpTimeout()), rec)
		return
	}
	if len(res.tail) != 0 {
		r.Violation(c, "partial-response-frame-written", fmt.Sprintf("%d stray bytes after the last complete response", len(res.tail)), rec)
		return
	}
	n := len(res.responses)
	// the first piece that is not a complete well-formed frame
	firstBad := len(pcs)
	for i, p := range pcs {
		if p.class != "wellformed" {
			firstBad = i
			break
		}
	}
	if n > len(pcs) {
		r.Violation(c, "more-responses-than-requests", fmt.Sprintf("%d responses to %d pieces", n, len(pcs)), rec)
		return
	}
	// every well-formed frame before the first bad piece must have been answered
	if n < firstBad {
		r.Violation(c, "well-formed-request-not-answered:"+sigCls(n), fmt.Sprintf("%d responses; piece %d (%s) is a complete well-formed request, service ended with err=%v", n, n, sigCls(n), res.err), rec)
		return
	}
	// responses beyond firstBad: the bad piece itself may be answered (e.g. a malformed body relayed or refused with a failure) but never a truncated / empty / oversized one
	for i := firstBad; i < n; i++ {
		switch pcs[i].class {
		case "truncated", "oversized", "empty":
			r.Violation(c, "response-to-incomplete-or-refusable-frame:"+pcs[i].class, fmt.Sprintf("piece %d (%s) received a response", i, sigCls(i)), rec)
			return
		}
	}
	// response kinds, in request order
	var relayed []wire.Event
	for _, e := range res.events {
		if len(e.Req) > 0 {
			switch e.Req[0] {
			case 11, 13, 17, 18, 19, 22, 23, 25, 1:
			default:
				relayed = append(relayed, e)
			}
		}
	}
	ri := 0
	for i := 0; i < n && i < len(pcs); i++ {
		if pcs[i].class != "wellformed" {
			break
		}
		if why := respKindOK(pcs[i].f, res.responses[i], relayed, &ri); why != "" {
			r.Violation(c, "response-kind-mismatch:"+pcs[i].f.Name, fmt.Sprintf("piece %d (%s): %s; response=%x", i, pcs[i].f.Name, why, head(res.responses[i])), rec)
			return
		}
	}
	// how service ended
	if res.err == nil {
		// all complete frames consumed: every piece must be complete, and all answered, unless the stream ended inside a frame
		for i := n; i < len(pcs); i++ {
			if pcs[i].class != "truncated" {
				r.Violation(c, "service-ended-silently-before:"+pcs[i].class, fmt.Sprintf("ServeAgent returned nil after %d responses but piece %d (%s) was never answered nor refused", n, i, sigCls(i)), rec)
				return
			}
			// a stream cut inside a frame (1..3 bytes of a length prefix, or part of a body) is not a clean end
			// between frames: the frame cannot be answered, so the connection ends with an error
			r.Violation(c, "stream-cut-inside-a-frame-ends-without-error", fmt.Sprintf("ServeAgent returned nil after %d responses although the stream ended inside piece %d (%s, %d of its bytes arrived)", n, i, pcs[i].note, len(pcs[i].raw)), rec)
			return
		}
	} else {
		// service ended with an error at piece n: that piece must not be a complete well-formed frame
		if n < len(pcs) && pcs[n].class == "wellformed" {
			r.Violation(c, "well-formed-request-ends-service:"+pcs[n].f.Name, fmt.Sprintf("err=%v at piece %d", res.err, n), rec)
			return
		}
		if n == len(pcs) {
			// error although everything was answered and the stream ended cleanly between frames
			r.Violation(c, "clean-end-of-stream-reported-as-error", fmt.Sprintf("err=%v", res.err), rec)
			return
		}
	}
	r.Count(fmt.Sprintf("streams judged (%d responses)", min(n, 6)), 1)
	r.Nontrivial(rec.Hex + fmt.Sprint(frag))
}

func head(b []byte) []byte {
	if len(b) > 32 {
		return b[:32]
	}
	return b
}

func wf(f frames.Frame) piece {
	return piece{raw: wire.Frame(f.Body), f: &f, class: "wellformed", note: f.Name}
}

func pokeCodesOf(pcs []piece) []byte {
	var out []byte
	for _, p := range pcs {
		if p.class == "wellformed" && p.f.Kind == frames.KWait && p.f.WaitCode < 40 {
			out = append(out, p.f.WaitCode)
		}
		if p.class == "malformed" && len(p.raw) >= 6 && p.raw[4] == 35 && p.raw[5] < 40 {
			out = append(out, p.raw[5])
		}
	}
	return out
}

func main() {
	ev.MainIsolated("C12", "exploration", 60*time.Minute, func(r *ev.Run) {
		r.Rule("every stream is served by the real yubiagent.ServeAgent (fresh remote-mode server over a fresh scripted underlying agent) on a connected unix-socket pair; a third of the streams is delivered in 1..5-byte pieces. Exhaustive table: every message code 0..255 x body {none, 00, ff}, the zero-length frame, length prefixes cut to 0..3 bytes, declared lengths {16 MiB, 16 MiB+1, 2^31, 2^32-1} with 0..8 body bytes; then seeded streams of 1..12 pieces mixing grammar-derived well-formed frames (list, v1 list, remove-all, lock/unlock, sign, add of every key type with constraints and certificates, remove, both add-hardware-cert encodings, list/read/attest slot, wait, relayed codes), mutated frames, empty/oversized/truncated frames. Oracle: responses parse as frames, one per complete well-formed request, in order and of the right kind (relayed ones byte-identical to the underlying agent's reply); service may end with an error only at a piece that is not a complete well-formed frame; nil only if every piece was answered and the stream ended between frames (a stream cut inside a frame ends service with an error); no panic; no allocation above 8 MiB for a declared oversized frame. distinct_nontrivial = distinct (stream bytes, delivery mode) pairs that were judged to the end")
		r.Assume("well-formed grammar is the harness's conservative one; frames outside it may be answered or may end the connection with an error", "wait frames are released by a poker connection that keeps sending the awaited code")
		gen.Pool()
		// stalls of more than a second each: beside everything else
		var iwg sync.WaitGroup
		iwg.Add(1)
		go func() { defer iwg.Done(); idleDeadline(r) }()
		iwg.Add(1)
		go func() { defer iwg.Done(); idleAfterLargeFrame(r) }()
		defer iwg.Wait()
		now := uint64(time.Now().Unix())
		type job struct {
			c      *ev.Case
			pcs    []piece
			frag   bool
			abrupt bool
		}
		jobs := make(chan job, 64)
		var wg sync.WaitGroup
		for w := 0; w < 8; w++ {
			wg.Add(1)
			go func() {
				defer wg.Done()
				for j := range jobs {
					if r.NumViolations() > 12 {
						continue // enough witnesses; drain the queue
					}
					var stream []byte
					for _, p := range j.pcs {
						stream = append(stream, p.raw...)
					}
					r.Eval(1)
					res := serve(stream, j.frag, pokeCodesOf(j.pcs), r, j.abrupt)
					if res.err != nil && res.panicked == "" && len(res.responses) == 0 && len(j.pcs) == 0 {
						continue
					}
					if j.abrupt {
						// nobody reads the responses: only "never crashes" and "service ends" can be judged
						if res.panicked != "" {
							r.Violation(j.c, "panic:ServeAgent(peer vanished):"+ev.PanicSite(res.panicked), res.panicked, nil)
						} else if res.hung {
							r.Violation(j.c, "serving-never-ends:peer-vanished", "ServeAgent did not return after the peer closed the connection", nil)
						} else {
							r.Count("streams whose peer vanished without reading (no crash, service ended)", 1)
						}
						continue
					}
					judge(r, j.c, j.pcs, j.frag, res)
				}
			}()
		}
		idx := 0
		submit := func(fam string, pcs []piece, frag bool) {
			c := r.Case(fam, idx)
			idx++
			if c == nil {
				return
			}
			jobs <- job{c, pcs, frag, false}
		}
		classify := func(body []byte) piece {
			// tiny bodies: which of them are complete well-formed requests?
			switch {
			case len(body) == 0:
				return piece{raw: wire.Frame(body), class: "empty", note: "zero-length frame"}
			}
			code := body[0]
			switch code {
			case 11:
				if len(body) == 1 {
					return wf(frames.Frame{Body: body, Kind: frames.KList, Name: "list"})
				}
			case 1:
				if len(body) == 1 {
					return wf(frames.Frame{Body: body, Kind: frames.KListV1, Name: "list-v1"})
				}
			case 19:
				if len(body) == 1 {
					return wf(frames.Frame{Body: body, Kind: frames.KSimple, Name: "remove-all"})
				}
			case 32:
				return wf(frames.Frame{Body: body, Kind: frames.KListSlots, Name: "list-slots"})
			case 33:
				return wf(frames.Frame{Body: body, Kind: frames.KReadSlot, Name: "read-slot"})
			case 34:
				return wf(frames.Frame{Body: body, Kind: frames.KAttestSlot, Name: "attest-slot"})
			case 35:
				if len(body) == 2 {
					return wf(frames.Frame{Body: body, Kind: frames.KWait, Name: "wait", WaitCode: body[1]})
				}
			case 13, 17, 18, 22, 23, 25, 31:
			default:
				return wf(frames.Frame{Body: body, Kind: frames.KRelayed, Name: "relayed"})
			}
			return piece{raw: wire.Frame(body), class: "malformed", note: fmt.Sprintf("code %d with a %d-byte body", code, len(body)-1)}
		}
		// ---- exhaustive table
		if r.Want("table") {
			for code := 0; code < 256; code++ {
				for _, body := range [][]byte{{byte(code)}, {byte(code), 0}, {byte(code), 0xff}} {
					submit("table", []piece{classify(body)}, false)
					// followed by a list request: one more response iff service continues
					submit("table", []piece{classify(body), wf(frames.Frame{Body: []byte{11}, Kind: frames.KList, Name: "list"})}, code%3 == 0)
				}
			}
			submit("table", []piece{classify(nil)}, false)
			submit("table", []piece{wf(frames.Frame{Body: []byte{11}, Kind: frames.KList, Name: "list"}), classify(nil), wf(frames.Frame{Body: []byte{11}, Kind: frames.KList, Name: "list"})}, false)
			submit("table", nil, false) // empty stream: clean end
			for cut := 1; cut <= 3; cut++ {
				submit("table", []piece{{raw: []byte{0, 0, 0, 5}[:cut], class: "truncated", note: fmt.Sprintf("length prefix cut to %d bytes", cut)}}, false)
				submit("table", []piece{wf(frames.Frame{Body: []byte{11}, Kind: frames.KList, Name: "list"}), {raw: []byte{0, 0, 0, 5}[:cut], class: "truncated", note: fmt.Sprintf("length prefix cut to %d bytes", cut)}}, true)
			}
			for _, decl := range []uint32{maxFrame, maxFrame + 1, 1 << 31, 1<<32 - 1} {
				for nb := 0; nb <= 8; nb += 2 {
					var l [4]byte
					binary.BigEndian.PutUint32(l[:], decl)
					cls := "oversized"
					if decl <= maxFrame {
						cls = "truncated" // a frame of exactly 16 MiB is acceptable; only its first bytes arrive
					}
					raw := append(l[:], gen.Bytes(r.CaseAlways("decl", int(decl>>8)+nb).Rand, nb)...)
					submit("table", []piece{{raw: raw, class: cls, note: fmt.Sprintf("declared %d, %d body bytes", decl, nb)}}, false)
					submit("table", []piece{wf(frames.Frame{Body: []byte{11}, Kind: frames.KList, Name: "list"}), {raw: raw, class: cls, note: fmt.Sprintf("declared %d, %d body bytes", decl, nb)}}, false)
				}
			}
			// add-identity-constrained frames whose constraint tail is cut short or continued with a partial constraint
			seenType := map[string]bool{}
			for _, k := range gen.Pool() {
				if seenType[k.Name] {
					continue
				}
				seenType[k.Name] = true
				for _, withCert := range []bool{false, true} {
					ak := agent.AddedKey{PrivateKey: k.Priv, Comment: "c", LifetimeSecs: 3600, ConfirmBeforeUse: true}
					if withCert {
						ak.Certificate = gen.MakeCert(gen.CertSpec{Key: k, KeyID: "x", ValidAfter: now - 10, ValidBefore: now + 10})
					}
					full := frames.Captured(func(a agent.ExtendedAgent) { a.Add(ak) })[0]
					var variants [][]byte
					for cut := 1; cut <= 6; cut++ {
						variants = append(variants, full[:len(full)-cut])
					}
					for _, tail := range [][]byte{{1}, {1, 0}, {1, 0, 0}, {1, 0, 0, 0}, {2, 1}, {2, 1, 0, 0}, {255}, {255, 0, 0, 0, 9}, {3, 0, 0, 0, 1}, {9}} {
						variants = append(variants, append(append([]byte{}, full...), tail...))
					}
					for _, v := range variants {
						pc := piece{raw: wire.Frame(v), class: "malformed", note: fmt.Sprintf("add %s with a broken constraint tail", k.Name)}
						submit("table", []piece{pc}, false)
						submit("table", []piece{pc, wf(frames.Frame{Body: []byte{11}, Kind: frames.KList, Name: "list"})}, true)
					}
				}
			}
			// well-formed frames of the largest acceptable size (16 MiB and one byte less): an add-identity request
			// with a long comment and a relayed request; each must be answered like any other
			{
				k := gen.Pool()[0]
				base := frames.Captured(func(a agent.ExtendedAgent) { a.Add(agent.AddedKey{PrivateKey: k.Priv}) })[0]
				for _, size := range []int{maxFrame - 1, maxFrame} {
					comment := string(bytes.Repeat([]byte{'c'}, size-len(base)))
					big := frames.Captured(func(a agent.ExtendedAgent) { a.Add(agent.AddedKey{PrivateKey: k.Priv, Comment: comment}) })
					if len(big) == 1 && len(big[0]) == size {
						submit("table", []piece{wf(frames.Frame{Body: big[0], Kind: frames.KSimple, Name: fmt.Sprintf("add-of-%d-bytes", size)}), wf(frames.Frame{Body: []byte{11}, Kind: frames.KList, Name: "list"})}, false)
					}
					rel := append([]byte{200}, bytes.Repeat([]byte{7}, size-1)...)
					submit("table", []piece{wf(frames.Frame{Body: rel, Kind: frames.KRelayed, Name: fmt.Sprintf("relayed-of-%d-bytes", size)}), wf(frames.Frame{Body: []byte{11}, Kind: frames.KList, Name: "list"})}, false)
				}
			}
			// add-hardware-certificate requests that the shim refuses (not a certificate; a certificate whose key the
			// underlying agent does not hold) or accepts, carrying a long comment of bytes that any quoting would expand
			// (control bytes, invalid UTF-8) or of plain letters: each is answered once, and so is the listing behind it
			{
				pool := gen.Pool()
				held, other := pool[0], pool[5]
				certOf := func(k *gen.Key) *ssh.Certificate {
					return gen.MakeCert(gen.CertSpec{Key: k, KeyID: gen.YSSHCAKeyID(gen.KeyIDSpec{HW: true, Touch: 3, TransID: "t", Prins: []string{"u"}}), ValidAfter: now - 100, ValidBefore: now + 100})
				}
				str := func(b []byte) []byte {
					var l [4]byte
					binary.BigEndian.PutUint32(l[:], uint32(len(b)))
					return append(l[:], b...)
				}
				for ki, key := range []ssh.PublicKey{held.Pub, certOf(other), certOf(held)} {
					for _, fill := range []struct {
						b byte
						n int
					}{{0x01, 5 << 20}, {0xff, 6 << 20}, {'c', 15 << 20}, {0x00, 3 << 20}, {'"', 9 << 20}} {
						b := append([]byte{31}, str(key.Marshal())...)
						b = append(b, str(bytes.Repeat([]byte{fill.b}, fill.n))...)
						submit("table", []piece{wf(frames.Frame{Body: b, Kind: frames.KAddHardCert, Name: fmt.Sprintf("add-hard-cert-%d-with-%d-byte-comment-of-0x%02x", ki, fill.n, fill.b)}), wf(frames.Frame{Body: []byte{11}, Kind: frames.KList, Name: "list"})}, false)
					}
				}
			}
			// add-identity frames for RSA keys whose numbers make no key (a prime of 1 or 0, a modulus that is not the
			// product, zero exponents): answered with a failure or refused with an error, never a crash
			for _, nums := range [][6]int64{{15, 3, 3, 2, 1, 15}, {15, 3, 3, 2, 3, 1}, {15, 3, 3, 2, 0, 5}, {15, 3, 3, 2, 3, 0}, {0, 3, 3, 2, 3, 5}, {15, 0, 0, 0, 3, 5}, {16, 3, 3, 2, 2, 8}, {15, 3, 3, 0, 5, 3}, {-15, 3, 3, 2, 3, 5}} {
				body := ssh.Marshal(struct {
					Type       string
					N, E, D    *big.Int
					Iqmp, P, Q *big.Int
					Comments   string
				}{ssh.KeyAlgoRSA, big.NewInt(nums[0]), big.NewInt(nums[1]), big.NewInt(nums[2]), big.NewInt(nums[3]), big.NewInt(nums[4]), big.NewInt(nums[5]), "degenerate"})
				for _, code := range []byte{17, 25} {
					b := append([]byte{code}, body...)
					pc := piece{raw: wire.Frame(b), class: "malformed", note: fmt.Sprintf("add-identity (code %d) with RSA numbers %v", code, nums)}
					submit("table", []piece{pc}, false)
					submit("table", []piece{wf(frames.Frame{Body: []byte{11}, Kind: frames.KList, Name: "list"}), pc}, true)
				}
			}
			// add-hardware-certificate frames whose inner length fields hold the largest 32-bit values
			for _, inner := range [][]byte{{0xff, 0xff, 0xff, 0xfc}, {0xff, 0xff, 0xff, 0xfd}, {0xff, 0xff, 0xff, 0xfe}, {0xff, 0xff, 0xff, 0xff}, {0x7f, 0xff, 0xff, 0xff}, {0x80, 0x00, 0x00, 0x00}, {0xff, 0xff, 0xff, 0xfb}} {
				for _, body := range [][]byte{append([]byte{31}, inner...), append([]byte{31, 0, 0, 0, 1, 'x'}, inner...), append(append([]byte{31}, inner...), 'a', 'b', 'c', 'd', 'e', 'f', 'g', 'h')} {
					pc := piece{raw: wire.Frame(body), class: "malformed", note: fmt.Sprintf("add-hardware-certificate with inner length %x", inner)}
					submit("table", []piece{pc}, false)
					submit("table", []piece{wf(frames.Frame{Body: []byte{11}, Kind: frames.KList, Name: "list"}), pc, wf(frames.Frame{Body: []byte{11}, Kind: frames.KList, Name: "list"})}, true)
				}
			}
			r.Extra("table_streams", idx)
		}
		// ---- seeded streams
		n := r.Pick(3000, 100000)
		for i := 0; i < n; i++ {
			c := r.Case("stream", i)
			if c == nil {
				continue
			}
			np := 1 + c.Rand.Intn(12)
			var pcs []piece
			for k := 0; k < np; k++ {
				switch x := c.Rand.Intn(20); {
				case x < 14:
					pcs = append(pcs, wf(frames.Gen(c.Rand, now)))
				case x < 16:
					// mutated well-formed frame: class unknown -> malformed (may be answered or refused)
					f := frames.Gen(c.Rand, now)
					b := append([]byte{}, f.Body...)
					if len(b) > 1 {
						p := 1 + c.Rand.Intn(len(b)-1)
						switch c.Rand.Intn(3) {
						case 0:
							b[p] ^= 1 << uint(c.Rand.Intn(8))
						case 1:
							b = b[:p]
						default:
							b = append(b, gen.Bytes(c.Rand, 1+c.Rand.Intn(8))...)
						}
					}
					pc := piece{raw: wire.Frame(b), class: "malformed", note: "mutated " + f.Name}
					if f.Kind == frames.KRelayed || f.Kind == frames.KListSlots || f.Kind == frames.KReadSlot || f.Kind == frames.KAttestSlot {
						pc = classify(b)
					}
					pcs = append(pcs, pc)
				case x == 16:
					pcs = append(pcs, classify(gen.Bytes(c.Rand, 1+c.Rand.Intn(30))))
				case x == 17:
					pcs = append(pcs, classify(nil))
				case x == 18:
					var l [4]byte
					binary.BigEndian.PutUint32(l[:], maxFrame+1+uint32(c.Rand.Intn(1<<20)))
					pcs = append(pcs, piece{raw: append(l[:], gen.Bytes(c.Rand, c.Rand.Intn(6))...), class: "oversized", note: "declared > 16 MiB"})
				default:
					f := frames.Gen(c.Rand, now)
					raw := wire.Frame(f.Body)
					raw = raw[:1+c.Rand.Intn(len(raw)-1)]
					pcs = append(pcs, piece{raw: raw, class: "truncated", note: "stream ends inside " + f.Name})
				}
				// a truncated piece necessarily ends the stream
				if pcs[len(pcs)-1].class == "truncated" {
					break
				}
			}
			// anything after an oversized / empty / malformed piece is only reached if service continues; keep the tail but mark nothing
			jobs <- job{c, pcs, i%3 == 0, i%10 == 7}
			if i < 3 {
				var names []string
				for _, p := range pcs {
					names = append(names, p.class+":"+p.note)
				}
				r.Sample(map[string]any{"family": "stream", "pieces": names})
			}
		}
		close(jobs)
		wg.Wait()
		// the underlying agent hangs up on a relayed request: the frame cannot be answered from there, so it is either
		// answered with a failure or service ends with an error — never neither
		upstreamHangsUp.Store(true)
		for ci, code := range []byte{27, 200, 20, 36, 255} {
			for _, more := range []bool{false, true} {
				c := r.Case("upstream-hangs-up", ci*2+map[bool]int{false: 0, true: 1}[more])
				if c == nil {
					continue
				}
				stream := wire.Frame(append([]byte{code}, []byte("relayed body")...))
				if more {
					stream = append(stream, wire.Frame([]byte{11})...)
				}
				r.Eval(1)
				res := serve(stream, false, nil, r)
				rec := map[string]any{"relayed_code": code, "followed_by_list": more, "stream_hex": hex.EncodeToString(stream)}
				switch {
				case res.panicked != "":
					r.Violation(c, "panic:ServeAgent:upstream-hangs-up", res.panicked, rec)
				case res.hung:
					r.Violation(c, "serving-never-ends:upstream-hangs-up", "", rec)
				case len(res.responses) > map[bool]int{false: 1, true: 2}[more]:
					r.Violation(c, "more-responses-than-requests:upstream-hangs-up", fmt.Sprintf("%d complete requests in the stream, %d response frames came back (ServeAgent returned %v)", map[bool]int{false: 1, true: 2}[more], len(res.responses), res.err), rec)
				case res.err == nil && len(res.responses) == 0:
					r.Violation(c, "relayed-request-neither-answered-nor-refused", fmt.Sprintf("the underlying agent closed the connection on the relayed request (code %d); ServeAgent wrote no response and returned nil", code), rec)
				default:
					r.Count("relayed requests on which the underlying agent hung up: answered or ended with an error", 1)
					r.Nontrivial(fmt.Sprintf("upstream-hangs-up:%d:%v", code, more))
				}
			}
		}
		upstreamHangsUp.Store(false)
		longStream(r)
		allocation(r)
		r.Floor(int64(r.Pick(3000, 50000)), int64(r.Pick(1500, 20000)))
	})
}

// allocation measures what serving a declared-oversized frame allocates.
func allocation(r *ev.Run) {
	if !r.Want("alloc") {
		return
	}
	for i, decl := range []uint32{maxFrame + 1, 1 << 30, 1<<32 - 1, 0x7fffffff, 0x40000000} {
		c := r.Case("alloc", i)
		if c == nil {
			continue
		}
		var l [4]byte
		binary.BigEndian.PutUint32(l[:], decl)
		stream := append(l[:], 11, 0, 0)
		// warm up
		serve([]byte{0, 0, 0, 1, 11}, false, nil, r)
		runtime.GC()
		var m0, m1 runtime.MemStats
		runtime.ReadMemStats(&m0)
		res := serve(stream, false, nil, r)
		runtime.ReadMemStats(&m1)
		r.Eval(1)
		d := m1.TotalAlloc - m0.TotalAlloc
		r.Count("oversized declarations measured for allocation", 1)
		if d > 8<<20 {
			r.Violation(c, "allocates-for-oversized-declaration", fmt.Sprintf("serving a frame declared as %d bytes allocated %d bytes", decl, d), map[string]any{"declared": decl, "allocated": d})
		}
		if res.err == nil || len(res.responses) != 0 {
			r.Violation(c, "oversized-declaration-not-refused", fmt.Sprintf("err=%v responses=%d", res.err, len(res.responses)), map[string]any{"declared": decl})
		}
		r.Extra(fmt.Sprintf("alloc_bytes_for_declared_%d", decl), d)
	}
}
