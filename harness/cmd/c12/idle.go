package main

import (
	"bytes"
	"fmt"
	"io"
	"net"
	"sync"
	"time"

	"github.com/theparanoids/ysshra/agent/yubiagent"
	"github.com/theparanoids/ysshra/verifharness/lib/ev"
	"github.com/theparanoids/ysshra/verifharness/lib/wire"
)

// idleConn re-arms a read deadline before every Read (an idle time-out, as a connection wrapper of a daemon may set).
type idleConn struct {
	net.Conn
	idle time.Duration
}

func (c *idleConn) Read(p []byte) (int, error) {
	c.Conn.SetReadDeadline(time.Now().Add(c.idle))
	return c.Conn.Read(p)
}

// idleDeadline: the connection handed to ServeAgent has an idle time-out, and the peer stalls in the middle of a
// frame for longer than that. The frame never arrived as a whole: whatever the serving loop does about the time-out
// (it may end, it may wait on), the bytes of the interrupted frame are not a request. The interrupted frame is built
// so that its body, read from its second byte group on, would parse as a series of complete listing requests.
func idleDeadline(r *ev.Run) {
	for vi, v := range []struct {
		before int // complete listing requests sent before the interrupted frame
		inner  int // listing requests making up the body of the interrupted frame
		sentOf int // how many of them are sent before the stall
	}{{1, 6, 1}, {0, 4, 2}, {3, 8, 0}} {
		c := r.Case("idle-deadline", vi)
		if c == nil {
			continue
		}
		r.Eval(1)
		rec := map[string]any{"complete_requests_before": v.before, "inner_groups": v.inner, "groups_sent_before_the_stall": v.sentOf}
		if _, hung := r.GuardWithin(c, "ServeAgent(idle time-out)", rec, ev.CaseBudget(), func() {
			ag := wire.New()
			defer ag.Close()
			sock, err := ag.Listen()
			if err != nil {
				r.Inconclusive(err.Error())
				return
			}
			srv, err := yubiagent.NewServer(sock, true)
			if err != nil {
				r.Violation(c, "server-construction-fails", err.Error(), rec)
				return
			}
			defer srv.Close()
			c1, c2, err := wire.SocketPair()
			if err != nil {
				r.Inconclusive(err.Error())
				return
			}
			defer c1.Close()
			var serveErr error
			var panicked string
			done := make(chan struct{})
			go func() {
				defer close(done)
				defer c2.Close()
				defer func() {
					if p := recover(); p != nil {
						panicked = fmt.Sprint(p)
					}
				}()
				serveErr = yubiagent.ServeAgent(srv, &idleConn{Conn: c2, idle: 400 * time.Millisecond})
			}()
			var out bytes.Buffer
			var omu sync.Mutex
			rd := make(chan struct{})
			go func() {
				defer close(rd)
				buf := make([]byte, 4096)
				for {
					n, err := c1.Read(buf)
					omu.Lock()
					out.Write(buf[:n])
					omu.Unlock()
					if err != nil {
						return
					}
				}
			}()
			list := wire.Frame([]byte{11})
			for i := 0; i < v.before; i++ {
				c1.Write(list)
			}
			body := bytes.Repeat(list, v.inner)
			body[0] = 200 // as a whole the frame is a request the server relays; its tail is what must not be taken for requests
			whole := wire.Frame(body)
			cut := 4 + len(list)*v.sentOf
			if v.sentOf == 0 {
				cut = 4
			}
			c1.Write(whole[:cut])
			time.Sleep(1100 * time.Millisecond) // more than two idle periods
			c1.Write(whole[cut:])
			time.Sleep(300 * time.Millisecond)
			c1.(interface{ CloseWrite() error }).CloseWrite()
			select {
			case <-done:
			case <-time.After(ev.OpTimeout()):
				r.Violation(c, "serving-never-ends:idle-time-out", "ServeAgent did not return after the peer finished and closed its side", rec)
				return
			}
			<-rd
			if panicked != "" {
				r.Violation(c, "panic:ServeAgent(idle time-out)", panicked, rec)
				return
			}
			// count the responses
			omu.Lock()
			resp := out.Bytes()
			omu.Unlock()
			n := 0
			rdr := bytes.NewReader(resp)
			for {
				if _, err := wire.ReadFrame(rdr); err != nil {
					if err != io.EOF {
						r.Violation(c, "response-stream-not-frames:idle-time-out", err.Error(), rec)
						return
					}
					break
				}
				n++
			}
			// complete requests: the ones before, plus the interrupted frame if the server waited for all of it
			if n > v.before+1 {
				r.Violation(c, "response-to-incomplete-or-refusable-frame:idle-time-out", fmt.Sprintf("%d complete requests preceded a frame whose delivery stalled past the idle time-out; %d responses came back (ServeAgent returned %v): bytes from inside the interrupted frame were answered as requests", v.before, n, serveErr), rec)
				return
			}
			if n < v.before {
				r.Violation(c, "well-formed-request-not-answered:idle-time-out", fmt.Sprintf("%d complete requests, %d responses", v.before, n), rec)
				return
			}
			if n == v.before && serveErr == nil {
				r.Violation(c, "stream-cut-inside-a-frame-ends-without-error:idle-time-out", "the interrupted frame was not answered, yet ServeAgent reported a clean end", rec)
				return
			}
			r.Count("streams stalled inside a frame beyond the connection's idle time-out judged", 1)
			r.Nontrivial(fmt.Sprintf("idle-deadline:%d", vi))
		}); hung {
			r.Violation(c, "serving-never-ends:idle-time-out", "the case did not finish within the watchdog", rec)
			return
		}
	}
}

// idleAfterLargeFrame: a legal frame of a few hundred kilobytes, then a peer that says nothing for 2.6 s, then an
// ordinary request, then a clean end. Nothing that was set up for the large frame outlives it: the request after the
// pause is answered and the service ends without error.
func idleAfterLargeFrame(r *ev.Run) {
	var wg sync.WaitGroup
	for vi, size := range []int{70 << 10, 300 << 10, 5 << 20} {
		wg.Add(1)
		go func(vi, size int) { defer wg.Done(); idleAfterLargeFrameOne(r, vi, size) }(vi, size)
	}
	wg.Wait()
}

func idleAfterLargeFrameOne(r *ev.Run, vi, size int) {
	{
		c := r.Case("idle-after-large-frame", vi)
		if c == nil {
			return
		}
		r.Eval(1)
		if _, hung := r.GuardWithin(c, "ServeAgent(large frame, pause, request)", size, ev.CaseBudget(), func() {
			ag := wire.New()
			defer ag.Close()
			sock, err := ag.Listen()
			if err != nil {
				r.Inconclusive(err.Error())
				return
			}
			srv, err := yubiagent.NewServer(sock, true)
			if err != nil {
				r.Violation(c, "server-construction-fails", err.Error(), size)
				return
			}
			defer srv.Close()
			c1, c2, err := wire.SocketPair()
			if err != nil {
				r.Inconclusive(err.Error())
				return
			}
			defer c1.Close()
			var serveErr error
			done := make(chan struct{})
			go func() {
				defer close(done)
				defer c2.Close()
				defer func() { recover() }()
				serveErr = yubiagent.ServeAgent(srv, c2)
			}()
			big := make([]byte, size)
			big[0] = 200
			go c1.Write(wire.Frame(big))
			c1.SetReadDeadline(time.Now().Add(ev.OpTimeout()))
			if resp, err := wire.ReadFrame(c1); err != nil || !bytes.Equal(resp, big) {
				r.Violation(c, "well-formed-request-not-answered:large-frame", fmt.Sprintf("a relayed request of %d bytes: err=%v, %d reply bytes", size, err, len(resp)), size)
				return
			}
			time.Sleep(2600 * time.Millisecond)
			c1.Write(wire.Frame([]byte{11}))
			c1.SetReadDeadline(time.Now().Add(ev.OpTimeout()))
			if resp, err := wire.ReadFrame(c1); err != nil || len(resp) == 0 || resp[0] != 12 {
				r.Violation(c, "well-formed-request-not-answered:after-a-pause-behind-a-large-frame", fmt.Sprintf("a listing request sent 2.6 s after a frame of %d bytes had been served: err=%v reply=%x", size, err, resp), size)
				return
			}
			c1.(interface{ CloseWrite() error }).CloseWrite()
			select {
			case <-done:
			case <-time.After(ev.OpTimeout()):
				r.Violation(c, "serving-never-ends:after-a-large-frame", "", size)
				return
			}
			if serveErr != nil {
				r.Violation(c, "clean-end-of-stream-reported-as-error:after-a-large-frame", serveErr.Error(), size)
				return
			}
			r.Count("requests served after a pause behind a large frame, clean end afterwards", 1)
			r.Nontrivial(fmt.Sprintf("idle-after-large-frame:%d", size))
		}); hung {
			r.Violation(c, "serving-never-ends:after-a-large-frame", "the case did not finish within the watchdog", size)
			return
		}
	}
}
