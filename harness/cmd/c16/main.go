// C16 — attestation certificates decode faithfully; device serial extraction is total.
package main

import (
	"bytes"
	"crypto"
	"crypto/ecdsa"
	"crypto/elliptic"
	"crypto/rand"
	"crypto/rsa"
	"crypto/x509"
	"crypto/x509/pkix"
	"encoding/asn1"
	"encoding/hex"
	"encoding/pem"
	"errors"
	"fmt"
	"io"
	"math/big"
	mrand "math/rand"
	"net"
	"os"
	"path/filepath"
	"reflect"
	"strings"
	"time"

	"github.com/theparanoids/ysshra/agent/utils"
	"github.com/theparanoids/ysshra/attestation/yubiattest"
	"github.com/theparanoids/ysshra/verifharness/lib/ev"
	"github.com/theparanoids/ysshra/verifharness/lib/gen"
)

const modhexAlphabet = "cbdefghijklnrtuv" // reference table (Yubico ModHex)

type keyEntry struct {
	name string
	priv crypto.Signer
}

// pubOnly stands in for a subject key of which only the public half exists (a certificate can be issued for any public
// key): an RSA key with an unusually large public exponent.
type pubOnly struct{ pub crypto.PublicKey }

func (p pubOnly) Public() crypto.PublicKey { return p.pub }
func (p pubOnly) Sign(io.Reader, []byte, crypto.SignerOpts) ([]byte, error) {
	return nil, errors.New("public half only")
}

var subjectKeys, issuerKeys []keyEntry

func mustRSA(bits int) *rsa.PrivateKey {
	k, err := rsa.GenerateKey(rand.Reader, bits)
	if err != nil {
		panic(err)
	}
	return k
}
func mustEC(c elliptic.Curve) *ecdsa.PrivateKey {
	k, err := ecdsa.GenerateKey(c, rand.Reader)
	if err != nil {
		panic(err)
	}
	return k
}

func initKeys() {
	subjectKeys = []keyEntry{{"rsa1024", mustRSA(1024)}, {"rsa2048", mustRSA(2048)}, {"p256", mustEC(elliptic.P256())}, {"p384", mustEC(elliptic.P384())}, {"p521", mustEC(elliptic.P521())},
		{"p256b", mustEC(elliptic.P256())}, {"p384b", mustEC(elliptic.P384())}, {"p521b", mustEC(elliptic.P521())}}
	base := mustRSA(1024)
	for _, e := range []int{3, 1<<31 - 1, 1 << 31, 1<<32 + 1, 1<<62 + 1} {
		subjectKeys = append(subjectKeys, keyEntry{fmt.Sprintf("rsa1024-e%d", e), pubOnly{&rsa.PublicKey{N: base.N, E: e}}})
	}
	issuerKeys = []keyEntry{{"rsa2048", mustRSA(2048)}, {"p256", mustEC(elliptic.P256())}, {"p384", mustEC(elliptic.P384())}, {"p521", mustEC(elliptic.P521())}}
}

var rsaAlgs = []x509.SignatureAlgorithm{x509.SHA256WithRSA, x509.SHA384WithRSA, x509.SHA512WithRSA, x509.SHA256WithRSAPSS, x509.SHA384WithRSAPSS, x509.SHA512WithRSAPSS}
var ecAlgs = []x509.SignatureAlgorithm{x509.ECDSAWithSHA256, x509.ECDSAWithSHA384, x509.ECDSAWithSHA512}

func oid(s ...int) asn1.ObjectIdentifier { return asn1.ObjectIdentifier(s) }

type certCase struct {
	Subject string `json:"subject_key"`
	Issuer  string `json:"issuer_key"`
	Alg     string `json:"sig_alg"`
	Exts    string `json:"extension_kinds"`
	DER     string `json:"der_hex,omitempty"`
}

func genCert(r *mrand.Rand) ([]byte, certCase, error) {
	sk := subjectKeys[r.Intn(len(subjectKeys))]
	ik := issuerKeys[r.Intn(len(issuerKeys))]
	var alg x509.SignatureAlgorithm
	if _, ok := ik.priv.(*rsa.PrivateKey); ok {
		alg = rsaAlgs[r.Intn(len(rsaAlgs))]
	} else {
		alg = ecAlgs[r.Intn(len(ecAlgs))]
	}
	serial := new(big.Int).SetBytes(gen.Bytes(r, 1+r.Intn(19)))
	if r.Intn(10) == 0 {
		// small and boundary serial numbers, zero among them (RFC 5280 wants positive ones; the reference parser
		// reads a zero all the same, and so do the tools that issued such certificates)
		serial.SetInt64([]int64{0, 0, 1, 127, 128, 255, 256, 32767, 32768}[r.Intn(9)])
	}
	t := &x509.Certificate{
		SerialNumber:       serial,
		SignatureAlgorithm: alg,
		Subject:            pkix.Name{CommonName: "YubiKey PIV Attestation " + gen.Ident(r, 2)},
		NotBefore:          time.Unix(1400000000+int64(r.Intn(300000000)), 0).UTC(),
		NotAfter:           time.Unix(1800000000+int64(r.Intn(900000000)), 0).UTC(),
	}
	if r.Intn(2) == 0 {
		t.Subject.Organization = []string{"Yubico " + gen.Ident(r, 3), "ünï"}
		t.Subject.Country = []string{"SE"}
		t.Subject.SerialNumber = gen.Ident(r, 8)
	}
	parent := &x509.Certificate{Subject: pkix.Name{CommonName: "Yubico PIV Root CA Serial " + gen.Ident(r, 6), OrganizationalUnit: []string{"x"}}, SubjectKeyId: gen.Bytes(r, 20)}
	var kinds []string
	// One certificate in eight has no extensions field at all (a parent without
	// a key identifier and no extension-bearing template fields): the OPTIONAL
	// [3] member of the TBSCertificate is absent.
	if r.Intn(8) == 0 {
		parent.SubjectKeyId = nil
		der, err := x509.CreateCertificate(rand.Reader, t, parent, sk.priv.Public(), ik.priv)
		return der, certCase{Subject: sk.name, Issuer: ik.name, Alg: alg.String(), Exts: "none"}, err
	}
	if r.Intn(2) == 0 {
		t.BasicConstraintsValid = true
		t.IsCA = r.Intn(2) == 0
		if t.IsCA && r.Intn(2) == 0 {
			t.MaxPathLen = r.Intn(3)
			t.MaxPathLenZero = t.MaxPathLen == 0
		}
		kinds = append(kinds, "basicConstraints")
	}
	if r.Intn(6) == 0 {
		t.BasicConstraintsValid, t.IsCA = true, true
		t.PermittedDNSDomains = []string{"example.com", gen.Ident(r, 4) + ".test"}
		kinds = append(kinds, "nameConstraints")
	}
	if r.Intn(2) == 0 {
		t.KeyUsage = x509.KeyUsage(1 + r.Intn(511))
		kinds = append(kinds, "keyUsage")
	}
	if r.Intn(2) == 0 {
		t.SubjectKeyId = gen.Bytes(r, 20)
		kinds = append(kinds, "ski")
	}
	if r.Intn(2) == 0 {
		t.DNSNames = []string{gen.Ident(r, 5) + ".example.com"}
		if r.Intn(2) == 0 {
			t.EmailAddresses = []string{gen.Ident(r, 3) + "@example.com"}
			t.IPAddresses = []net.IP{net.IPv4(10, 0, 0, byte(r.Intn(256))), net.ParseIP("2001:db8::1")}
		}
		kinds = append(kinds, "san")
	}
	if r.Intn(2) == 0 {
		t.ExtKeyUsage = []x509.ExtKeyUsage{x509.ExtKeyUsageClientAuth, x509.ExtKeyUsage(1 + r.Intn(10))}
		if r.Intn(2) == 0 {
			t.UnknownExtKeyUsage = []asn1.ObjectIdentifier{oid(1, 3, 6, 1, 4, 1, 41482, 99)}
		}
		kinds = append(kinds, "eku")
	}
	if r.Intn(2) == 0 {
		t.PolicyIdentifiers = []asn1.ObjectIdentifier{oid(1, 2, 3, 4), oid(2, 23, 140, 1, 2, 1)}
		kinds = append(kinds, "policies")
	}
	if r.Intn(3) == 0 {
		t.OCSPServer = []string{"http://ocsp.example/"}
		t.IssuingCertificateURL = []string{"http://ca.example/ca.crt"}
		t.CRLDistributionPoints = []string{"http://crl.example/x.crl"}
		kinds = append(kinds, "aia+crl")
	}
	if r.Intn(2) == 0 {
		// Yubico vendor extensions: firmware (3.3), serial (3.7), policy (3.8), form factor (3.9)
		t.ExtraExtensions = append(t.ExtraExtensions,
			pkix.Extension{Id: oid(1, 3, 6, 1, 4, 1, 41482, 3, 3), Value: []byte{byte(r.Intn(6)), byte(r.Intn(10)), byte(r.Intn(10))}},
			pkix.Extension{Id: oid(1, 3, 6, 1, 4, 1, 41482, 3, 8), Value: []byte{byte(1 + r.Intn(3)), byte(1 + r.Intn(3))}},
			pkix.Extension{Id: oid(1, 3, 6, 1, 4, 1, 41482, 3, 9), Value: []byte{byte(r.Intn(5))}, Critical: r.Intn(8) == 0})
		ser := derInt(gen.Bytes(r, 3+r.Intn(2)))
		t.ExtraExtensions = append(t.ExtraExtensions, pkix.Extension{Id: oid(1, 3, 6, 1, 4, 1, 41482, 3, 7), Value: ser})
		if r.Intn(4) == 0 {
			// vendor / private extensions whose value is empty (a flag by presence)
			t.ExtraExtensions = append(t.ExtraExtensions, pkix.Extension{Id: oid(1, 3, 6, 1, 4, 1, 41482, 99, 7), Value: []byte{}}, pkix.Extension{Id: oid(1, 2, 840, 113556, 1, 99), Value: nil, Critical: false})
		}
		kinds = append(kinds, "yubico")
	}
	if r.Intn(5) == 0 {
		// the authority key identifier in its full form (openssl's "keyid,issuer:always"): key identifier, the issuer's
		// own issuer name and its serial number, which is as wide as serial numbers are
		nameDER, _ := asn1.Marshal(pkix.Name{CommonName: "Issuer of " + gen.Ident(r, 5), Organization: []string{"x"}}.ToRDNSequence())
		dir, _ := asn1.Marshal(asn1.RawValue{Class: 2, Tag: 4, IsCompound: true, Bytes: nameDER})
		ser := new(big.Int).SetBytes(gen.Bytes(r, []int{1, 2, 7, 8, 9, 16, 20, 20}[r.Intn(8)]))
		if r.Intn(6) == 0 {
			ser = new(big.Int).Lsh(big.NewInt(1), uint([]int{62, 63, 64, 127, 159}[r.Intn(5)]))
		}
		v := struct {
			KeyID  []byte        `asn1:"optional,tag:0"`
			Issuer asn1.RawValue `asn1:"optional"`
			Serial *big.Int      `asn1:"optional,tag:2"`
		}{Issuer: asn1.RawValue{Class: 2, Tag: 1, IsCompound: true, Bytes: dir}, Serial: ser}
		if r.Intn(4) > 0 {
			v.KeyID = gen.Bytes(r, 20)
		}
		if val, err := asn1.Marshal(v); err == nil {
			t.ExtraExtensions = append(t.ExtraExtensions, pkix.Extension{Id: oid(2, 5, 29, 35), Value: val})
			kinds = append(kinds, "aki-full-form")
		}
	}
	if r.Intn(24) == 0 {
		// a large certificate: lengths that need three and four length octets
		t.ExtraExtensions = append(t.ExtraExtensions, pkix.Extension{Id: oid(1, 3, 6, 1, 4, 1, 41482, 99, 1), Value: gen.Bytes(r, 60000+r.Intn(20000))})
		if r.Intn(3) == 0 {
			t.ExtraExtensions = append(t.ExtraExtensions, pkix.Extension{Id: oid(1, 3, 6, 1, 4, 1, 41482, 99, 2), Value: gen.Bytes(r, 1<<16+r.Intn(1<<18))})
		}
		kinds = append(kinds, "huge")
	}
	der, err := x509.CreateCertificate(rand.Reader, t, parent, sk.priv.Public(), ik.priv)
	cc := certCase{Subject: sk.name, Issuer: ik.name, Alg: alg.String(), Exts: strings.Join(kinds, ",")}
	return der, cc, err
}

// derInt wraps content bytes as tag 02 + length (content used as-is).
func derInt(content []byte) []byte { return append([]byte{0x02, byte(len(content))}, content...) }

func derTLV(tag byte, content []byte) []byte {
	var l []byte
	n := len(content)
	switch {
	case n < 0x80:
		l = []byte{byte(n)}
	case n < 0x100:
		l = []byte{0x81, byte(n)}
	case n < 0x10000:
		l = []byte{0x82, byte(n >> 8), byte(n)}
	default:
		l = []byte{0x83, byte(n >> 16), byte(n >> 8), byte(n)}
	}
	return append(append([]byte{tag}, l...), content...)
}

func children(seq []byte) ([]asn1.RawValue, error) {
	var outer asn1.RawValue
	rest, err := asn1.Unmarshal(seq, &outer)
	if err != nil || len(rest) != 0 {
		return nil, fmt.Errorf("outer: %v", err)
	}
	var out []asn1.RawValue
	b := outer.Bytes
	for len(b) > 0 {
		var v asn1.RawValue
		b, err = asn1.Unmarshal(b, &v)
		if err != nil {
			return nil, err
		}
		out = append(out, v)
	}
	return out, nil
}

// stripNULL re-encodes an RSA certificate so that the SubjectPublicKeyInfo
// AlgorithmIdentifier omits its NULL parameter. Returns the new DER, TBS and SPKI.
func stripNULL(der []byte) (newDER, newTBS, newSPKI []byte, err error) {
	top, err := children(der)
	if err != nil || len(top) != 3 {
		return nil, nil, nil, fmt.Errorf("top: %v", err)
	}
	tbs, err := children(top[0].FullBytes)
	if err != nil {
		return nil, nil, nil, err
	}
	idx := -1
	for i, e := range tbs {
		// the SPKI is the SEQUENCE right after the subject: version?, serial, sigalg, issuer, validity, subject, spki
		if e.Class == 0 && e.Tag == 16 {
			// count sequences: sigalg(1) issuer(2) validity(3) subject(4) spki(5)
			n := 0
			for _, p := range tbs[:i+1] {
				if p.Class == 0 && p.Tag == 16 {
					n++
				}
			}
			if n == 5 {
				idx = i
				break
			}
		}
	}
	if idx < 0 {
		return nil, nil, nil, fmt.Errorf("no spki")
	}
	sp, err := children(tbs[idx].FullBytes)
	if err != nil || len(sp) != 2 {
		return nil, nil, nil, fmt.Errorf("spki: %v", err)
	}
	ai, err := children(sp[0].FullBytes)
	if err != nil || len(ai) != 2 || !bytes.Equal(ai[1].FullBytes, []byte{5, 0}) {
		return nil, nil, nil, fmt.Errorf("algorithm identifier has no NULL")
	}
	newAI := derTLV(0x30, ai[0].FullBytes)
	newSPKI = derTLV(0x30, append(append([]byte{}, newAI...), sp[1].FullBytes...))
	var tb []byte
	for i, e := range tbs {
		if i == idx {
			tb = append(tb, newSPKI...)
		} else {
			tb = append(tb, e.FullBytes...)
		}
	}
	newTBS = derTLV(0x30, tb)
	newDER = derTLV(0x30, append(append(append([]byte{}, newTBS...), top[1].FullBytes...), top[2].FullBytes...))
	return
}

// withUniqueIDs re-encodes a certificate with issuerUniqueID [1] and/or subjectUniqueID [2] (IMPLICIT BIT STRING;
// the slices are the BIT STRING contents, first byte = number of unused bits) inserted after the SubjectPublicKeyInfo.
func withUniqueIDs(der, issuer, subject []byte) ([]byte, error) {
	top, err := children(der)
	if err != nil || len(top) != 3 {
		return nil, fmt.Errorf("top: %v", err)
	}
	tbs, err := children(top[0].FullBytes)
	if err != nil {
		return nil, err
	}
	if len(tbs) == 0 || !(tbs[0].Class == 2 && tbs[0].Tag == 0) {
		return nil, fmt.Errorf("no explicit version (v1 certificate)")
	}
	var tb []byte
	nseq, done := 0, false
	for _, e := range tbs {
		if e.Class == 2 && (e.Tag == 1 || e.Tag == 2) {
			return nil, fmt.Errorf("already has unique ids")
		}
		tb = append(tb, e.FullBytes...)
		if e.Class == 0 && e.Tag == 16 {
			nseq++
			if nseq == 5 && !done {
				done = true
				if issuer != nil {
					tb = append(tb, derTLV(0x81, issuer)...)
				}
				if subject != nil {
					tb = append(tb, derTLV(0x82, subject)...)
				}
			}
		}
	}
	if !done {
		return nil, fmt.Errorf("no spki")
	}
	newTBS := derTLV(0x30, tb)
	return derTLV(0x30, append(append(append([]byte{}, newTBS...), top[1].FullBytes...), top[2].FullBytes...)), nil
}

func pubEqual(a, b any) bool {
	type eq interface{ Equal(crypto.PublicKey) bool }
	if a == nil || b == nil {
		return a == nil && b == nil
	}
	if x, ok := a.(eq); ok {
		return x.Equal(b)
	}
	return reflect.DeepEqual(a, b)
}

// compare returns the name of the first field on which the lenient result
// disagrees with the reference, or "".
func compare(got, ref *x509.Certificate, raw bool) string {
	switch {
	case raw && !bytes.Equal(got.Raw, ref.Raw):
		return "Raw"
	case raw && !bytes.Equal(got.RawTBSCertificate, ref.RawTBSCertificate):
		return "RawTBSCertificate"
	case raw && !bytes.Equal(got.RawSubjectPublicKeyInfo, ref.RawSubjectPublicKeyInfo):
		return "RawSubjectPublicKeyInfo"
	case !bytes.Equal(got.RawSubject, ref.RawSubject):
		return "RawSubject"
	case !bytes.Equal(got.RawIssuer, ref.RawIssuer):
		return "RawIssuer"
	case !pubEqual(got.PublicKey, ref.PublicKey):
		return "PublicKey"
	case got.PublicKeyAlgorithm != ref.PublicKeyAlgorithm:
		return "PublicKeyAlgorithm"
	case !bytes.Equal(got.Signature, ref.Signature):
		return "Signature"
	case got.SignatureAlgorithm != ref.SignatureAlgorithm:
		return "SignatureAlgorithm"
	case got.SerialNumber == nil || got.SerialNumber.Cmp(ref.SerialNumber) != 0:
		return "SerialNumber"
	case got.Subject.ToRDNSequence().String() != ref.Subject.ToRDNSequence().String():
		return "Subject"
	case got.Issuer.ToRDNSequence().String() != ref.Issuer.ToRDNSequence().String():
		return "Issuer"
	case !got.NotBefore.Equal(ref.NotBefore):
		return "NotBefore"
	case !got.NotAfter.Equal(ref.NotAfter):
		return "NotAfter"
	case got.Version != ref.Version:
		return "Version"
	}
	if len(got.Extensions) != len(ref.Extensions) {
		return "Extensions(len)"
	}
	for i := range got.Extensions {
		a, b := got.Extensions[i], ref.Extensions[i]
		if !a.Id.Equal(b.Id) || a.Critical != b.Critical || !bytes.Equal(a.Value, b.Value) {
			return "Extensions"
		}
	}
	return ""
}

func refModHex(content []byte) string {
	v := new(big.Int).SetBytes(content).Uint64()
	h := fmt.Sprintf("%08x", v)
	out := make([]byte, 8)
	for i := range h {
		var d int
		fmt.Sscanf(string(h[i]), "%x", &d)
		out[i] = modhexAlphabet[d]
	}
	return string(out)
}

func onlyModHex(s string) bool {
	for _, ch := range s {
		if !strings.ContainsRune(modhexAlphabet, ch) {
			return false
		}
	}
	return true
}

func checkWellFormed(r *ev.Run, c *ev.Case, der []byte, cc certCase) (ref *x509.Certificate) {
	cc.DER = hex.EncodeToString(der)
	ref, rerr := x509.ParseCertificate(der)
	if rerr != nil {
		r.Count("generated certificates the reference parser refused (skipped)", 1)
		return nil
	}
	r.Eval(1)
	var got *x509.Certificate
	var err error
	if r.Guard(c, "ParseCertificate", cc, func() { got, err = yubiattest.ParseCertificate(der) }) {
		return ref
	}
	if err != nil || got == nil {
		r.Violation(c, "wellformed-refused:"+cc.Subject+":"+cc.Alg, fmt.Sprintf("err=%v case=%+v", err, cc), cc)
		return ref
	}
	if f := compare(got, ref, true); f != "" {
		r.Violation(c, "disagrees-with-stdlib:"+f+":"+cc.Subject, fmt.Sprintf("field %s differs; case=%+v", f, cc), cc)
		return ref
	}
	r.Nontrivial("cert:" + cc.DER[:64] + cc.DER[len(cc.DER)-64:])
	r.Count("well-formed accepted and equal ("+cc.Subject+")", 1)
	r.Count("signature algorithm "+cc.Alg, 1)
	// trailing data must be rejected
	for _, tail := range [][]byte{{0}, {0x30, 0}, {0xff, 0xff, 0xff}} {
		r.Eval(1)
		var g2 *x509.Certificate
		var e2 error
		d2 := append(append([]byte{}, der...), tail...)
		if r.Guard(c, "ParseCertificate(trailing)", cc, func() { g2, e2 = yubiattest.ParseCertificate(d2) }) {
			continue
		}
		if e2 == nil {
			_ = g2
			r.Violation(c, "trailing-data-accepted", fmt.Sprintf("tail=%x case=%+v", tail, cc), cc)
		} else {
			r.Count("trailing data rejected", 1)
		}
	}
	// the same certificate carrying the optional issuerUniqueID / subjectUniqueID members (RFC 5280 4.1.2.8) between
	// its key and its extensions: still a well-formed certificate, and the reference parser reads it
	for _, ids := range [][2][]byte{{{0, 0xde, 0xad}, nil}, {nil, {0, 1, 2, 3, 4}}, {{0, 0xff}, {3, 0xf8}}} {
		ud, uerr := withUniqueIDs(der, ids[0], ids[1])
		if uerr != nil {
			r.Count("unique-id variant not applicable", 1)
			break
		}
		ref2, e := x509.ParseCertificate(ud)
		if e != nil {
			r.Count("unique-id variant refused by the reference parser (skipped)", 1)
			continue
		}
		r.Eval(1)
		cc2 := cc
		cc2.DER = hex.EncodeToString(ud)
		var g *x509.Certificate
		var ge error
		if r.Guard(c, "ParseCertificate(unique ids)", cc2, func() { g, ge = yubiattest.ParseCertificate(ud) }) {
			continue
		}
		if ge != nil || g == nil {
			r.Violation(c, "wellformed-refused:unique-ids", fmt.Sprintf("err=%v case=%+v", ge, cc2), cc2)
			break
		}
		if f := compare(g, ref2, true); f != "" {
			r.Violation(c, "disagrees-with-stdlib:"+f+":unique-ids", fmt.Sprintf("field %s differs; case=%+v", f, cc2), cc2)
			break
		}
		r.Count("certificates with issuer/subject unique identifiers accepted and equal", 1)
	}
	// NULL-stripped variant for RSA subject keys
	if _, ok := ref.PublicKey.(*rsa.PublicKey); ok {
		nd, ntbs, nspki, serr := stripNULL(der)
		if serr != nil {
			r.Count("null-strip not applicable", 1)
			return ref
		}
		if _, e := x509.ParseCertificate(nd); e == nil {
			r.Count("null-stripped accepted by stdlib too", 1)
		}
		r.Eval(1)
		cc2 := cc
		cc2.DER = hex.EncodeToString(nd)
		var g3 *x509.Certificate
		var e3 error
		if r.Guard(c, "ParseCertificate(no NULL)", cc2, func() { g3, e3 = yubiattest.ParseCertificate(nd) }) {
			return ref
		}
		if e3 != nil || g3 == nil {
			r.Violation(c, "null-stripped-refused", fmt.Sprintf("err=%v case=%+v", e3, cc2), cc2)
			return ref
		}
		if f := compare(g3, ref, false); f != "" {
			r.Violation(c, "null-stripped-disagrees:"+f, fmt.Sprintf("case=%+v", cc2), cc2)
			return ref
		}
		if !bytes.Equal(g3.Raw, nd) || !bytes.Equal(g3.RawTBSCertificate, ntbs) || !bytes.Equal(g3.RawSubjectPublicKeyInfo, nspki) {
			r.Violation(c, "null-stripped-raw-bytes", fmt.Sprintf("case=%+v", cc2), cc2)
			return ref
		}
		r.Nontrivial("nonull:" + cc2.DER[:64] + cc2.DER[len(cc2.DER)-64:])
		r.Count("NULL-stripped RSA accepted and equal", 1)
	}
	return ref
}

var ring *ev.Ring

func parseDigest(data []byte) string {
	got, err := yubiattest.ParseCertificate(data)
	if got == nil {
		return fmt.Sprintf("nil err=%v", err != nil)
	}
	mh, merr := yubiattest.ModHex(got)
	return fmt.Sprintf("err=%v sig=%x serial=%v subj=%s iss=%s nb=%v ext=%d pk=%T %v modhex=%q/%v", err != nil, got.Signature, got.SerialNumber, got.Subject.String(), got.Issuer.String(), got.NotBefore.Unix(), len(got.Extensions), got.PublicKey, got.SignatureAlgorithm, mh, merr != nil)
}

func total(r *ev.Run, c *ev.Case, data []byte, what string) {
	r.Eval(1)
	if len(data) < 4096 {
		d := append([]byte{}, data...)
		defer func() {
			ring.Add(r, c, func() string { return ev.Digest(func() string { return parseDigest(d) }) }, ev.Digest(func() string { return parseDigest(d) }), hex.EncodeToString(d))
		}()
	}
	rec := map[string]string{"what": what, "der_hex": hex.EncodeToString(data)}
	r.Guard(c, "ParseCertificate("+what+")", rec, func() {
		got, err := yubiattest.ParseCertificate(data)
		if err == nil {
			r.Count("mutants still accepted", 1)
		} else {
			r.Count("mutants refused", 1)
		}
		if got != nil {
			r.Guard(c, "ModHex("+what+")", rec, func() {
				s, e := yubiattest.ModHex(got)
				if e == nil {
					r.Count("mutants with an extractable serial", 1)
					if len(s) != 8 || !onlyModHex(s) {
						r.Violation(c, "modhex-output-shape", fmt.Sprintf("%q", s), rec)
					}
				}
			})
		}
	})
}

func mutate(r *mrand.Rand, der []byte) []byte {
	b := append([]byte{}, der...)
	switch r.Intn(5) {
	case 0:
		p := r.Intn(len(b))
		b[p] ^= 1 << uint(r.Intn(8))
	case 1:
		p := r.Intn(len(b))
		b[p] = byte(r.Intn(256))
	case 2:
		p := r.Intn(len(b))
		b = append(b[:p], b[p+1:]...)
	case 3:
		p := r.Intn(len(b) + 1)
		b = append(b[:p], append([]byte{byte(r.Intn(256))}, b[p:]...)...)
	case 4:
		b = b[:r.Intn(len(b))]
	}
	return b
}

func main() {
	ev.MainIsolated("C16", "exploration", 40*time.Minute, func(r *ev.Run) {
		r.Rule("certificates from crypto/x509.CreateCertificate over subject keys {RSA-1024, RSA-2048, P-256, P-384, P-521} x issuer keys {RSA, P-256/384/521} x signature algorithms {SHA256/384/512 with RSA PKCS#1 and PSS, ECDSA with SHA256/384/512} x random subsets of extension kinds {basic constraints, key usage, SKI/AKI, SAN dns/email/ip, EKU incl. unknown, policies, AIA/CRL, Yubico vendor OIDs 3.3/3.7/3.8/3.9} plus the repository's testdata certificates; each: lenient parser vs crypto/x509 field by field, 3 trailing-data variants, NULL-stripped re-encoding (RSA), byte mutations (exhaustive single-byte-flip/delete/truncate at every offset for the first certificates, sampled for the rest), PEM bundles of 0..5, serial-extension values of every length 0..8 (exhaustive first two bytes over a tag/length grid) and sampled 3/4-byte serials. distinct_nontrivial = distinct certificates accepted-and-equal + distinct NULL-stripped encodings accepted + distinct serial values whose ModHex equalled the reference + distinct PEM bundles")
		r.Assume("crypto/x509.ParseCertificate is the reference for well-formed certificates", "ModHex reference: 16-symbol table cbdefghijklnrtuv over %08x of the unsigned serial")
		initKeys()
		ring = ev.NewRing("ParseCertificate", r.Seed, 53)
		ncert := r.Pick(300, 5000)
		var pool [][]byte
		var poolCases []certCase
		for i := 0; i < ncert; i++ {
			c := r.Case("cert", i)
			if c == nil {
				continue
			}
			der, cc, err := genCert(c.Rand)
			if err != nil {
				r.Count("generator errors (skipped)", 1)
				continue
			}
			checkWellFormed(r, c, der, cc)
			if len(pool) < 60 {
				pool = append(pool, der)
				poolCases = append(poolCases, cc)
			}
			if i < 3 {
				s := cc
				s.DER = hex.EncodeToString(der)[:80] + "…"
				r.Sample(s)
			}
		}
		// repository testdata
		repo := os.Getenv("VERIF_REPO_DIR")
		if repo == "" {
			repo = "/repo"
		}
		files, _ := filepath.Glob(filepath.Join(repo, "attestation/yubiattest/testdata/*.crt"))
		for i, f := range files {
			c := r.Case("testdata", i)
			if c == nil {
				continue
			}
			b, _ := os.ReadFile(f)
			for blk, rest := pem.Decode(b); blk != nil; blk, rest = pem.Decode(rest) {
				cc := certCase{Subject: "testdata:" + filepath.Base(f), Alg: "as-is"}
				if ref, e := x509.ParseCertificate(blk.Bytes); e == nil {
					cc.Alg = ref.SignatureAlgorithm.String()
					checkWellFormed(r, c, blk.Bytes, cc)
				} else {
					// firmware < 4.3.3 style certificates the stdlib refuses: totality only
					total(r, c, blk.Bytes, "testdata-nonconforming")
					r.Count("testdata certificates refused by stdlib (totality only)", 1)
				}
				pool = append(pool, blk.Bytes)
				poolCases = append(poolCases, cc)
			}
		}
		// mutations
		if r.Want("mutation") || r.Want("mutation-exh") {
			nexh := r.Pick(2, 12)
			for i := 0; i < nexh && i < len(pool); i++ {
				c := r.Case("mutation-exh", i)
				if c == nil {
					continue
				}
				d := pool[(i*7)%len(pool)]
				for p := 0; p < len(d); p++ {
					b := append([]byte{}, d...)
					b[p] ^= 0xff
					total(r, c, b, "flip")
					b[p] = d[p] ^ 0x01
					total(r, c, b, "flip1")
					total(r, c, append(append([]byte{}, d[:p]...), d[p+1:]...), "delete")
					total(r, c, d[:p], "truncate")
				}
			}
			nm := r.Pick(40000, 1500000)
			for i := 0; i < nm; i++ {
				c := r.Case("mutation", i)
				if c == nil {
					continue
				}
				d := pool[c.Rand.Intn(len(pool))]
				m := mutate(c.Rand, d)
				for k := c.Rand.Intn(3); k > 0 && len(m) > 0; k-- {
					m = mutate(c.Rand, m)
				}
				if len(m) == 0 {
					m = []byte{}
				}
				total(r, c, m, "mut")
			}
			for i := 0; i < r.Pick(2000, 50000); i++ {
				if c := r.Case("randombytes", i); c != nil {
					total(r, c, gen.Bytes(c.Rand, c.Rand.Intn(200)), "random")
				}
			}
		}
		extValues(r)
		pemBundles(r, pool)
		modhex(r, pool)
		if r.Replay == nil {
			ring.Stress(r, r.CaseAlways("stress", 0), 8, 2)
		}
		r.Floor(int64(r.Pick(40000, 1000000)), 300)
	})
}

// extValues: certificates whose standard extensions carry hand-chosen small DER values (empty BIT STRING,
// empty SEQUENCE, empty OCTET STRING, minimal and odd encodings): neither the parser nor the serial extractor may crash.
func extValues(r *ev.Run) {
	if !r.Want("extval") {
		return
	}
	oids := [][]int{{2, 5, 29, 15}, {2, 5, 29, 19}, {2, 5, 29, 17}, {2, 5, 29, 37}, {2, 5, 29, 14}, {2, 5, 29, 35}, {2, 5, 29, 32}, {2, 5, 29, 30}, {2, 5, 29, 31}, {1, 3, 6, 1, 5, 5, 7, 1, 1}, {1, 3, 6, 1, 4, 1, 41482, 3, 7}, {1, 3, 6, 1, 4, 1, 41482, 3, 3}}
	vals := [][]byte{{}, {0x03, 0x01, 0x00}, {0x03, 0x02, 0x07, 0x80}, {0x03, 0x02, 0x00, 0xff}, {0x03, 0x03, 0x07, 0xff, 0x80}, {0x03, 0x00}, {0x30, 0x00}, {0x30, 0x03, 0x01, 0x01, 0xff}, {0x30, 0x06, 0x01, 0x01, 0xff, 0x02, 0x01, 0x00}, {0x04, 0x00}, {0x04, 0x02, 0xaa, 0xbb},
		{0x30, 0x02, 0x80, 0x00}, {0x30, 0x04, 0x80, 0x02, 0x01, 0x02}, {0x30, 0x02, 0x82, 0x00}, {0x30, 0x05, 0x82, 0x03, 'a', '.', 'b'}, {0x30, 0x06, 0x87, 0x04, 1, 2, 3, 4}, {0x30, 0x05, 0x87, 0x03, 1, 2, 3}, {0x30, 0x02, 0x06, 0x00}, {0x30, 0x05, 0x06, 0x03, 0x2a, 0x03, 0x04},
		{0x30, 0x04, 0x30, 0x02, 0x06, 0x00}, {0x30, 0x07, 0x30, 0x05, 0x06, 0x03, 0x2a, 0x03, 0x04}, {0x02, 0x01, 0x05}, {0x02, 0x00}, {0x05, 0x00}, {0x01, 0x01, 0x00}, {0x30, 0x80}, {0x30, 0x81, 0x00}, {0xff}, {0x30, 0x03, 0xa0, 0x01, 0x00}, {0x30, 0x04, 0xa0, 0x02, 0x30, 0x00}, {0x30, 0x06, 0x30, 0x04, 0xa0, 0x02, 0xa0, 0x00}}
	idx := 0
	for _, o := range oids {
		for _, v := range vals {
			for _, crit := range []bool{false, true} {
				c := r.Case("extval", idx)
				idx++
				if c == nil {
					continue
				}
				sk := subjectKeys[idx%len(subjectKeys)]
				ik := issuerKeys[1]
				t := &x509.Certificate{SerialNumber: big.NewInt(int64(1000 + idx)), Subject: pkix.Name{CommonName: "ext"}, NotBefore: time.Unix(1500000000, 0), NotAfter: time.Unix(1900000000, 0),
					ExtraExtensions: []pkix.Extension{{Id: asn1.ObjectIdentifier(o), Critical: crit, Value: v}}}
				parent := &x509.Certificate{Subject: pkix.Name{CommonName: "issuer"}}
				der, err := x509.CreateCertificate(rand.Reader, t, parent, sk.priv.Public(), ik.priv)
				if err != nil {
					continue
				}
				cc := certCase{Subject: sk.name, Issuer: ik.name, Alg: "ECDSA-SHA256", Exts: fmt.Sprintf("%v=%x critical=%v", o, v, crit)}
				if _, e := x509.ParseCertificate(der); e == nil {
					// name constraints / critical unhandled extensions: the lenient parser may report UnhandledCriticalExtension; only agreement on acceptance of non-critical ones is demanded
					// acceptance by the (tolerant) standard library does not make a hand-built value well-formed X.509,
					// so only totality is demanded here; agreement is checked on conforming encoders' output above
					_ = cc
					total(r, c, der, "extension-value")
					r.Count("hand-built extension values accepted by the standard library (totality only)", 1)
				} else {
					total(r, c, der, "extension-value")
					r.Count("hand-built extension values refused by the standard library (totality only)", 1)
				}
			}
		}
	}
}

func pemBundles(r *ev.Run, pool [][]byte) {
	n := r.Pick(400, 8000)
	for i := 0; i < n; i++ {
		c := r.Case("pem", i)
		if c == nil {
			continue
		}
		k := c.Rand.Intn(6)
		withHeaders := 0
		var buf bytes.Buffer
		var want [][]byte
		lead := []string{"", "Bag Attributes\n  friendlyName: x\n", "subject=CN=foo\nissuer=CN=bar\n", "\n\n  \n", "0 s:/CN=slot\n   i:/CN=device\n", "01 - slot 9a attestation\n"}[c.Rand.Intn(6)]
		if c.Rand.Intn(4) == 0 {
			// leading text may begin with any character: none of them says what the rest is
			lead = string(rune(0x20+c.Rand.Intn(95))) + " certificate listing, exported " + []string{"today", "0", "\x30\x82"}[c.Rand.Intn(3)] + "\n"
		}
		if k > 0 {
			buf.WriteString(lead)
		}
		for j := 0; j < k; j++ {
			d := pool[c.Rand.Intn(len(pool))]
			if _, e := x509.ParseCertificate(d); e != nil {
				if _, e2 := yubiattest.ParseCertificate(d); e2 != nil {
					continue
				}
			}
			want = append(want, d)
			blk := &pem.Block{Type: "CERTIFICATE", Bytes: d}
			if c.Rand.Intn(5) == 0 {
				// a certificate block may carry RFC 1421 style headers (OpenSSL bag attributes exported that way, proxies' annotations)
				blk.Headers = map[string]string{"friendlyName": "slot 9a", "localKeyID": "01 02"}
				withHeaders++
			}
			pem.Encode(&buf, blk)
			if c.Rand.Intn(3) == 0 {
				buf.WriteString("\n")
			}
		}
		tail := []string{"", "\n", "  \n\t\r\n", "\n\n\n"}[c.Rand.Intn(4)]
		buf.WriteString(tail)
		data := buf.Bytes()
		rec := map[string]any{"certs": len(want), "blocks_with_headers": withHeaders, "lead": lead, "tail": tail, "bytes": len(data)}
		r.Eval(1)
		var got []*x509.Certificate
		var err error
		if r.Guard(c, "ParsePEMCertificates", rec, func() { got, err = utils.ParsePEMCertificates(data) }) {
			continue
		}
		if err != nil {
			r.Violation(c, fmt.Sprintf("pem-bundle-refused:n=%d", len(want)), fmt.Sprintf("err=%v rec=%v", err, rec), rec)
			continue
		}
		if len(got) != len(want) {
			r.Violation(c, fmt.Sprintf("pem-bundle-count:want=%d", len(want)), fmt.Sprintf("got %d certificates, want %d; rec=%v", len(got), len(want), rec), rec)
			continue
		}
		okOrder := true
		for j := range got {
			if !bytes.Equal(got[j].Raw, want[j]) {
				okOrder = false
			}
		}
		if !okOrder {
			r.Violation(c, "pem-bundle-order", fmt.Sprintf("rec=%v", rec), rec)
			continue
		}
		r.Nontrivial(fmt.Sprintf("pem:%x", data[:min(len(data), 48)]) + fmt.Sprint(len(data), len(want)))
		r.Count(fmt.Sprintf("PEM bundles of %d accepted in order", len(want)), 1)
		if len(want) > 0 {
			// ParsePEMCertificate returns the first
			one, e1 := utils.ParsePEMCertificate(data)
			if e1 != nil || !bytes.Equal(one.Raw, want[0]) {
				r.Violation(c, "pem-single-not-first", fmt.Sprintf("err=%v", e1), rec)
			}
		} else if _, e1 := utils.ParsePEMCertificate(data); e1 == nil {
			r.Violation(c, "pem-single-empty-accepted", "", rec)
		}
		// negative: trailing non-space garbage
		garbage := []string{"x", "garbage after\n", "-----BEGIN", "\x00", "-----END CERTIFICATE-----\n"}[c.Rand.Intn(5)]
		d2 := append(append([]byte{}, bytes.TrimRight(data, " \t\r\n")...), []byte("\n"+garbage)...)
		r.Eval(1)
		r.Guard(c, "ParsePEMCertificates(garbage)", rec, func() {
			g2, e2 := utils.ParsePEMCertificates(d2)
			if e2 == nil {
				r.Violation(c, "pem-trailing-garbage-accepted", fmt.Sprintf("garbage=%q got %d certificates rec=%v", garbage, len(g2), rec), rec)
			} else {
				r.Count("PEM trailing garbage rejected", 1)
			}
			// intact PEM armour around damaged DER (a byte appended inside the block, or the DER cut short): the bundle is refused,
			// wherever in it the damaged block sits — not returned without it
			if len(want) > 0 {
				pos := c.Rand.Intn(len(want) + 1)
				var b3 bytes.Buffer
				for j := 0; j <= len(want); j++ {
					if j == pos {
						d := want[c.Rand.Intn(len(want))]
						if c.Rand.Intn(2) == 0 {
							d = append(append([]byte{}, d...), 0x00)
						} else {
							d = d[:len(d)-1-c.Rand.Intn(8)]
						}
						pem.Encode(&b3, &pem.Block{Type: "CERTIFICATE", Bytes: d})
					}
					if j < len(want) {
						pem.Encode(&b3, &pem.Block{Type: "CERTIFICATE", Bytes: want[j]})
					}
				}
				r.Eval(1)
				if g3, e3 := utils.ParsePEMCertificates(b3.Bytes()); e3 == nil {
					r.Violation(c, "pem-bundle-with-damaged-certificate-accepted", fmt.Sprintf("block %d of %d holds DER with trailing data or cut short; ParsePEMCertificates returned %d certificates and no error", pos, len(want)+1, len(g3)), rec)
				} else {
					r.Count("PEM bundles with one damaged certificate refused", 1)
				}
				if pos > 0 {
					if one, e4 := utils.ParsePEMCertificate(b3.Bytes()); e4 == nil {
						r.Violation(c, "pem-bundle-with-damaged-certificate-accepted:single-certificate-entry-point", fmt.Sprintf("ParsePEMCertificate returned a certificate (%d bytes) although a later block of the input is damaged", len(one.Raw)), rec)
					}
				}
			}
			// the single-certificate entry point sees the same input the same way
			if one, e3 := utils.ParsePEMCertificate(d2); e3 == nil {
				r.Violation(c, "pem-trailing-garbage-accepted:single-certificate-entry-point", fmt.Sprintf("garbage=%q; ParsePEMCertificate returned a certificate (%d bytes) rec=%v", garbage, len(one.Raw), rec), rec)
			}
		})
	}
}

func modhex(r *ev.Run, pool [][]byte) {
	serialOID := oid(1, 3, 6, 1, 4, 1, 41482, 3, 7)
	call := func(c *ev.Case, value []byte, viaParser bool, extra []pkix.Extension) (string, error, bool) {
		rec := map[string]any{"serial_extension_value_hex": hex.EncodeToString(value), "via_parser": viaParser}
		var s string
		var err error
		exts := append(append([]pkix.Extension{}, extra...), pkix.Extension{Id: serialOID, Value: value})
		cert := &x509.Certificate{Extensions: exts}
		if viaParser {
			t := &x509.Certificate{SerialNumber: big.NewInt(7), Subject: pkix.Name{CommonName: "s"}, NotBefore: time.Unix(1500000000, 0), NotAfter: time.Unix(1900000000, 0), ExtraExtensions: []pkix.Extension{{Id: serialOID, Value: value}}}
			der, e := x509.CreateCertificate(rand.Reader, t, t, issuerKeys[1].priv.Public(), issuerKeys[1].priv)
			if e != nil {
				return "", nil, true
			}
			var pe error
			if r.Guard(c, "ParseCertificate(serial ext)", rec, func() { cert, pe = yubiattest.ParseCertificate(der) }) || pe != nil {
				return "", nil, true
			}
		}
		r.Eval(1)
		if r.Guard(c, "ModHex", rec, func() { s, err = yubiattest.ModHex(cert) }) {
			return "", nil, true
		}
		return s, err, false
	}
	judge := func(c *ev.Case, value []byte, s string, err error) {
		rec := map[string]any{"serial_extension_value_hex": hex.EncodeToString(value)}
		wellFormed := len(value) >= 2 && value[0] == 0x02 && int(value[1]) == len(value)-2
		n := len(value) - 2
		switch {
		case len(value) < 2:
			if err == nil {
				r.Violation(c, fmt.Sprintf("modhex-accepts-short-extension:len=%d", len(value)), fmt.Sprintf("%q", s), rec)
			}
			r.Count("serial extension shorter than a DER header -> error", 1)
		case wellFormed && (n == 3 || n == 4):
			want := refModHex(value[2:])
			if err != nil || s != want {
				r.Violation(c, fmt.Sprintf("modhex-wrong-value:n=%d", n), fmt.Sprintf("got %q err=%v want %q", s, err, want), rec)
				return
			}
			r.Nontrivial("serial:" + want)
			r.Count(fmt.Sprintf("%d-byte serial -> reference ModHex", n), 1)
		case wellFormed:
			if err == nil {
				r.Violation(c, fmt.Sprintf("modhex-accepts-serial-length:n=%d", n), fmt.Sprintf("%q", s), rec)
			}
			r.Count("serial of another length -> error", 1)
		default:
			// malformed DER: outcome is not fixed by the statement; shape only
			if err == nil && (len(s) != 8 || !onlyModHex(s)) {
				r.Violation(c, "modhex-output-shape", fmt.Sprintf("%q", s), rec)
			}
			r.Count("malformed serial encodings (shape only)", 1)
		}
	}
	idx := 0
	// every length 0..8 with a grid over tag and length bytes
	for L := 0; L <= 10; L++ {
		tags := []byte{0x02, 0x00, 0x04, 0x30, 0xff}
		lens := []int{L - 2, 0, 1, 3, 4, 5, 0x80, 0xff}
		if L < 2 {
			tags, lens = tags[:1+L*4], lens[:1]
		}
		for _, tg := range tags {
			for _, ln := range lens {
				for rep := 0; rep < 3; rep++ {
					c := r.Case("serialext", idx)
					idx++
					if c == nil {
						continue
					}
					v := gen.Bytes(c.Rand, L)
					if L >= 1 {
						v[0] = tg
					}
					if L >= 2 {
						v[1] = byte(ln)
					}
					if rep == 1 && L > 2 {
						for i := 2; i < L; i++ {
							v[i] = 0xff
						}
					}
					if rep == 2 && L > 2 {
						for i := 2; i < L; i++ {
							v[i] = 0
						}
					}
					s, err, skip := call(c, v, rep == 0 && L > 0, nil)
					if !skip {
						judge(c, v, s, err)
					}
				}
			}
		}
	}
	// missing extension
	if c := r.Case("serial-missing", 0); c != nil {
		// other identifiers — the firmware extension, a sibling arc, arcs BELOW and ABOVE the serial extension's, a longer
		// and a shorter look-alike — are not the serial extension
		for _, exts := range [][]pkix.Extension{nil, {{Id: oid(1, 3, 6, 1, 4, 1, 41482, 3, 3), Value: []byte{5, 4, 3}}}, {{Id: oid(1, 3, 6, 1, 4, 1, 41482, 3, 70), Value: derInt([]byte{1, 2, 3})}},
			{{Id: oid(1, 3, 6, 1, 4, 1, 41482, 3, 7, 1), Value: derInt([]byte{1, 2, 3, 4})}}, {{Id: oid(1, 3, 6, 1, 4, 1, 41482, 3, 7, 0), Value: derInt([]byte{1, 2, 3})}}, {{Id: oid(1, 3, 6, 1, 4, 1, 41482, 3), Value: derInt([]byte{1, 2, 3, 4})}},
			{{Id: oid(1, 3, 6, 1, 4, 1, 41482, 3, 7, 7, 7), Value: derInt([]byte{9, 9, 9})}}, {{Id: oid(1, 3, 6, 1, 4, 1, 41482, 4, 7), Value: derInt([]byte{1, 2, 3, 4})}}, {{Id: oid(2, 3, 6, 1, 4, 1, 41482, 3, 7), Value: derInt([]byte{1, 2, 3, 4})}}} {
			r.Eval(1)
			r.Guard(c, "ModHex(missing)", nil, func() {
				// (the certificate's own X.509 serial number is not the device serial, whatever its size)
				for _, sn := range []*big.Int{nil, big.NewInt(0x01abcdef), big.NewInt(0x010203), big.NewInt(0xffffffff), big.NewInt(7), new(big.Int).Lsh(big.NewInt(1), 120)} {
					if s, err := yubiattest.ModHex(&x509.Certificate{Extensions: exts, SerialNumber: sn}); err == nil {
						r.Violation(c, "modhex-without-serial-extension", fmt.Sprintf("%q (certificate serial number %v)", s, sn), nil)
					} else {
						r.Count("missing serial extension -> error", 1)
					}
				}
			})
		}
	}
	// the serial extension next to look-alikes (before and after it): the serial is the serial extension's
	if c := r.Case("serial-beside-lookalikes", 0); c != nil {
		real := pkix.Extension{Id: oid(1, 3, 6, 1, 4, 1, 41482, 3, 7), Value: derInt([]byte{0x00, 0xab, 0xcd, 0xef})}
		want := refModHex([]byte{0x00, 0xab, 0xcd, 0xef})
		for _, other := range []pkix.Extension{{Id: oid(1, 3, 6, 1, 4, 1, 41482, 3, 7, 1), Value: derInt([]byte{1, 2, 3, 4})}, {Id: oid(1, 3, 6, 1, 4, 1, 41482, 3, 70), Value: derInt([]byte{1, 2, 3})}, {Id: oid(1, 3, 6, 1, 4, 1, 41482, 3), Value: derInt([]byte{5, 6, 7})}} {
			for _, exts := range [][]pkix.Extension{{real, other}, {other, real}, {other, real, other}} {
				r.Eval(1)
				r.Guard(c, "ModHex(look-alikes)", nil, func() {
					if s, err := yubiattest.ModHex(&x509.Certificate{Extensions: exts}); err != nil || s != want {
						r.Violation(c, "modhex-wrong-value:beside-a-look-alike-extension", fmt.Sprintf("extensions %v: got %q err=%v, want %q", exts, s, err, want), nil)
					} else {
						r.Count("serial extension beside look-alike identifiers -> the serial extension's value", 1)
					}
				})
			}
		}
	}
	// sampled serials: equality with the reference implies injectivity; the set check is explicit anyway
	seen := map[string]uint64{}
	n := r.Pick(40000, 1<<20)
	boundary := []uint32{0, 1, 0xff, 0x100, 0xffff, 0x10000, 0xffffff, 0x1000000, 0x7fffffff, 0x80000000, 0xffffffff, 0x00abcdef, 0x12345678}
	for i := 0; i < n; i++ {
		c := r.Case("serial", i)
		if c == nil {
			continue
		}
		var x uint32
		if i < len(boundary) {
			x = boundary[i]
		} else {
			x = c.Rand.Uint32()
			if i%3 == 0 {
				x &= 0xffffff
			}
		}
		var content []byte
		if x <= 0xffffff && i%2 == 0 {
			content = []byte{byte(x >> 16), byte(x >> 8), byte(x)}
		} else {
			content = []byte{byte(x >> 24), byte(x >> 16), byte(x >> 8), byte(x)}
		}
		v := derInt(content)
		s, err, skip := call(c, v, false, []pkix.Extension{{Id: oid(2, 5, 29, 15), Value: []byte{3, 2, 5, 160}}})
		if skip {
			continue
		}
		judge(c, v, s, err)
		if err == nil {
			if prev, ok := seen[s]; ok && prev != uint64(x) {
				r.Violation(c, "modhex-collision", fmt.Sprintf("%q for serials %d and %d", s, prev, x), nil)
			}
			seen[s] = uint64(x)
		}
	}
	r.Extra("distinct_serials_checked", len(seen))
}
