// C18 — the RA talks only to CA servers authenticated by the configured CA bundle.
package main

import (
	"bytes"
	"context"
	"crypto/tls"
	"crypto/x509"
	"encoding/pem"
	"fmt"
	"os"
	"path/filepath"
	"strings"
	"sync"
	"time"

	"github.com/theparanoids/crypki/proto"
	"golang.org/x/crypto/ssh"
	"google.golang.org/grpc"
	"google.golang.org/grpc/credentials"

	"github.com/theparanoids/ysshra/config"
	"github.com/theparanoids/ysshra/crypki"
	"github.com/theparanoids/ysshra/tlsutils"
	"github.com/theparanoids/ysshra/verifharness/lib/caserver"
	"github.com/theparanoids/ysshra/verifharness/lib/ev"
	"github.com/theparanoids/ysshra/verifharness/lib/gen"
)

// identity kinds of a server
var identities = []string{"genuine", "issued-by-second-ca", "foreign-ca", "self-signed", "expired", "expired-one-minute-ago", "not-yet-valid", "valid-in-one-minute", "wrong-name", "name-of-first-endpoint", "system-pool-only", "dns-name-only", "genuine-no-eku", "issued-by-client-cert-issuer", "genuine-rsa-key", "genuine-p384-p521-groups-only", "genuine-with-stale-extra-certificate"}
var protocols = []string{"tls12+", "tls12-only", "tls13-only", "tls10-11-only"}
var clientPolicies = []string{"none", "request", "require-any", "require-verify", "require-any-other-ca-hint"}

type variant struct {
	Identity string `json:"identity"`
	Protocol string `json:"protocol"`
	Client   string `json:"client_cert_policy"`
}

// genuine: the server chains to a CA of THIS configuration's bundle (CA 2 is in two of the three bundles),
// matches the endpoint address, is currently valid and speaks TLS >= 1.2.
func (v variant) genuine(bundle string) bool {
	switch v.Identity {
	case "genuine", "genuine-no-eku", "genuine-rsa-key", "genuine-p384-p521-groups-only", "genuine-with-stale-extra-certificate":
	case "issued-by-second-ca":
		if bundle == "one-file-one-ca" {
			return false
		}
	default:
		return false
	}
	return v.Protocol != "tls10-11-only"
}

type caseRec struct {
	Bundle    string    `json:"bundle"`
	Endpoints []string  `json:"endpoints"`
	Variants  []variant `json:"servers"`
	Result    string    `json:"result"`
}

func main() {
	// a CA that is trusted only through the process-wide system pool: must be set before the pool is first used
	sysDir, _ := os.MkdirTemp("", "sys")
	sysCA := caserver.NewCA("verif system-pool-only CA")
	os.WriteFile(filepath.Join(sysDir, "system.pem"), sysCA.PEM, 0o600)
	os.Setenv("SSL_CERT_FILE", filepath.Join(sysDir, "system.pem"))
	os.Setenv("SSL_CERT_DIR", sysDir)
	defer os.RemoveAll(sysDir)
	ev.MainIsolated("C18", "exploration", 60*time.Minute, func(r *ev.Run) {
		defer os.RemoveAll(sysDir)
		r.Rule("real gRPC/TLS servers on 127.0.0.2..4 (one shared port) whose identity is one of {issued by a configured CA (first or second bundle CA), foreign CA, self-signed, expired, not yet valid, valid for another address, valid for the FIRST endpoint's address only, issued by a CA trusted only via SSL_CERT_FILE (the process system pool), issued by the CA of the RA's own client certificate (which is in the client certificate file, not in the bundle), DNS name only, genuine without an extended-key-usage extension}, protocol range in {>=1.2, 1.2 only, 1.3 only, 1.0-1.1 only}, client-certificate policy in {none, request, require any, require and verify, require any with another CA advertised}; bundles of 1 or 2 files holding 1..3 CA certificates; endpoint lists of 1..3 with genuine and impostor servers at every position. Each server records its handshakes (version, peer certificates) and the RPCs it handled. Beside that, one long-lived signer whose client certificate lapses 2..3 s after construction signs before and after the lapse against a genuine server that requests a client certificate. Violations: an RPC handled by a non-genuine server or below TLS 1.2; the RA presenting no or another client certificate to a genuine server that asks for one; Sign failing although a genuine endpoint follows impostors; Sign succeeding with an impostor's certificates. distinct_nontrivial = distinct (bundle, endpoint list, per-server variant) configurations judged")
		r.Assume("no DNS in the sandbox: endpoint names are IP addresses, matched against IP SANs", "chain validity uses the real clock; margins of 24 h and of one minute", "Retries: 1")
		gen.Pool()
		dir, err := os.MkdirTemp("", "tls")
		if err != nil {
			r.Inconclusive(err.Error())
			return
		}
		defer os.RemoveAll(dir)
		ca1, ca2, ca3, foreign, clientCA := caserver.NewCA("verif CA 1"), caserver.NewCA("verif CA 2"), caserver.NewCA("verif CA 3"), caserver.NewCA("verif foreign CA"), caserver.NewCA("verif other client CA")
		write := func(name string, pems ...[]byte) string {
			p := filepath.Join(dir, name)
			os.WriteFile(p, bytes.Join(pems, []byte("\n")), 0o600)
			return p
		}
		bundles := map[string][]string{
			"one-file-one-ca":    {write("b1.pem", ca1.PEM)},
			"one-file-three-cas": {write("b3.pem", ca3.PEM, ca1.PEM, ca2.PEM)},
			"two-files":          {write("b2a.pem", ca1.PEM), write("b2b.pem", ca2.PEM)},
			// files that do not end in a newline (the PEM END line is the last byte), three files
			"three-files-no-trailing-newline": {write("b4a.pem", bytes.TrimRight(ca3.PEM, "\n")), write("b4b.pem", bytes.TrimRight(ca1.PEM, "\n")), write("b4c.pem", bytes.TrimRight(ca2.PEM, "\n"))},
		}
		// a bundle as found in the wild: explanatory text between the blocks and PEM blocks that are not
		// certificates (a CRL, EC parameters) before and between the CA certificates
		crl := pem.EncodeToMemory(&pem.Block{Type: "X509 CRL", Bytes: []byte{0x30, 0x03, 0x02, 0x01, 0x01}})
		ecp := pem.EncodeToMemory(&pem.Block{Type: "EC PARAMETERS", Bytes: []byte{0x06, 0x08, 0x2a, 0x86, 0x48, 0xce, 0x3d, 0x03, 0x01, 0x07}})
		// a long bundle: 300 KiB of other CA certificates and comments before the CA that matters
		{
			var parts [][]byte
			for len(bytes.Join(parts, nil)) < 300<<10 {
				parts = append(parts, []byte("# an unrelated authority\n"), caserver.NewCA("verif filler CA").PEM)
			}
			parts = append(parts, ca1.PEM, ca2.PEM)
			bundles["one-file-long"] = []string{write("b6.pem", parts...)}
		}
		// a file name with shell-pattern characters, next to a file that the pattern would match and that holds a foreign CA
		write("ca1.pem", foreign.PEM)
		bundles["file-name-with-brackets"] = []string{write("ca[1].pem", ca1.PEM), write("c?2*.pem", ca2.PEM)}
		write("cx2yz.pem", foreign.PEM)
		// a CA whose key was rolled over: two certificates with the same subject name and different keys, the current one last
		bundles["same-subject-rollover"] = []string{write("b7.pem", caserver.NewCA("verif CA 1").PEM, caserver.NewCA("verif CA 2").PEM, ca1.PEM, ca2.PEM)}
		bundles["one-file-mixed-blocks"] = []string{write("b5.pem", []byte("# CA bundle of the signing service\n# Subject: CN=verif CA 3"), ca3.PEM, crl, []byte("Subject: CN=verif CA 1\nIssuer: self"), ca1.PEM, ecp, crl, ca2.PEM, []byte("# end"))}
		// beside everything else (it has to wait for a certificate to lapse): a long-lived signer whose client
		// certificate expires while it is in use still presents the configured certificate
		var lwg sync.WaitGroup
		lwg.Add(1)
		go func() { defer lwg.Done(); lapsingClientCert(r, dir, ca1) }()
		lwg.Add(1)
		go func() { defer lwg.Done(); clientFilesBroken(r, dir, ca1) }()
		defer lwg.Wait()
		// the RA's client certificate comes from a CA of its own, which is NOT among the configured server CAs; the
		// certificate file holds the chain (leaf first, then that CA), as deployments with an intermediate do
		// (root -> intermediate -> leaf; servers that verify client certificates know the ROOT only, so the RA has to
		// present the intermediate from its file along with the leaf)
		clientRoot := caserver.NewCA("verif client-certificate root")
		clientIssuer := clientRoot.Intermediate("verif client-certificate issuer")
		client := clientIssuer.Issue(caserver.Leaf{CN: "ra-client", Client: true})
		clientCert, clientKey := caserver.WritePEM(dir, "client", client)
		if pemLeaf, rerr := os.ReadFile(clientCert); rerr == nil {
			os.WriteFile(clientCert, append(append(pemLeaf, '\n'), clientIssuer.PEM...), 0o600)
		}
		lwg.Add(1)
		go func() { defer lwg.Done(); twoSigners(r, dir, ca1, ca2, clientCert, clientKey) }()
		lwg.Add(1)
		go func() { defer lwg.Done(); stagedCA(r, dir, ca1, clientCert, clientKey) }()
		lwg.Add(1)
		go func() { defer lwg.Done(); lapsingServerCert(r, dir, ca1, clientCert, clientKey) }()
		lwg.Add(1)
		go func() { defer lwg.Done(); recoveringEndpoint(r, dir, ca1, ca2, clientCert, clientKey) }()
		lwg.Add(1)
		go func() { defer lwg.Done(); concurrentConstruction(r, dir, ca1, ca2, clientCert, clientKey) }()
		ips := []string{"127.0.0.2", "127.0.0.3", "127.0.0.4"}
		n := r.Pick(600, 6000)
		for i := 0; i < n; i++ {
			c := r.Case("config", i)
			if c == nil {
				continue
			}
			rng := c.Rand
			bname := []string{"one-file-one-ca", "one-file-three-cas", "two-files", "three-files-no-trailing-newline", "one-file-mixed-blocks", "one-file-long", "file-name-with-brackets", "same-subject-rollover"}[rng.Intn(8)]
			nEp := 1 + rng.Intn(3)
			perm := rng.Perm(3)
			var list []string
			for k := 0; k < nEp; k++ {
				list = append(list, ips[perm[k]])
			}
			vars := make([]variant, nEp)
			for k := range vars {
				v := variant{Identity: identities[rng.Intn(len(identities))], Protocol: protocols[rng.Intn(len(protocols))], Client: clientPolicies[rng.Intn(len(clientPolicies))]}
				if rng.Intn(3) == 0 {
					v.Identity = "genuine"
				}
				if v.Identity == "name-of-first-endpoint" && k == 0 {
					v.Identity = "wrong-name"
				}
				vars[k] = v
			}
			rec := caseRec{Bundle: bname, Endpoints: list, Variants: vars}
			r.Eval(1)
			r.Guard(c, "tls configuration", rec, func() {
				judge(r, c, rec, bundles[bname], clientCert, clientKey, client, list, vars, ca1, ca2, foreign, sysCA, clientCA, clientIssuer, clientRoot)
			})
			if i < 3 {
				r.Sample(rec)
			}
		}
		// unusable bundles: construction must fail, or the resulting signer must trust nobody (in particular not the
		// process-wide system pool, which contains the "system-pool-only" CA here)
		garbage := write("garbage.pem", []byte("-----BEGIN CERTIFICATE-----\nnot base64\n-----END CERTIFICATE-----\n"))
		empty := write("empty.pem", nil)
		for bi, bundle := range [][]string{{filepath.Join(dir, "does-not-exist.pem")}, {garbage}, {empty}, {bundles["one-file-one-ca"][0], garbage}, nil, {}} {
			c := r.Case("bad-bundle", bi)
			if c == nil {
				continue
			}
			r.Eval(1)
			rec := map[string]any{"bundle": bundle}
			r.Guard(c, "unusable bundle", rec, func() {
				sysCert := sysCA.Issue(caserver.Leaf{CN: "crypki", IPs: []string{"127.0.0.2"}})
				servers, port, err := caserver.StartGroup([]string{"127.0.0.2"}, []*tls.Config{{Certificates: []tls.Certificate{sysCert}, MinVersion: tls.VersionTLS12}})
				if err != nil {
					r.Inconclusive("cannot start server: " + err.Error())
					return
				}
				defer servers[0].Stop()
				ct := gen.MakeCert(gen.CertSpec{Key: gen.Pool()[0], KeyID: "from-system-pool-server", ValidAfter: 1, ValidBefore: 1 << 40})
				servers[0].Set(func(context.Context, *proto.SSHCertificateSigningRequest) (*proto.SSHKey, error) {
					return &proto.SSHKey{Key: string(ssh.MarshalAuthorizedKey(ct))}, nil
				})
				signer, err := crypki.NewSigner(crypki.SignerConfig{TLSClientKeyFile: clientKey, TLSClientCertFile: clientCert, TLSCACertFiles: bundle, CrypkiEndpoints: []string{"127.0.0.2"}, CrypkiPort: uint(port), Retries: 1, PerTryTimeout: 10 * time.Second})
				if err != nil {
					r.Count("unusable bundle refused at construction", 1)
					r.Nontrivial(fmt.Sprintf("bad-bundle:%d", bi))
					return
				}
				ctx, cancel := context.WithTimeout(context.Background(), 60*time.Second)
				defer cancel()
				certs, _, serr := signer.Sign(ctx, &proto.SSHCertificateSigningRequest{KeyMeta: &proto.KeyMeta{Identifier: "x"}, Principals: []string{"a"}, PublicKey: "k", Validity: 60})
				if serr == nil || len(servers[0].Calls()) > 0 {
					r.Violation(c, fmt.Sprintf("unusable-bundle-falls-back-to-other-trust:bundle#%d", bi), fmt.Sprintf("bundle %v: Sign err=%v certs=%d, the server trusted only through the system pool handled %d RPCs", bundle, serr, len(certs), len(servers[0].Calls())), rec)
					return
				}
				r.Count("unusable bundle accepted at construction but trusts nobody", 1)
				r.Nontrivial(fmt.Sprintf("bad-bundle:%d", bi))
			})
		}
		r.Floor(int64(r.Pick(600, 6000)), int64(r.Pick(400, 4000)))
	})
}

// twoSigners: one server (certificate from CA A) stays up while two signers are used in turn: the first trusts CA A and
// signs; the second trusts CA B only. What the first one negotiated with that server (a TLS session it could resume)
// is no reason for the second to talk to it: the second signer fails and the server handles no request of its.
func twoSigners(r *ev.Run, dir string, caA, caB *caserver.CA, clientCert, clientKey string) {
	c := r.Case("two-signers-one-server", 0)
	if c == nil {
		return
	}
	sub := filepath.Join(dir, "two")
	os.Mkdir(sub, 0o700)
	pa, pb := filepath.Join(sub, "a.pem"), filepath.Join(sub, "b.pem")
	os.WriteFile(pa, caA.PEM, 0o600)
	os.WriteFile(pb, caB.PEM, 0o600)
	ip := "127.0.1.78"
	for _, proto12 := range []bool{false, true} {
		conf := &tls.Config{Certificates: []tls.Certificate{caA.Issue(caserver.Leaf{CN: "crypki", IPs: []string{ip}})}, MinVersion: tls.VersionTLS12}
		if proto12 {
			conf.MaxVersion = tls.VersionTLS12
		}
		servers, port, err := caserver.StartGroup([]string{ip}, []*tls.Config{conf})
		if err != nil {
			r.Count("two signers: cannot start server (skipped)", 1)
			return
		}
		now64 := uint64(time.Now().Unix())
		text := string(ssh.MarshalAuthorizedKey(gen.MakeCert(gen.CertSpec{Key: gen.Pool()[0], KeyID: "two", ValidAfter: now64 - 10, ValidBefore: now64 + 100})))
		servers[0].Set(func(context.Context, *proto.SSHCertificateSigningRequest) (*proto.SSHKey, error) {
			return &proto.SSHKey{Key: text}, nil
		})
		rec := map[string]any{"tls12_only": proto12}
		r.Eval(1)
		r.Guard(c, "two signers, one server", rec, func() {
			sign := func(bundle string) (int, error) {
				s, err := crypki.NewSigner(crypki.SignerConfig{TLSClientKeyFile: clientKey, TLSClientCertFile: clientCert, TLSCACertFiles: []string{bundle}, CrypkiEndpoints: []string{ip}, CrypkiPort: uint(port), Retries: 1, PerTryTimeout: 10 * time.Second})
				if err != nil {
					return 0, err
				}
				if bundle == pb {
					// a caller that builds its own connection from the signer's options and swaps in credentials of
					// its own (which trust the server's CA): what the signer itself trusts stays what was configured
					opts := s.DialOptions()
					pool := x509.NewCertPool()
					pool.AddCert(caA.Cert)
					for i := range opts {
						opts[i] = grpc.WithTransportCredentials(credentials.NewTLS(&tls.Config{RootCAs: pool, MinVersion: tls.VersionTLS12}))
					}
					r.Count("signers whose handed-out dial options were overwritten by the caller", 1)
				}
				ctx, cancel := context.WithTimeout(context.Background(), 30*time.Second)
				defer cancel()
				certs, _, serr := s.Sign(ctx, &proto.SSHCertificateSigningRequest{KeyMeta: &proto.KeyMeta{Identifier: "x"}, Principals: []string{"a"}, PublicKey: "k", Validity: 60})
				return len(certs), serr
			}
			for round := 0; round < 3; round++ {
				if n, err := sign(pa); err != nil || n != 1 {
					r.Violation(c, "sign-fails-although-a-genuine-endpoint-is-configured:two-signers", fmt.Sprintf("first signer (trusts the server's CA): certs=%d err=%v", n, err), rec)
					return
				}
				before := len(servers[0].Calls())
				n, err := sign(pb)
				if err == nil || len(servers[0].Calls()) != before {
					r.Violation(c, "rpc-handled-by-non-genuine-server:trusted-by-an-earlier-signer-only", fmt.Sprintf("round %d: the second signer trusts another CA only, yet Sign returned certs=%d err=%v and the server handled %d request(s) of it", round, n, err, len(servers[0].Calls())-before), rec)
					return
				}
			}
			// the same through the configuration map the gensign binary reads: a configuration that lists fewer CA files
			// (or endpoints) than one decoded earlier in the process trusts what IT lists
			signConf := func(bundles []string) (int, error) {
				var bl []any
				for _, b := range bundles {
					bl = append(bl, b)
				}
				m := map[string]any{"tls_client_key_file": clientKey, "tls_client_cert_file": clientCert, "tls_ca_cert_files": bl, "crypki_endpoints": []any{ip}, "crypki_port": port, "retries": 1, "per_try_timeout": "10s"}
				s, err := crypki.NewSignerWithGensignConf(config.GensignConfig{SignerConfig: m})
				if err != nil {
					return 0, err
				}
				ctx, cancel := context.WithTimeout(context.Background(), 30*time.Second)
				defer cancel()
				certs, _, serr := s.Sign(ctx, &proto.SSHCertificateSigningRequest{KeyMeta: &proto.KeyMeta{Identifier: "x"}, Principals: []string{"a"}, PublicKey: "k", Validity: 60})
				return len(certs), serr
			}
			for round := 0; round < 2; round++ {
				if n, err := signConf([]string{pb, pa}); err != nil || n != 1 {
					r.Violation(c, "sign-fails-although-a-genuine-endpoint-is-configured:two-signers:configuration-map", fmt.Sprintf("signer from a map listing both CA files: certs=%d err=%v", n, err), rec)
					return
				}
				before := len(servers[0].Calls())
				n, err := signConf([]string{pb})
				if err == nil || len(servers[0].Calls()) != before {
					r.Violation(c, "rpc-handled-by-non-genuine-server:trusted-by-an-earlier-configuration-only", fmt.Sprintf("round %d: a signer from a map listing the other CA's file only, decoded after a map that listed both: Sign returned certs=%d err=%v and the server handled %d requests", round, n, err, len(servers[0].Calls())-before), rec)
					return
				}
			}
			r.Count("signers from a shorter configuration map decoded after a longer one: refused", 2)
			r.Count("signers with another bundle used after a signer that trusted the server: refused", 3)
			r.Nontrivial(fmt.Sprintf("two-signers:%v", proto12))
		})
		servers[0].Stop()
	}
}

// lapsingClientCert: the client certificate is valid when the signer is built and lapses 2..3 s later. A genuine
// server that requests (but does not verify) a client certificate must see the configured certificate before and after.
func lapsingClientCert(r *ev.Run, dir string, ca *caserver.CA) {
	c := r.Case("lapsing-client-cert", 0)
	if c == nil {
		return
	}
	start := time.Now()
	lapse := start.Add(3 * time.Second)
	cl := ca.Issue(caserver.Leaf{CN: "ra-client-short-lived", Client: true, NotBefore: start.Add(-time.Hour), NotAfter: lapse})
	sub := filepath.Join(dir, "lapsing")
	os.Mkdir(sub, 0o700)
	certPath, keyPath := caserver.WritePEM(sub, "client", cl)
	caPath := filepath.Join(sub, "ca.pem")
	os.WriteFile(caPath, ca.PEM, 0o600)
	ip := "127.0.1.77"
	conf := &tls.Config{Certificates: []tls.Certificate{ca.Issue(caserver.Leaf{CN: "crypki", IPs: []string{ip}})}, MinVersion: tls.VersionTLS12, ClientAuth: tls.RequestClientCert}
	servers, port, err := caserver.StartGroup([]string{ip}, []*tls.Config{conf})
	if err != nil {
		r.Count("lapsing client certificate: cannot start server (skipped)", 1)
		return
	}
	defer servers[0].Stop()
	now64 := uint64(start.Unix())
	text := string(ssh.MarshalAuthorizedKey(gen.MakeCert(gen.CertSpec{Key: gen.Pool()[0], KeyID: "lapsing", ValidAfter: now64 - 10, ValidBefore: now64 + 100})))
	rec := map[string]any{"client_certificate_not_after": lapse.Format(time.RFC3339)}
	r.Eval(1)
	r.Guard(c, "lapsing client certificate", rec, func() {
		signer, err := crypki.NewSigner(crypki.SignerConfig{TLSClientKeyFile: keyPath, TLSClientCertFile: certPath, TLSCACertFiles: []string{caPath}, CrypkiEndpoints: []string{ip}, CrypkiPort: uint(port), Retries: 1, PerTryTimeout: 10 * time.Second})
		if err != nil {
			r.Violation(c, "signer-construction-fails", err.Error(), rec)
			return
		}
		look := func(when string) bool {
			servers[0].Set(func(context.Context, *proto.SSHCertificateSigningRequest) (*proto.SSHKey, error) {
				return &proto.SSHKey{Key: text}, nil
			})
			ctx, cancel := context.WithTimeout(context.Background(), 60*time.Second)
			defer cancel()
			_, _, serr := signer.Sign(ctx, &proto.SSHCertificateSigningRequest{KeyMeta: &proto.KeyMeta{Identifier: "x"}, Principals: []string{"a"}, PublicKey: "k", Validity: 60})
			hs := servers[0].Handshakes()
			if len(hs) == 0 {
				r.Count("lapsing client certificate: no handshake observed "+when+" (not judged)", 1)
				return false
			}
			for _, h := range hs {
				if len(h.PeerCerts) == 0 || !bytes.Equal(h.PeerCerts[0], cl.Certificate[0]) {
					r.Violation(c, "configured-client-certificate-not-presented:"+when+"-it-lapsed", fmt.Sprintf("the server requested a client certificate and saw %d peer certificates (Sign err=%v) at %s; the configured certificate is valid until %s", len(h.PeerCerts), serr, time.Now().Format(time.RFC3339), lapse.Format(time.RFC3339)), rec)
					return false
				}
			}
			r.Count("handshakes carrying the configured client certificate "+when+" it lapsed", len(hs))
			return true
		}
		if time.Since(start) < time.Second {
			if !look("before") {
				return
			}
		}
		if d := time.Until(lapse.Add(1200 * time.Millisecond)); d > 0 {
			time.Sleep(d)
		}
		if look("after") {
			r.Nontrivial("lapsing-client-cert")
		}
	})
}

func judge(r *ev.Run, c *ev.Case, rec caseRec, bundle []string, clientCert, clientKey string, client tls.Certificate, list []string, vars []variant, ca1, ca2, foreign, sysCA, clientCA, clientIssuer, clientRoot *caserver.CA) {
	now := time.Now()
	var confs []*tls.Config
	for k, v := range vars {
		ip := list[k]
		var cert tls.Certificate
		switch v.Identity {
		case "genuine":
			cert = ca1.Issue(caserver.Leaf{CN: "crypki", IPs: []string{ip}})
		case "issued-by-second-ca":
			cert = ca2.Issue(caserver.Leaf{CN: "crypki", IPs: []string{ip}})
		case "foreign-ca":
			cert = foreign.Issue(caserver.Leaf{CN: "crypki", IPs: []string{ip}})
		case "self-signed":
			cert = ca1.Issue(caserver.Leaf{CN: "crypki", IPs: []string{ip}, SelfSigned: true})
		case "expired":
			cert = ca1.Issue(caserver.Leaf{CN: "crypki", IPs: []string{ip}, NotBefore: now.Add(-1000 * time.Hour), NotAfter: now.Add(-24 * time.Hour)})
		case "expired-one-minute-ago":
			cert = ca1.Issue(caserver.Leaf{CN: "crypki", IPs: []string{ip}, NotBefore: now.Add(-1000 * time.Hour), NotAfter: now.Add(-time.Minute)})
		case "valid-in-one-minute":
			cert = ca1.Issue(caserver.Leaf{CN: "crypki", IPs: []string{ip}, NotBefore: now.Add(time.Minute), NotAfter: now.Add(1000 * time.Hour)})
		case "not-yet-valid":
			cert = ca1.Issue(caserver.Leaf{CN: "crypki", IPs: []string{ip}, NotBefore: now.Add(24 * time.Hour), NotAfter: now.Add(1000 * time.Hour)})
		case "wrong-name":
			cert = ca1.Issue(caserver.Leaf{CN: "crypki", IPs: []string{"127.0.0.9"}})
		case "name-of-first-endpoint":
			cert = ca1.Issue(caserver.Leaf{CN: "crypki", IPs: []string{list[0]}})
		case "system-pool-only":
			cert = sysCA.Issue(caserver.Leaf{CN: "crypki", IPs: []string{ip}})
		case "genuine-no-eku":
			cert = ca1.Issue(caserver.Leaf{CN: "crypki", IPs: []string{ip}, NoEKU: true})
		case "genuine-rsa-key": // another key type than the RA's own client certificate has
			cert = ca1.Issue(caserver.Leaf{CN: "crypki", IPs: []string{ip}, RSA: true})
		case "genuine-p384-p521-groups-only": // a front end whose policy allows the larger NIST groups only
			cert = ca1.Issue(caserver.Leaf{CN: "crypki", IPs: []string{ip}})
		case "genuine-with-stale-extra-certificate": // the server's certificate message also carries a lapsed certificate that is not on the path
			cert = ca1.Issue(caserver.Leaf{CN: "crypki", IPs: []string{ip}})
			stale := ca1.Issue(caserver.Leaf{CN: "old cross certificate", NotBefore: now.Add(-2000 * time.Hour), NotAfter: now.Add(-1000 * time.Hour)})
			cert.Certificate = append(cert.Certificate, stale.Certificate[0])
		case "issued-by-client-cert-issuer":
			cert = clientIssuer.Issue(caserver.Leaf{CN: "crypki", IPs: []string{ip}})
		case "dns-name-only":
			cert = ca1.Issue(caserver.Leaf{CN: ip, DNS: []string{"crypki.example"}})
		}
		conf := &tls.Config{Certificates: []tls.Certificate{cert}}
		if v.Identity == "genuine-p384-p521-groups-only" {
			conf.CurvePreferences = []tls.CurveID{tls.CurveP384, tls.CurveP521}
		}
		switch v.Protocol {
		case "tls12+":
			conf.MinVersion = tls.VersionTLS12
		case "tls12-only":
			conf.MinVersion, conf.MaxVersion = tls.VersionTLS12, tls.VersionTLS12
		case "tls13-only":
			conf.MinVersion, conf.MaxVersion = tls.VersionTLS13, tls.VersionTLS13
		case "tls10-11-only":
			conf.MinVersion, conf.MaxVersion = tls.VersionTLS10, tls.VersionTLS11
			// every suite Go implements for these protocol versions, named explicitly (gRPC's server
			// credentials would otherwise strip the CBC suites and such a server could not talk to anybody)
			conf.CipherSuites = nil
			for _, cs := range append(tls.CipherSuites(), tls.InsecureCipherSuites()...) {
				for _, v := range cs.SupportedVersions {
					if v == tls.VersionTLS10 {
						conf.CipherSuites = append(conf.CipherSuites, cs.ID)
						break
					}
				}
			}
		}
		pool := x509.NewCertPool()
		pool.AddCert(clientRoot.Cert)
		switch v.Client {
		case "request":
			conf.ClientAuth = tls.RequestClientCert
		case "require-any":
			conf.ClientAuth = tls.RequireAnyClientCert
		case "require-verify":
			conf.ClientAuth, conf.ClientCAs = tls.RequireAndVerifyClientCert, pool
		case "require-any-other-ca-hint":
			other := x509.NewCertPool()
			other.AddCert(clientCA.Cert)
			conf.ClientAuth, conf.ClientCAs = tls.RequireAnyClientCert, other
		}
		confs = append(confs, conf)
	}
	servers, port, err := caserver.StartGroup(list, confs)
	if err != nil {
		r.Inconclusive("cannot start servers: " + err.Error())
		return
	}
	defer func() {
		for _, s := range servers {
			s.Stop()
		}
	}()
	now64 := uint64(now.Unix())
	type reply struct{ cert ssh.PublicKey }
	replies := make([]reply, len(servers))
	for k, s := range servers {
		ct := gen.MakeCert(gen.CertSpec{Key: gen.Pool()[k], KeyID: fmt.Sprintf("from-server-%d", k), ValidAfter: now64 - 10, ValidBefore: now64 + 100, Serial: uint64(c.Rand.Int63())})
		replies[k] = reply{ct}
		text := string(ssh.MarshalAuthorizedKey(ct))
		s.Set(func(context.Context, *proto.SSHCertificateSigningRequest) (*proto.SSHKey, error) {
			return &proto.SSHKey{Key: text}, nil
		})
	}
	signer, err := crypki.NewSigner(crypki.SignerConfig{TLSClientKeyFile: clientKey, TLSClientCertFile: clientCert, TLSCACertFiles: bundle, CrypkiEndpoints: list, CrypkiPort: uint(port), Retries: 1, PerTryTimeout: 10 * time.Second})
	if err != nil {
		r.Violation(c, "signer-construction-fails", err.Error(), rec)
		return
	}
	ctx, cancel := context.WithTimeout(context.Background(), 90*time.Second)
	defer cancel()
	certs, _, serr := signer.Sign(ctx, &proto.SSHCertificateSigningRequest{KeyMeta: &proto.KeyMeta{Identifier: "x"}, Principals: []string{"a"}, PublicKey: "k", Validity: 60})
	rec.Result = fmt.Sprintf("certs=%d err=%v", len(certs), serr)
	firstGenuine := -1
	for k, v := range vars {
		if v.genuine(rec.Bundle) {
			firstGenuine = k
			break
		}
	}
	var vs []string
	for _, v := range vars {
		vs = append(vs, v.Identity+"/"+v.Protocol+"/"+v.Client)
	}
	sig := strings.Join(vs, ",")
	for k, s := range servers {
		v := vars[k]
		calls := s.Calls()
		if len(calls) > 0 && !v.genuine(rec.Bundle) {
			r.Violation(c, "rpc-handled-by-non-genuine-server:"+v.Identity+"/"+v.Protocol, fmt.Sprintf("server #%d (%s, %+v) handled the signing request", k, list[k], v), rec)
			return
		}
		for _, cl := range calls {
			if cl.TLSVersion < tls.VersionTLS12 {
				r.Violation(c, "rpc-below-tls12", fmt.Sprintf("version %x", cl.TLSVersion), rec)
				return
			}
			if v.Client != "none" {
				if len(cl.PeerCerts) == 0 || !bytes.Equal(cl.PeerCerts[0], client.Certificate[0]) {
					r.Violation(c, "configured-client-certificate-not-presented:"+v.Client, fmt.Sprintf("server #%d asked for a client certificate (%s) and saw %d peer certificates", k, v.Client, len(cl.PeerCerts)), rec)
					return
				}
				r.Count("genuine servers that saw the configured client certificate", 1)
			}
		}
		// handshakes completed with a genuine server that requested a certificate must carry it too
		if v.genuine(rec.Bundle) && v.Client != "none" {
			for _, h := range s.Handshakes() {
				if len(h.PeerCerts) == 0 || !bytes.Equal(h.PeerCerts[0], client.Certificate[0]) {
					r.Violation(c, "configured-client-certificate-not-presented:"+v.Client, fmt.Sprintf("handshake with server #%d carried %d peer certificates", k, len(h.PeerCerts)), rec)
					return
				}
			}
		}
		if k > firstGenuine && firstGenuine >= 0 && len(calls) > 0 {
			r.Violation(c, "endpoint-contacted-after-success", fmt.Sprintf("server #%d", k), rec)
			return
		}
	}
	if firstGenuine < 0 {
		if serr == nil {
			r.Violation(c, "sign-succeeds-without-genuine-server:"+sig, rec.Result, rec)
			return
		}
		r.Count("no genuine endpoint -> error", 1)
	} else {
		if serr != nil {
			r.Violation(c, "sign-fails-although-a-genuine-endpoint-is-configured:"+sig, fmt.Sprintf("genuine endpoint at position %d; %v", firstGenuine, serr), rec)
			return
		}
		if len(certs) != 1 || string(certs[0].Marshal()) != string(replies[firstGenuine].cert.Marshal()) {
			r.Violation(c, "certificates-not-from-first-genuine-server:"+sig, rec.Result, rec)
			return
		}
		r.Count(fmt.Sprintf("signed by the first genuine endpoint (position %d)", firstGenuine), 1)
	}
	for _, v := range vars {
		r.Count("server identity "+v.Identity, 1)
	}
	r.Nontrivial(rec.Bundle + "|" + strings.Join(list, ",") + "|" + sig)
}

// stagedCA: a roll-over. The configured bundle lists the current CA and its successor, whose certificate becomes valid
// a few seconds after the signer is built (as bundles are distributed ahead of time). Once the successor is valid, a
// genuine server it issued is a server authenticated by the configured bundle: Sign reaches it. Before that moment a
// server presenting the successor's certificates is not yet genuine (outcome not judged).
func stagedCA(r *ev.Run, dir string, current *caserver.CA, clientCert, clientKey string) {
	c := r.Case("staged-successor-ca", 0)
	if c == nil {
		return
	}
	start := time.Now()
	from := start.Add(2 * time.Second).Truncate(time.Second).Add(time.Second) // certificates carry whole seconds
	next := caserver.NewCAFrom("verif crypki CA (successor)", from)
	sub := filepath.Join(dir, "staged")
	os.Mkdir(sub, 0o700)
	cur, nxt := filepath.Join(sub, "current.pem"), filepath.Join(sub, "successor.pem")
	os.WriteFile(cur, current.PEM, 0o600)
	os.WriteFile(nxt, next.PEM, 0o600)
	ip := "127.0.1.79"
	conf := &tls.Config{Certificates: []tls.Certificate{next.Issue(caserver.Leaf{CN: "crypki", IPs: []string{ip}, NotBefore: from})}, MinVersion: tls.VersionTLS12}
	servers, port, err := caserver.StartGroup([]string{ip}, []*tls.Config{conf})
	if err != nil {
		r.Count("staged successor CA: cannot start server (skipped)", 1)
		return
	}
	defer servers[0].Stop()
	now64 := uint64(start.Unix())
	text := string(ssh.MarshalAuthorizedKey(gen.MakeCert(gen.CertSpec{Key: gen.Pool()[0], KeyID: "staged", ValidAfter: now64 - 10, ValidBefore: now64 + 100})))
	servers[0].Set(func(context.Context, *proto.SSHCertificateSigningRequest) (*proto.SSHKey, error) {
		return &proto.SSHKey{Key: text}, nil
	})
	rec := map[string]any{"successor_valid_from": from.Format(time.RFC3339), "bundle": "current CA file + successor CA file"}
	r.Eval(1)
	r.Guard(c, "staged successor CA", rec, func() {
		for vi, bundle := range [][]string{{cur, nxt}, {nxt, cur}} {
			signer, err := crypki.NewSigner(crypki.SignerConfig{TLSClientKeyFile: clientKey, TLSClientCertFile: clientCert, TLSCACertFiles: bundle, CrypkiEndpoints: []string{ip}, CrypkiPort: uint(port), Retries: 1, PerTryTimeout: 10 * time.Second})
			if err != nil {
				r.Violation(c, "signer-construction-fails", err.Error(), rec)
				return
			}
			if time.Now().After(from.Add(-200 * time.Millisecond)) {
				r.Count("staged successor CA: the signer was built too late to be built before the roll-over (not judged)", 1)
				return
			}
			defer func(s *crypki.Signer, vi int) {
				if d := time.Until(from.Add(1500 * time.Millisecond)); d > 0 {
					time.Sleep(d)
				}
				ctx, cancel := context.WithTimeout(context.Background(), 60*time.Second)
				defer cancel()
				certs, _, serr := s.Sign(ctx, &proto.SSHCertificateSigningRequest{KeyMeta: &proto.KeyMeta{Identifier: "x"}, Principals: []string{"a"}, PublicKey: "k", Validity: 60})
				if serr != nil || len(certs) != 1 {
					r.Violation(c, "sign-fails-although-a-genuine-endpoint-is-configured:successor-ca-staged-before-it-became-valid", fmt.Sprintf("bundle order %d: the server's CA is in the configured bundle and valid since %s (signer built %s before that); Sign returned certs=%d err=%v", vi, from.Format(time.RFC3339), from.Sub(start).Round(100*time.Millisecond), len(certs), serr), rec)
					return
				}
				r.Count("signers built before the successor CA became valid reach its server afterwards", 1)
				r.Nontrivial(fmt.Sprintf("staged-ca:%d", vi))
			}(signer, vi)
		}
	})
}

// concurrentConstruction: several client configurations with different CA bundles are built at the same time (two
// signers for two CA clusters, the CA client and the telemetry exporter, ...). Each one trusts exactly the CAs of ITS
// bundle: a server certificate of its own CA verifies against its roots, one of the other bundle's CA does not —
// whatever else was being built at that moment. Verification is done on the returned configuration's root pool, so
// thousands of constructions can be looked at.
func concurrentConstruction(r *ev.Run, dir string, caA, caB *caserver.CA, clientCert, clientKey string) {
	c := r.Case("concurrent-construction", 0)
	if c == nil {
		return
	}
	sub := filepath.Join(dir, "concurrent")
	os.Mkdir(sub, 0o700)
	pa, pb := filepath.Join(sub, "a.pem"), filepath.Join(sub, "b.pem")
	// bundles of different lengths, so that a mixed-up read cannot go unnoticed as a whole file
	os.WriteFile(pa, append(append([]byte("# bundle A\n"), caA.PEM...), '\n'), 0o600)
	os.WriteFile(pb, append(append(append([]byte("# bundle B, with a remark that makes it longer than the other one\n\n"), caB.PEM...), caB.PEM...), '\n'), 0o600)
	leafA := caA.Issue(caserver.Leaf{CN: "crypki-a", IPs: []string{"127.0.0.2"}}).Leaf
	leafB := caB.Issue(caserver.Leaf{CN: "crypki-b", IPs: []string{"127.0.0.2"}}).Leaf
	rounds := r.Pick(300, 1500)
	r.Eval(1)
	r.Guard(c, "configurations built concurrently", nil, func() {
		var wg sync.WaitGroup
		var mu sync.Mutex
		var bad []string
		built := 0
		for g := 0; g < 8; g++ {
			wg.Add(1)
			go func(g int) {
				defer wg.Done()
				own, other, bundle, name := leafA, leafB, pa, "A"
				if g%2 == 1 {
					own, other, bundle, name = leafB, leafA, pb, "B"
				}
				for k := 0; k < rounds; k++ {
					cfg, err := tlsutils.TLSClientConfiguration(clientCert, clientKey, []string{bundle})
					msg := ""
					switch {
					case err != nil:
						msg = fmt.Sprintf("construction with bundle %s failed: %v", name, err)
					case cfg.RootCAs == nil:
						msg = "no root pool"
					default:
						if _, e := own.Verify(x509.VerifyOptions{Roots: cfg.RootCAs, KeyUsages: []x509.ExtKeyUsage{x509.ExtKeyUsageServerAuth}}); e != nil {
							msg = fmt.Sprintf("a configuration built from bundle %s does not trust that bundle's CA: %v", name, e)
						} else if _, e := other.Verify(x509.VerifyOptions{Roots: cfg.RootCAs, KeyUsages: []x509.ExtKeyUsage{x509.ExtKeyUsageServerAuth}}); e == nil {
							msg = fmt.Sprintf("a configuration built from bundle %s trusts the CA of the other bundle", name)
						}
					}
					mu.Lock()
					built++
					if msg != "" {
						bad = append(bad, fmt.Sprintf("goroutine %d round %d: %s", g, k, msg))
					}
					mu.Unlock()
					if msg != "" {
						return
					}
				}
			}(g)
		}
		wg.Wait()
		if len(bad) > 0 {
			r.Violation(c, "configuration-trusts-other-than-its-bundle:built-concurrently", fmt.Sprintf("%s (%d configurations built by 8 goroutines with two different bundles)", bad[0], built), bad)
			return
		}
		r.Count("client configurations built concurrently from two bundles, each trusting exactly its own", built)
		r.Nontrivial("concurrent-construction")
	})
}

// clientFilesBroken: after the signer was built, the client certificate and key files are in the state a half-done
// rotation leaves them in for a moment (certificate file gone, key file holding another key, both truncated). The
// signer goes on presenting the certificate it loaded: a genuine server that asks for a client certificate is still
// reached, and sees the configured certificate.
func clientFilesBroken(r *ev.Run, dir string, ca *caserver.CA) {
	for vi, damage := range []string{"certificate-file-removed", "key-file-holds-another-key", "both-files-truncated", "certificate-file-holds-another-certificate"} {
		c := r.Case("client-files-broken-after-construction", vi)
		if c == nil {
			continue
		}
		r.Eval(1)
		r.Guard(c, "client files damaged after construction", damage, func() {
			sub := filepath.Join(dir, fmt.Sprintf("broken%d", vi))
			os.Mkdir(sub, 0o700)
			cl := ca.Issue(caserver.Leaf{CN: "ra-client", Client: true})
			certPath, keyPath := caserver.WritePEM(sub, "client", cl)
			caPath := filepath.Join(sub, "ca.pem")
			os.WriteFile(caPath, ca.PEM, 0o600)
			ip := fmt.Sprintf("127.0.1.%d", 90+vi)
			conf := &tls.Config{Certificates: []tls.Certificate{ca.Issue(caserver.Leaf{CN: "crypki", IPs: []string{ip}})}, MinVersion: tls.VersionTLS12, ClientAuth: tls.RequestClientCert}
			servers, port, err := caserver.StartGroup([]string{ip}, []*tls.Config{conf})
			if err != nil {
				r.Count("client files broken: cannot start server (skipped)", 1)
				return
			}
			defer servers[0].Stop()
			now64 := uint64(time.Now().Unix())
			text := string(ssh.MarshalAuthorizedKey(gen.MakeCert(gen.CertSpec{Key: gen.Pool()[0], KeyID: "broken", ValidAfter: now64 - 10, ValidBefore: now64 + 100})))
			servers[0].Set(func(context.Context, *proto.SSHCertificateSigningRequest) (*proto.SSHKey, error) {
				return &proto.SSHKey{Key: text}, nil
			})
			signer, err := crypki.NewSigner(crypki.SignerConfig{TLSClientKeyFile: keyPath, TLSClientCertFile: certPath, TLSCACertFiles: []string{caPath}, CrypkiEndpoints: []string{ip}, CrypkiPort: uint(port), Retries: 1, PerTryTimeout: 10 * time.Second})
			if err != nil {
				r.Violation(c, "signer-construction-fails", err.Error(), damage)
				return
			}
			other := ca.Issue(caserver.Leaf{CN: "somebody-else", Client: true})
			otherCert, otherKey := caserver.WritePEM(sub, "other", other)
			switch damage {
			case "certificate-file-removed":
				os.Remove(certPath)
			case "key-file-holds-another-key":
				b, _ := os.ReadFile(otherKey)
				os.WriteFile(keyPath, b, 0o600)
			case "both-files-truncated":
				os.WriteFile(certPath, nil, 0o600)
				os.WriteFile(keyPath, nil, 0o600)
			case "certificate-file-holds-another-certificate":
				b, _ := os.ReadFile(otherCert)
				os.WriteFile(certPath, b, 0o600)
			}
			ctx, cancel := context.WithTimeout(context.Background(), 60*time.Second)
			defer cancel()
			certs, _, serr := signer.Sign(ctx, &proto.SSHCertificateSigningRequest{KeyMeta: &proto.KeyMeta{Identifier: "x"}, Principals: []string{"a"}, PublicKey: "k", Validity: 60})
			if serr != nil || len(certs) != 1 {
				r.Violation(c, "sign-fails-although-a-genuine-endpoint-is-configured:client-files-"+damage, fmt.Sprintf("the client certificate files were damaged (%s) after the signer had been built; Sign returned certs=%d err=%v", damage, len(certs), serr), damage)
				return
			}
			for _, h := range servers[0].Handshakes() {
				if len(h.PeerCerts) == 0 || !bytes.Equal(h.PeerCerts[0], cl.Certificate[0]) {
					r.Violation(c, "configured-client-certificate-not-presented:client-files-"+damage, fmt.Sprintf("%d peer certificates", len(h.PeerCerts)), damage)
					return
				}
			}
			r.Count("signers used after their client certificate files were damaged on disk: loaded certificate presented", 1)
			r.Nontrivial("client-files-broken:" + damage)
		})
	}
}

// lapsingServerCert: the first endpoint's certificate is valid when the signer is first used and runs out three
// seconds later. A server is genuine at the time of the call: the call made after that moment does not have its
// request handled by that server any more and is served by the next (genuine) endpoint.
func lapsingServerCert(r *ev.Run, dir string, ca *caserver.CA, clientCert, clientKey string) {
	c := r.Case("lapsing-server-cert", 0)
	if c == nil {
		return
	}
	start := time.Now()
	lapse := start.Add(3 * time.Second).Truncate(time.Second)
	sub := filepath.Join(dir, "lapsing-server")
	os.Mkdir(sub, 0o700)
	caPath := filepath.Join(sub, "ca.pem")
	os.WriteFile(caPath, ca.PEM, 0o600)
	ips := []string{"127.0.1.95", "127.0.1.96"}
	confs := []*tls.Config{
		{Certificates: []tls.Certificate{ca.Issue(caserver.Leaf{CN: "crypki", IPs: []string{ips[0]}, NotBefore: start.Add(-time.Hour), NotAfter: lapse})}, MinVersion: tls.VersionTLS12},
		{Certificates: []tls.Certificate{ca.Issue(caserver.Leaf{CN: "crypki", IPs: []string{ips[1]}})}, MinVersion: tls.VersionTLS12},
	}
	servers, port, err := caserver.StartGroup(ips, confs)
	if err != nil {
		r.Count("lapsing server certificate: cannot start servers (skipped)", 1)
		return
	}
	defer servers[0].Stop()
	defer servers[1].Stop()
	now64 := uint64(start.Unix())
	mkText := func(id string) string {
		return string(ssh.MarshalAuthorizedKey(gen.MakeCert(gen.CertSpec{Key: gen.Pool()[0], KeyID: id, ValidAfter: now64 - 10, ValidBefore: now64 + 100})))
	}
	t1, t2 := mkText("from-first"), mkText("from-second")
	rec := map[string]any{"first_endpoint_certificate_not_after": lapse.Format(time.RFC3339)}
	r.Eval(1)
	r.Guard(c, "server certificate lapses between calls", rec, func() {
		signer, err := crypki.NewSigner(crypki.SignerConfig{TLSClientKeyFile: clientKey, TLSClientCertFile: clientCert, TLSCACertFiles: []string{caPath}, CrypkiEndpoints: ips, CrypkiPort: uint(port), Retries: 1, PerTryTimeout: 10 * time.Second})
		if err != nil {
			r.Violation(c, "signer-construction-fails", err.Error(), rec)
			return
		}
		call := func() (string, error) {
			servers[0].Set(func(context.Context, *proto.SSHCertificateSigningRequest) (*proto.SSHKey, error) { return &proto.SSHKey{Key: t1}, nil })
			servers[1].Set(func(context.Context, *proto.SSHCertificateSigningRequest) (*proto.SSHKey, error) { return &proto.SSHKey{Key: t2}, nil })
			ctx, cancel := context.WithTimeout(context.Background(), 60*time.Second)
			defer cancel()
			certs, _, serr := signer.Sign(ctx, &proto.SSHCertificateSigningRequest{KeyMeta: &proto.KeyMeta{Identifier: "x"}, Principals: []string{"a"}, PublicKey: "k", Validity: 60})
			if serr != nil || len(certs) != 1 {
				return "", fmt.Errorf("certs=%d err=%v", len(certs), serr)
			}
			return certs[0].(*ssh.Certificate).KeyId, nil
		}
		if time.Until(lapse) > 1200*time.Millisecond {
			from, err := call()
			if err != nil || from != "from-first" {
				r.Violation(c, "sign-fails-although-a-genuine-endpoint-is-configured:lapsing-server-cert:before", fmt.Sprintf("from=%q err=%v", from, err), rec)
				return
			}
		}
		if d := time.Until(lapse.Add(1500 * time.Millisecond)); d > 0 {
			time.Sleep(d)
		}
		from, err := call()
		if n := len(servers[0].Calls()); n > 0 || from == "from-first" {
			r.Violation(c, "rpc-handled-by-non-genuine-server:expired-since-the-previous-call", fmt.Sprintf("the first endpoint's certificate ran out at %s; a call made 1.5 s later had its request handled by that server (%d requests; result from %q, err=%v)", lapse.Format(time.RFC3339), n, from, err), rec)
			return
		}
		if err != nil || from != "from-second" {
			r.Violation(c, "sign-fails-although-a-genuine-endpoint-is-configured:lapsing-server-cert:after", fmt.Sprintf("from=%q err=%v", from, err), rec)
			return
		}
		r.Count("calls after the first endpoint's certificate had run out: served by the next endpoint", 1)
		r.Nontrivial("lapsing-server-cert")
	})
}

// recoveringEndpoint: what a Signer learnt about an endpoint in an earlier call says nothing about the next call. The
// first endpoint's address is held by a server with a foreign CA's certificate during the first call (which is served
// by the second endpoint, the impostor handling nothing); then a genuine server takes over that address, and the next
// call on the same Signer is served by it, being the first genuine endpoint of the list. The same with a list of one.
func recoveringEndpoint(r *ev.Run, dir string, ca, foreign *caserver.CA, clientCert, clientKey string) {
	for vi, single := range []bool{false, true} {
		c := r.Case("recovering-endpoint", vi)
		if c == nil {
			continue
		}
		sub := filepath.Join(dir, fmt.Sprintf("recovering-%d", vi))
		os.Mkdir(sub, 0o700)
		caPath := filepath.Join(sub, "ca.pem")
		os.WriteFile(caPath, ca.PEM, 0o600)
		ips := []string{fmt.Sprintf("127.0.1.%d", 101+2*vi), fmt.Sprintf("127.0.1.%d", 102+2*vi)}
		confs := []*tls.Config{
			{Certificates: []tls.Certificate{foreign.Issue(caserver.Leaf{CN: "crypki", IPs: []string{ips[0]}})}, MinVersion: tls.VersionTLS12},
			{Certificates: []tls.Certificate{ca.Issue(caserver.Leaf{CN: "crypki", IPs: []string{ips[1]}})}, MinVersion: tls.VersionTLS12},
		}
		servers, port, err := caserver.StartGroup(ips, confs)
		if err != nil {
			r.Count("recovering endpoint: cannot start servers (skipped)", 1)
			continue
		}
		now64 := uint64(time.Now().Unix())
		mkText := func(id string) string {
			return string(ssh.MarshalAuthorizedKey(gen.MakeCert(gen.CertSpec{Key: gen.Pool()[0], KeyID: id, ValidAfter: now64 - 10, ValidBefore: now64 + 1000})))
		}
		reply := func(id string) caserver.Behaviour {
			t := mkText(id)
			return func(context.Context, *proto.SSHCertificateSigningRequest) (*proto.SSHKey, error) { return &proto.SSHKey{Key: t}, nil }
		}
		servers[0].Set(reply("from-impostor"))
		servers[1].Set(reply("from-second"))
		list := ips
		if single {
			list = ips[:1]
		}
		rec := map[string]any{"endpoints": list}
		r.Eval(1)
		stopped := false
		var takeover *caserver.Server
		r.Guard(c, "endpoint that becomes genuine between calls", rec, func() {
			signer, err := crypki.NewSigner(crypki.SignerConfig{TLSClientKeyFile: clientKey, TLSClientCertFile: clientCert, TLSCACertFiles: []string{caPath}, CrypkiEndpoints: list, CrypkiPort: uint(port), Retries: 1, PerTryTimeout: 10 * time.Second})
			if err != nil {
				r.Violation(c, "signer-construction-fails", err.Error(), rec)
				return
			}
			call := func() (string, error) {
				ctx, cancel := context.WithTimeout(context.Background(), 60*time.Second)
				defer cancel()
				certs, _, serr := signer.Sign(ctx, &proto.SSHCertificateSigningRequest{KeyMeta: &proto.KeyMeta{Identifier: "x"}, Principals: []string{"a"}, PublicKey: "k", Validity: 60})
				if serr != nil || len(certs) != 1 {
					return "", fmt.Errorf("certs=%d err=%v", len(certs), serr)
				}
				return certs[0].(*ssh.Certificate).KeyId, nil
			}
			for k := 0; k < 2; k++ {
				from, err := call()
				if n := len(servers[0].Calls()); n > 0 || from == "from-impostor" {
					r.Violation(c, "rpc-handled-by-non-genuine-server:recovering-endpoint", fmt.Sprintf("%d requests handled by the server with the foreign certificate (result from %q)", n, from), rec)
					return
				}
				if single && err == nil {
					r.Violation(c, "success-without-a-genuine-endpoint:recovering-endpoint", "from="+from, rec)
					return
				}
				if !single && (err != nil || from != "from-second") {
					r.Violation(c, "sign-fails-although-a-genuine-endpoint-is-configured:recovering-endpoint:before", fmt.Sprintf("from=%q err=%v", from, err), rec)
					return
				}
			}
			servers[0].Stop()
			stopped = true
			var serr error
			for try := 0; try < 50; try++ { // the address is free as soon as the old listener is gone
				takeover, serr = caserver.Start(ips[0], port, &tls.Config{Certificates: []tls.Certificate{ca.Issue(caserver.Leaf{CN: "crypki", IPs: []string{ips[0]}})}, MinVersion: tls.VersionTLS12})
				if serr == nil {
					break
				}
				time.Sleep(100 * time.Millisecond)
			}
			if serr != nil {
				r.Count("recovering endpoint: the address could not be taken over (skipped)", 1)
				return
			}
			takeover.Set(reply("from-first"))
			from, err := call()
			if err != nil || from != "from-first" {
				r.Violation(c, "genuine-endpoint-not-used:after-an-earlier-failed-handshake", fmt.Sprintf("the first endpoint's address is now held by a server with a certificate of the configured CA; the call on the same Signer gave from=%q err=%v (%d requests reached it)", from, err, len(takeover.Calls())), rec)
				return
			}
			r.Count("calls served by an endpoint that had failed the handshake in the previous call on the same Signer", 1)
			r.Nontrivial(fmt.Sprintf("recovering-endpoint:%v", single))
		})
		if !stopped {
			servers[0].Stop()
		}
		if takeover != nil {
			takeover.Stop()
		}
		servers[1].Stop()
	}
}
