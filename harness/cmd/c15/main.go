// C15 — client request messages round-trip through both wire formats.
package main

import (
	"encoding/json"
	"fmt"
	"math"
	"reflect"
	"strconv"
	"strings"
	"time"
	"unicode/utf8"

	"github.com/theparanoids/ysshra/message"
	"github.com/theparanoids/ysshra/verifharness/lib/ev"
	"github.com/theparanoids/ysshra/verifharness/lib/gen"
	"github.com/theparanoids/ysshra/verifharness/lib/msgref"
)

type rec struct {
	Attrs *message.Attributes `json:"attrs,omitempty"`
	Text  string              `json:"text,omitempty"`
	What  string              `json:"what"`
}

func jsonRoundTrip(r *ev.Run, c *ev.Case, a *message.Attributes) {
	r.Eval(1)
	var text string
	var err error
	given := js(a)
	if r.Guard(c, "Marshal", rec{Attrs: a, What: "json"}, func() { text, err = a.Marshal() }) {
		return
	}
	if err == nil {
		ac := *a // the encoder gives the same text for the same value whenever asked, also from several goroutines at once
		encRing.Add(r, c, func() string {
			return ev.Digest(func() string { t, e := ac.Marshal(); return fmt.Sprint(t, e != nil) })
		}, fmt.Sprint(text, false), given)
	}
	if now := js(a); now != given {
		// the round trip is judged against the value the caller passed, not against what encoding left of it
		r.Violation(c, "encoder-changes-the-value-it-was-given:json", fmt.Sprintf("before Marshal: %s\nafter Marshal:  %s", given, now), rec{Attrs: a, What: "json"})
		return
	}
	miss := msgref.RequiredMissing(a)
	if (err != nil) != miss {
		r.Violation(c, fmt.Sprintf("json-encoder-required-field-check:missing=%v", miss), fmt.Sprintf("Marshal err=%v but required-missing=%v: %+v", err, miss, a), rec{Attrs: a, What: "json"})
		return
	}
	if err != nil {
		r.Count("json encode refused (required field empty)", 1)
		return
	}
	if !json.Valid([]byte(text)) {
		r.Violation(c, "json-encoder-output-not-json", text, rec{Attrs: a, Text: text, What: "json"})
		return
	}
	var b *message.Attributes
	var derr error
	if r.Guard(c, "Unmarshal", rec{Text: text, What: "json"}, func() { b, derr = message.Unmarshal(text) }) {
		return
	}
	if derr != nil {
		r.Violation(c, "json-roundtrip-decode-fails", fmt.Sprintf("%v; text=%q", derr, text), rec{Attrs: a, Text: text, What: "json"})
		return
	}
	if !reflect.DeepEqual(msgref.Norm(a), msgref.Norm(b)) {
		r.Violation(c, "json-roundtrip-not-equal:"+diffField(msgref.Norm(a), msgref.Norm(b)), fmt.Sprintf("in=%s\nout=%s\ntext=%q", js(msgref.Norm(a)), js(msgref.Norm(b)), text), rec{Attrs: a, Text: text, What: "json"})
		return
	}
	r.Nontrivial("json:" + text)
	r.Count("json round trips equal", 1)
	// the caller owns what the decoder returned: writing through it must not show in any later decode
	if b.TouchlessSudo != nil {
		b.TouchlessSudo.Hosts, b.TouchlessSudo.Time, b.TouchlessSudo.IsFirefighter = "scribbled-by-caller", 4242, !b.TouchlessSudo.IsFirefighter
	}
	for k := range b.Exts {
		b.Exts[k] = "scribbled-by-caller"
	}
	b.Username = "scribbled"
}

func js(v any) string { b, _ := json.Marshal(v); return string(b) }

func diffField(a, b *message.Attributes) string {
	va, vb := reflect.ValueOf(*a), reflect.ValueOf(*b)
	for i := 0; i < va.NumField(); i++ {
		if !reflect.DeepEqual(va.Field(i).Interface(), vb.Field(i).Interface()) {
			return va.Type().Field(i).Name
		}
	}
	return "?"
}

func legacyRoundTrip(r *ev.Run, c *ev.Case, a *message.Attributes, direct bool) {
	r.Eval(1)
	var text string
	var err error
	what := "legacy"
	if direct {
		what = "legacy-direct"
	}
	given := js(a)
	if r.Guard(c, "Marshal(legacy)", rec{Attrs: a, What: what}, func() {
		if direct {
			text, err = a.MarshalLegacy()
		} else {
			text, err = a.Marshal()
		}
	}) {
		return
	}
	if err == nil {
		ac := *a
		encRing.Add(r, c, func() string {
			return ev.Digest(func() string {
				var t string
				var e error
				if direct {
					t, e = ac.MarshalLegacy()
				} else {
					t, e = ac.Marshal()
				}
				return fmt.Sprint(t, e != nil)
			})
		}, fmt.Sprint(text, false), given)
	}
	if now := js(a); now != given {
		r.Violation(c, "encoder-changes-the-value-it-was-given:"+what, fmt.Sprintf("before: %s\nafter:  %s", given, now), rec{Attrs: a, What: what})
		return
	}
	miss := msgref.RequiredMissing(a)
	if !direct && (err != nil) != miss {
		r.Violation(c, fmt.Sprintf("legacy-encoder-required-field-check:missing=%v", miss), fmt.Sprintf("Marshal err=%v required-missing=%v %+v", err, miss, a), rec{Attrs: a, What: what})
		return
	}
	if err != nil {
		r.Count("legacy encode refused (required field empty)", 1)
		return
	}
	if direct && miss {
		return // MarshalLegacy itself performs no check; nothing to compare
	}
	var b *message.Attributes
	var derr error
	if r.Guard(c, "Unmarshal(legacy)", rec{Text: text, What: what}, func() {
		if direct {
			b, derr = message.UnmarshalLegacy(text)
		} else {
			b, derr = message.Unmarshal(text)
		}
	}) {
		return
	}
	if derr != nil {
		r.Violation(c, "legacy-roundtrip-decode-fails", fmt.Sprintf("%v; text=%q", derr, text), rec{Attrs: a, Text: text, What: what})
		return
	}
	ts := a.TouchlessSudo
	if ts == nil {
		ts = &message.TouchlessSudo{}
	}
	bad := ""
	switch {
	case b.SSHClientVersion != a.SSHClientVersion:
		bad = "SSHClientVersion"
	case b.Username != a.Username:
		bad = "Username"
	case b.Hostname != a.Hostname:
		bad = "Hostname"
	case b.HardKey != a.HardKey:
		bad = "HardKey"
	case b.Touch2SSH != a.Touch2SSH:
		bad = "Touch2SSH"
	case b.TouchlessSudo == nil:
		bad = "TouchlessSudo(nil)"
	case b.TouchlessSudo.IsFirefighter != ts.IsFirefighter:
		bad = "IsFirefighter"
	case b.TouchlessSudo.Hosts != ts.Hosts:
		bad = "Hosts"
	case b.TouchlessSudo.Time != ts.Time:
		bad = "Time"
	case b.IfVer != 6:
		bad = "IfVer"
	}
	if bad != "" {
		r.Violation(c, "legacy-roundtrip-field:"+bad, fmt.Sprintf("in=%s\nout=%s\ntext=%q", js(a), js(b), text), rec{Attrs: a, Text: text, What: what})
		return
	}
	// raw tokens mirrored into the extension map, and retrievable through the accessors
	for k, v := range msgref.LegacyTokens(text) {
		if got, ok := b.Exts[k]; !ok || got != v {
			r.Violation(c, "legacy-token-not-mirrored", fmt.Sprintf("token %q=%q, Exts=%v, text=%q", k, v, b.Exts, text), rec{Attrs: a, Text: text, What: what})
			return
		}
		if got, err := b.ExtendedAttrStr(k); err != nil || got != v {
			r.Violation(c, "legacy-token-not-retrievable", fmt.Sprintf("ExtendedAttrStr(%q)=%q,%v want %q", k, got, err, v), rec{Attrs: a, Text: text, What: what})
			return
		}
		if got, err := b.ExtendedAttr(k); err != nil || got != any(v) {
			r.Violation(c, "legacy-token-not-retrievable", fmt.Sprintf("ExtendedAttr(%q)=%v,%v", k, got, err), rec{Attrs: a, Text: text, What: what})
			return
		}
	}
	if a.HardKey {
		if hb, err := b.ExtendedAttrBool("HardKey"); err != nil || !hb {
			r.Violation(c, "legacy-bool-token-not-retrievable", fmt.Sprintf("ExtendedAttrBool(HardKey)=%v,%v", hb, err), rec{Attrs: a, Text: text, What: what})
			return
		}
	}
	r.Nontrivial("legacy:" + text)
	r.Count("legacy round trips equal", 1)
}

// jsonNotLegacy: any text that decodes as a JSON attribute object must get the
// JSON interpretation (or the required-field error), never the legacy one.
var ring, encRing *ev.Ring

func unmarshalDigest(text string) string {
	a, err := message.Unmarshal(text)
	if err != nil {
		return "error"
	}
	return js(a)
}

func jsonNotLegacy(r *ev.Run, c *ev.Case, text, shape string) {
	r.Eval(1)
	defer func() {
		ring.Add(r, c, func() string { return ev.Digest(func() string { return unmarshalDigest(text) }) }, ev.Digest(func() string { return unmarshalDigest(text) }), text)
	}()
	var got *message.Attributes
	var err error
	if r.Guard(c, "Unmarshal", rec{Text: text, What: shape}, func() { got, err = message.Unmarshal(text) }) {
		return
	}
	m, isObj := msgref.DecodeJSONObject(text)
	if !isObj {
		r.Count("texts that are not JSON attribute objects ("+shape+")", 1)
		if err == nil && got == nil {
			r.Violation(c, "decode-nil-without-error", text, rec{Text: text, What: shape})
		}
		return
	}
	r.Nontrivial("obj:" + text)
	miss := m.SSHClientVersion == "" || m.Username == "" || m.Hostname == ""
	if miss {
		if err == nil {
			r.Violation(c, "json-decoder-skips-required-field-check", fmt.Sprintf("text=%q accepted as %s", text, js(got)), rec{Text: text, What: shape})
		}
		r.Count("json objects refused for a missing required field", 1)
		return
	}
	if err != nil {
		r.Violation(c, "json-object-refused", fmt.Sprintf("text=%q err=%v", text, err), rec{Text: text, What: shape})
		return
	}
	// compare with the reference decoding
	want := &message.Attributes{}
	wb, _ := json.Marshal(m)
	json.Unmarshal(wb, want)
	if !reflect.DeepEqual(msgref.Norm(want), msgref.Norm(got)) {
		r.Violation(c, "json-object-reinterpreted:"+diffField(msgref.Norm(want), msgref.Norm(got)), fmt.Sprintf("text=%q\nwant=%s\ngot=%s", text, js(msgref.Norm(want)), js(msgref.Norm(got))), rec{Text: text, What: shape})
		return
	}
	r.Count("json objects decoded as JSON", 1)
}

func legacyText(r *ev.Run, c *ev.Case) {
	// build a legacy text from (key,value) tokens with repeats, empty values, '=' in values, stray spaces/tabs
	keys := []string{"IFVer", "req", "HardKey", "Touch2SSH", "IsFirefighter", "TouchlessSudoHosts", "TouchlessSudoTime", "SSHClientVersion", "x", "IfVer", "hardkey", "REQ"}
	var toks []string
	n := 1 + c.Rand.Intn(10)
	if c.Rand.Intn(8) == 0 {
		n = 20 + c.Rand.Intn(300) // a long line: nothing in the format bounds the number of tokens
	}
	for i := 0; i < n; i++ {
		k := keys[c.Rand.Intn(len(keys))]
		var v string
		switch k {
		case "req":
			switch c.Rand.Intn(6) {
			case 0:
				v = msgref.CleanStr(c.Rand, 6)
			case 1:
				v = "a@b@c"
			case 2:
				v = "@"
			default:
				v = msgref.CleanStr(c.Rand, 6) + "@" + msgref.CleanStr(c.Rand, 6)
			}
		case "HardKey", "Touch2SSH", "IsFirefighter":
			v = []string{"true", "false", "1", "0", "T", "yes", "", "TRUE", "tRuE"}[c.Rand.Intn(9)]
		case "TouchlessSudoTime", "IFVer":
			v = []string{"0", "5", "-3", "007", "9223372036854775807", "9223372036854775808", "x", "", "1.5", "+4"}[c.Rand.Intn(10)]
		default:
			v = msgref.CleanStr(c.Rand, 8)
			if c.Rand.Intn(3) == 0 {
				v += "=" + msgref.CleanStr(c.Rand, 3)
			}
		}
		if len(v) > 1 && c.Rand.Intn(5) == 0 {
			// white space other than the separator (U+0020) inside a value belongs to the value
			k := 1 + c.Rand.Intn(len(v)-1)
			for !utf8.RuneStart(v[k]) {
				k--
			}
			if k > 0 {
				v = v[:k] + []string{"\t", "\u00a0", "\u3000", "\u0085", "\v", "\u2003"}[c.Rand.Intn(6)] + v[k:]
			}
		}
		switch c.Rand.Intn(8) {
		case 0:
			toks = append(toks, k) // no '='
		case 1:
			toks = append(toks, k+"=")
		default:
			toks = append(toks, k+"="+v)
		}
	}
	// a line whose FIRST word happens to be a complete JSON value is still a legacy line as a whole
	if c.Rand.Intn(6) == 0 && len(toks) > 0 {
		toks = append([]string{[]string{"null", "{}", "true", "0", `"x"`, "[]", `{"username":"u","hostname":"h","sshClientVersion":"8.1"}`, "-1.5e3"}[c.Rand.Intn(8)]}, toks...)
	}
	seps := []string{" ", "  ", " \t", "\t ", "   ", " \n "}
	if c.Rand.Intn(8) == 0 {
		seps = append(seps, strings.Repeat(" ", 20+c.Rand.Intn(80)), strings.Repeat(" ", 33)) // wide gaps
	}
	var sb strings.Builder
	if c.Rand.Intn(3) == 0 {
		sb.WriteString(seps[c.Rand.Intn(len(seps))])
	}
	for i, t := range toks {
		if i > 0 {
			sb.WriteString(seps[c.Rand.Intn(len(seps))])
		}
		sb.WriteString(t)
	}
	if c.Rand.Intn(3) == 0 {
		sb.WriteString(seps[c.Rand.Intn(len(seps))])
	}
	text := sb.String()
	if c.Rand.Intn(12) == 0 && !strings.ContainsAny(text, "\"\\\n\t") {
		// an argument list that kept its quotes: as a whole a JSON string literal, and still a legacy line
		text = `"` + text + `"`
	}
	if c.Rand.Intn(10) == 0 {
		// syntactically a current-format object, but one member has the wrong type, so it is not a current-format
		// message; a string member holds blank-separated tokens of the older format. Read as a legacy line (the only
		// reading left) it says what those tokens say, and nothing of what the object's other members say.
		text = fmt.Sprintf(`{"ifVer":%s,"hardKey":true,"touch2SSH":true,"caPubKeyAlgo":3,"signatureAlgo":4,"username":"x req=%s@%s SSHClientVersion=8.%d y","hostname":"h","sshClientVersion":"9.9","touchlessSudo":{"isFirefighter":true,"hosts":"a,b","time":5}}`,
			[]string{`"7"`, `[7]`, `7.5`, `{}`, `true`}[c.Rand.Intn(5)], msgref.CleanStr(c.Rand, 5), msgref.CleanStr(c.Rand, 5), c.Rand.Intn(10))
	}
	r.Eval(1)
	var got *message.Attributes
	var err error
	if r.Guard(c, "UnmarshalLegacy", rec{Text: text, What: "legacytext"}, func() { got, err = message.Unmarshal(text) }) {
		return
	}
	tk := msgref.LegacyTokens(text)
	req, has := tk["req"]
	f := strings.Split(req, "@")
	if !has || len(f) != 2 {
		if err == nil {
			r.Violation(c, "legacy-text-without-requester-accepted", fmt.Sprintf("text=%q -> %s", text, js(got)), rec{Text: text, What: "legacytext"})
		}
		r.Count("legacy texts refused (no valid requester)", 1)
		return
	}
	if err != nil {
		r.Violation(c, "legacy-text-refused", fmt.Sprintf("text=%q err=%v", text, err), rec{Text: text, What: "legacytext"})
		return
	}
	pb := func(k string) bool { b, _ := strconv.ParseBool(tk[k]); return b }
	tm, _ := strconv.ParseInt(tk["TouchlessSudoTime"], 10, 64)
	bad := ""
	switch {
	case got.Username != f[0] || got.Hostname != f[1]:
		bad = "requester"
	case got.SSHClientVersion != tk["SSHClientVersion"]:
		bad = "SSHClientVersion"
	case got.HardKey != pb("HardKey"):
		bad = "HardKey"
	case got.Touch2SSH != pb("Touch2SSH"):
		bad = "Touch2SSH"
	case got.TouchlessSudo == nil || got.TouchlessSudo.IsFirefighter != pb("IsFirefighter"):
		bad = "IsFirefighter"
	case got.TouchlessSudo.Hosts != tk["TouchlessSudoHosts"]:
		bad = "Hosts"
	case got.TouchlessSudo.Time != tm:
		bad = "Time"
	}
	if bad == "" {
		for k, v := range tk {
			if g, ok := got.Exts[k]; !ok || g != v {
				bad = "Exts"
			}
		}
		if len(got.Exts) != len(tk) {
			bad = "Exts"
		}
	}
	if bad != "" {
		r.Violation(c, "legacy-text-field:"+bad, fmt.Sprintf("text=%q tokens=%v got=%s", text, tk, js(got)), rec{Text: text, What: "legacytext"})
		return
	}
	r.Nontrivial("ltext:" + text)
	r.Count("legacy texts decoded per last-token-wins", 1)
}

// unencodable: extension values that JSON has no representation for (infinities, NaN, functions, channels), at the top
// of the extension map or deep inside it. The encoder may refuse such a set; what it accepts must be JSON that decodes
// to the same version and attributes — a set that silently loses its extension map on the way has not survived.
func unencodable(r *ev.Run) {
	vals := []any{math.Inf(1), math.Inf(-1), math.NaN(), func() {}, make(chan int), complex(1, 2), map[string]any{"deep": []any{1.0, map[string]any{"x": math.Inf(1)}}}, []any{"a", math.NaN()}, map[int]string{1: "non-string keys"}}
	for i, v := range vals {
		c := r.Case("unencodable", i)
		if c == nil {
			continue
		}
		a := msgref.Attrs(c.Rand, false)
		for msgref.RequiredMissing(a) {
			a = msgref.Attrs(c.Rand, false)
		}
		if a.Exts == nil {
			a.Exts = map[string]interface{}{}
		}
		a.Exts["odd"] = v
		r.Eval(1)
		var text string
		var err error
		if r.Guard(c, "Marshal", fmt.Sprintf("extension value of type %T", v), func() { text, err = a.Marshal() }) {
			continue
		}
		if err != nil {
			r.Count("attribute sets with an extension value JSON cannot represent: refused by the encoder", 1)
			r.Nontrivial(fmt.Sprintf("unencodable:%T:%d", v, i))
			continue
		}
		b, derr := message.Unmarshal(text)
		if !json.Valid([]byte(text)) || derr != nil || b == nil || b.IfVer != a.IfVer || len(b.Exts) != len(a.Exts) {
			r.Violation(c, "accepted-attribute-set-does-not-survive:unencodable-extension", fmt.Sprintf("extension value of type %T accepted by the encoder; text=%q; decoded: %s (err=%v)", v, text, js(b), derr), fmt.Sprintf("%T", v))
			continue
		}
		r.Count("attribute sets with an odd extension value encoded and decoded with version and extension count intact", 1)
	}
}

func main() {
	ev.MainIsolated("C15", "exploration", 40*time.Minute, func(r *ev.Run) {
		r.Rule("seeded attribute sets (all boolean combinations, algorithm numbers -1..20, touchless-sudo nil/empty/partial/full, nested extension maps of JSON-native values incl. strings that look like legacy tokens, UTF-8 strings) round-tripped through Marshal/Unmarshal in the JSON format (ifVer>=7) and the legacy format (ifVer<7, values free of whitespace and '@', also through MarshalLegacy/UnmarshalLegacy directly); JSON objects with missing required fields and embedded legacy tokens; JSON scalars; legacy texts assembled from tokens with repeats, empty values, '=' in values and stray separators. distinct_nontrivial = distinct wire texts that completed a round trip or reached the JSON-object decision")
		r.Assume("ext values are JSON-native (numbers are float64)", "strings are valid UTF-8", "reference legacy tokenizer: split on space, trim, first '=', last key wins")
		ring = ev.NewRing("message.Unmarshal", r.Seed, 41)
		encRing = ev.NewRing("Attributes.Marshal", r.Seed+1, 43)
		unencodable(r)
		n := r.Pick(6000, 160000)
		for i := 0; i < n; i++ {
			if c := r.Case("json", i); c != nil {
				a := msgref.Attrs(c.Rand, false)
				jsonRoundTrip(r, c, a)
				if i%1500 == 0 {
					r.Sample(map[string]any{"family": "json", "attrs": a})
				}
			}
			if c := r.Case("legacy", i); c != nil {
				a := msgref.Attrs(c.Rand, true)
				legacyRoundTrip(r, c, a, i%3 == 0)
				if i%1500 == 0 {
					t, _ := a.MarshalLegacy()
					r.Sample(map[string]any{"family": "legacy", "text": t})
				}
			}
			if c := r.Case("objtext", i); c != nil {
				jsonNotLegacy(r, c, objText(c), "generated-object")
			}
			if c := r.Case("legacytext", i); c != nil {
				legacyText(r, c)
			}
		}
		scalars := []string{`null`, ` null `, `true`, `false`, `0`, `1.5`, `""`, `"req=a@b SSHClientVersion=8.1"`, `[]`, `[{"username":"u"}]`, `{}`, `{"username":1}`, `{"username":"u","hostname":"h","sshClientVersion":"8.1"}`, `{"USERNAME":"u","HOSTNAME":"h","SSHCLIENTVERSION":"8.1"}`,
			`{"username":"u","hostname":"h","sshClientVersion":"8.1","exts":null,"touchlessSudo":null}`, `{"username":"u","hostname":"h","sshClientVersion":"8.1","ifVer":3}`, `{"username":"u","hostname":"h","sshClientVersion":"8.1"} req=a@b`, `{"exts":{"k":" req=a@b SSHClientVersion=1.2 "}}`,
			`{"username":"","hostname":"h","sshClientVersion":"8.1","x":" req=a@b "}`, "", " ", "req=a@b", "null req=a@b"}
		for i, s := range scalars {
			if c := r.Case("scalars", i); c != nil {
				jsonNotLegacy(r, c, s, "fixed")
			}
		}
		if r.Replay == nil {
			ring.Stress(r, r.CaseAlways("stress", 0), 8, 2)
			encRing.Stress(r, r.CaseAlways("stress", 1), 8, 3)
		}
		r.Floor(int64(r.Pick(20000, 500000)), 3000)
	})
}

// objText produces a JSON object text close to the attribute object: required
// fields present/empty/missing/retyped, string values that contain legacy tokens.
func objText(c *ev.Case) string {
	m := map[string]any{}
	put := func(k string, v any) {
		switch c.Rand.Intn(10) {
		case 0: // missing
		case 1:
			m[k] = ""
		case 2:
			m[strings.ToUpper(k)] = v
		default:
			m[k] = v
		}
	}
	tempt := " req=" + gen.Ident(c.Rand, 3) + "@" + gen.Ident(c.Rand, 4) + " SSHClientVersion=7.7 IFVer=6 HardKey=true "
	put("username", gen.NonEmptyStr(c.Rand, 8))
	put("hostname", gen.NonEmptyStr(c.Rand, 8))
	put("sshClientVersion", "8.1")
	if c.Rand.Intn(2) == 0 {
		m["exts"] = map[string]any{"note": tempt, "n": msgref.ExtVal(c.Rand, 2)}
	}
	if c.Rand.Intn(3) == 0 {
		m["comment"] = tempt
	}
	if c.Rand.Intn(4) == 0 {
		m["ifVer"] = c.Rand.Intn(10)
	}
	if c.Rand.Intn(4) == 0 {
		m["hardKey"] = c.Rand.Intn(2) == 0
	}
	if c.Rand.Intn(6) == 0 {
		m["touchlessSudo"] = map[string]any{"hosts": tempt, "time": c.Rand.Intn(50), "isFirefighter": true}
	}
	if c.Rand.Intn(12) == 0 {
		m["hardKey"] = "true" // wrong type: not an attribute object any more
	}
	b, _ := json.Marshal(m)
	s := string(b)
	if c.Rand.Intn(10) == 0 {
		s = " " + s + "\n"
	}
	return s
}
