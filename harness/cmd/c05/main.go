// C05 — KeyID encoding round-trips and refuses inconsistent or incomplete KeyIDs.
package main

import (
	"math"
	"encoding/json"
	"fmt"
	"reflect"
	"strings"
	"time"

	"github.com/theparanoids/ysshra/keyid"
	"github.com/theparanoids/ysshra/verifharness/lib/ev"
	"github.com/theparanoids/ysshra/verifharness/lib/gen"
)

// required keys of a version-1 KeyID, transcribed from the property / format documentation.
var required = []string{"prins", "transID", "reqUser", "reqIP", "reqHost", "isFirefighter", "isHWKey", "isHeadless", "isNonce", "touchPolicy", "ver"}

// valid is the reference predicate transcribed from the statement.
func valid(k *keyid.KeyID) bool {
	if k.Version != 1 {
		return false
	}
	never := k.TouchPolicy == 1
	if k.IsHeadless && (k.IsHWKey || k.IsFirefighter || !never) {
		return false
	}
	if k.IsNonce && (k.IsFirefighter || k.IsHeadless || !never) {
		return false
	}
	return true
}

type caseRec struct {
	KeyID *keyid.KeyID `json:"keyid,omitempty"`
	Text  string       `json:"text,omitempty"`
	What  string       `json:"what"`
}

func checkEncode(r *ev.Run, c *ev.Case, k *keyid.KeyID) {
	r.Eval(1)
	var text string
	var err error
	given := show(k)
	if r.Guard(c, "Marshal", caseRec{KeyID: k, What: "encode"}, func() { text, err = k.Marshal() }) {
		return
	}
	if now := show(k); now != given {
		r.Violation(c, "encoder-changes-the-value-it-was-given", fmt.Sprintf("before Marshal: %s\nafter Marshal:  %s", given, now), caseRec{KeyID: k, What: "encode"})
		return
	}
	want := valid(k)
	if (err == nil) != want {
		r.Violation(c, fmt.Sprintf("encode-accepts-mismatch:valid=%v:flags=%s", want, flagSig(k)),
			fmt.Sprintf("Marshal(%s) err=%v but reference valid=%v", show(k), err, want), caseRec{KeyID: k, What: "encode"})
		return
	}
	r.Count(fmt.Sprintf("encode valid=%v", want), 1)
	if err != nil {
		r.Nontrivial("enc-reject:" + flagSig(k))
		return
	}
	r.Nontrivial("enc:" + text)
	kc := *k // the encoder gives the same text for the same value whenever asked, also from several goroutines at once
	if k.Principals != nil {
		kc.Principals = append(make([]string, 0, len(k.Principals)), k.Principals...) // nil stays nil, empty stays empty
	}
	encRing.Add(r, c, func() string { return ev.Digest(func() string { t, e := kc.Marshal(); return fmt.Sprint(t, e != nil) }) }, fmt.Sprint(text, false), given)
	var back *keyid.KeyID
	var derr error
	if r.Guard(c, "Unmarshal", caseRec{Text: text, What: "decode-of-encoded"}, func() { back, derr = keyid.Unmarshal(text) }) {
		return
	}
	if derr != nil {
		r.Violation(c, "roundtrip-decode-fails:flags="+flagSig(k), fmt.Sprintf("Unmarshal(Marshal(k)) failed: %v; text=%q", derr, text), caseRec{KeyID: k, Text: text, What: "roundtrip"})
		return
	}
	if !reflect.DeepEqual(back, k) {
		r.Violation(c, "roundtrip-not-equal:flags="+flagSig(k), fmt.Sprintf("Unmarshal(Marshal(k)) = %s, want %s; text=%q", show(back), show(k), text), caseRec{KeyID: k, Text: text, What: "roundtrip"})
		return
	}
	r.Count("roundtrips equal", 1)
	// the encoding itself must carry every required field (checked with an independent decoder)
	var m map[string]json.RawMessage
	if json.Unmarshal([]byte(text), &m) != nil {
		r.Violation(c, "encoded-text-not-json-object", fmt.Sprintf("text=%q", text), caseRec{KeyID: k, Text: text, What: "encode"})
		return
	}
	for _, key := range required {
		if _, ok := m[key]; !ok {
			r.Violation(c, "encoded-text-lacks:"+key, fmt.Sprintf("text=%q", text), caseRec{KeyID: k, Text: text, What: "encode"})
		}
	}
}

func flagSig(k *keyid.KeyID) string {
	b := func(x bool) byte {
		if x {
			return '1'
		}
		return '0'
	}
	return fmt.Sprintf("%c%c%c%c:tp=%d:v=%d", b(k.IsFirefighter), b(k.IsHWKey), b(k.IsHeadless), b(k.IsNonce), k.TouchPolicy, k.Version)
}

// checkDecode applies the decoding clause to an arbitrary text. shape is a short
// label of how the text was derived (used for signatures and counters).
var ring, encRing *ev.Ring

func decodeDigest(text string) string {
	k, err := keyid.Unmarshal(text)
	if err != nil {
		return "error"
	}
	return show(k)
}

// show renders every field (a KeyID prints as its touch policy with %v because the embedded policy type is a Stringer).
func show(k *keyid.KeyID) string {
	if k == nil {
		return "<nil>"
	}
	b, _ := json.Marshal(k)
	return string(b)
}

func checkDecode(r *ev.Run, c *ev.Case, text, shape string) {
	r.Eval(1)
	d0 := ev.Digest(func() string { return decodeDigest(text) }) // the reference result, taken before anything below touches what the decoder hands out
	defer func() { ring.Add(r, c, func() string { return ev.Digest(func() string { return decodeDigest(text) }) }, d0, text) }()
	var k *keyid.KeyID
	var err error
	if r.Guard(c, "Unmarshal", caseRec{Text: text, What: shape}, func() { k, err = keyid.Unmarshal(text) }) {
		return
	}
	var m map[string]json.RawMessage
	isObj := json.Unmarshal([]byte(text), &m) == nil && m != nil
	if isObj {
		r.Nontrivial("dec:" + text)
	}
	if err != nil {
		r.Count("decode refused ("+shapeClass(shape)+")", 1)
		if k != nil {
			r.Violation(c, "decode-error-with-value:"+shapeClass(shape), fmt.Sprintf("text=%q returned both a KeyID and error %v", text, err), caseRec{Text: text, What: shape})
		}
		return
	}
	r.Count("decode accepted ("+shapeClass(shape)+")", 1)
	if k == nil {
		r.Violation(c, "decode-nil-without-error:"+shapeClass(shape), fmt.Sprintf("text=%q", text), caseRec{Text: text, What: shape})
		return
	}
	if k.Version != 1 {
		r.Violation(c, "decode-accepts-unsupported-version:"+shapeClass(shape), fmt.Sprintf("text=%q -> version %d", text, k.Version), caseRec{Text: text, What: shape})
		return
	}
	if !valid(k) {
		r.Violation(c, "decode-accepts-inconsistent:flags="+flagSig(k), fmt.Sprintf("text=%q -> %s", text, show(k)), caseRec{Text: text, What: shape})
		return
	}
	if !isObj {
		r.Violation(c, "decode-accepts-non-object:"+shapeClass(shape), fmt.Sprintf("text=%q -> %s", text, show(k)), caseRec{Text: text, What: shape})
		return
	}
	for _, key := range required {
		if _, ok := m[key]; !ok {
			r.Violation(c, "decode-accepts-missing-field:"+key, fmt.Sprintf("text=%q lacks %q but decoded to %s", text, key, show(k)), caseRec{Text: text, What: shape})
			return
		}
	}
	// every required member has the JSON type of its attribute (or is null, which the format lets stand for the zero
	// value): a text in which one of them is something else does not contain that field, whatever else is odd about it
	// besides (the optional usage member is not judged: the statement requires nothing of it)
	for _, key := range required {
		raw, ok := m[key]
		if !ok {
			continue
		}
		if !jsonTypeOK(key, raw) {
			r.Violation(c, "decode-accepts-retyped-member:"+key, fmt.Sprintf("text=%q: member %q is %s, decoded to %s", text, key, trunc(string(raw)), show(k)), caseRec{Text: text, What: shape})
			return
		}
	}
	// the version the text declares must itself be the supported one: a null (or otherwise non-numeric) version field declares none
	// (judged only when the field occurs once: with duplicated fields "the" declared version is ambiguous)
	if v := strings.TrimSpace(string(m["ver"])); v != "1" && strings.Count(strings.ToLower(text), `"ver"`) == 1 {
		r.Violation(c, "decode-accepts-without-declared-supported-version", fmt.Sprintf("text=%q declares ver=%s but decoded to version %d", text, v, k.Version), caseRec{Text: text, What: shape})
		return
	}
	// what was accepted must be encodable again and round-trip
	t2, err2 := k.Marshal()
	if err2 != nil {
		r.Violation(c, "decoded-value-not-encodable:"+shapeClass(shape), fmt.Sprintf("text=%q -> %s -> Marshal err %v", text, show(k), err2), caseRec{Text: text, What: shape})
		return
	}
	k2, err3 := keyid.Unmarshal(t2)
	if err3 != nil || !reflect.DeepEqual(k, k2) {
		r.Violation(c, "decoded-value-roundtrip:"+shapeClass(shape), fmt.Sprintf("text=%q -> %s -> %q -> %s (%v)", text, show(k), t2, show(k2), err3), caseRec{Text: text, What: shape})
	}
	// the caller owns what the decoder returned: scribbling over it must not show in any later decode (checked by the re-evaluation ring)
	for i := range k.Principals {
		k.Principals[i] = "scribbled-by-caller"
	}
	k.TransID, k.IsNonce, k.Version = "scribbled", !k.IsNonce, 9
}

// jsonTypeOK: is raw a JSON value of the type the KeyID attribute key has (or null)?
func jsonTypeOK(key string, raw json.RawMessage) bool {
	t := strings.TrimSpace(string(raw))
	if t == "null" {
		return true
	}
	switch key {
	case "prins":
		var v []*string
		return strings.HasPrefix(t, "[") && json.Unmarshal(raw, &v) == nil
	case "transID", "reqUser", "reqIP", "reqHost":
		return strings.HasPrefix(t, `"`)
	case "isFirefighter", "isHWKey", "isHeadless", "isNonce":
		return t == "true" || t == "false"
	default: // usage, touchPolicy, ver: integers
		if t == "" || strings.ContainsAny(t, ".eE\"[]{}tfn") {
			return false
		}
		return t[0] == '-' || (t[0] >= '0' && t[0] <= '9')
	}
}

func trunc(s string) string {
	if len(s) > 60 {
		return s[:60] + "..."
	}
	return s
}

func shapeClass(s string) string {
	if i := strings.IndexByte(s, ':'); i >= 0 {
		return s[:i]
	}
	return s
}

// (plain integers, converted where used: the harness compiles whatever width the codec gives these attributes)
var touchVals = []int64{-1, 0, 1, 2, 3, 4, 99, math.MaxInt64, math.MinInt64, 1<<53 + 1}
var usageVals = []int64{0, 1, 7, -1, 1<<53 + 1, math.MaxInt64}
var verVals = []int64{0, 1, 2, 65535, 256, 257, 513, 32769, 65281}

// setInt stores v in an integer field of whatever kind and width it has.
func setInt(field any, v int64) {
	rv := reflect.ValueOf(field).Elem()
	switch rv.Kind() {
	case reflect.Int, reflect.Int8, reflect.Int16, reflect.Int32, reflect.Int64:
		rv.SetInt(v)
	case reflect.Uint, reflect.Uint8, reflect.Uint16, reflect.Uint32, reflect.Uint64:
		rv.SetUint(uint64(v))
	}
}

// cube enumerates the complete attribute cube: 2^4 flags x 7 touch x 3 usage x 4 versions = 1344.
func cube(f func(i int, k keyid.KeyID)) int {
	i := 0
	for fl := 0; fl < 16; fl++ {
		for _, tp := range touchVals {
			for _, us := range usageVals {
				for _, v := range verVals {
					k := keyid.KeyID{IsFirefighter: fl&1 != 0, IsHWKey: fl&2 != 0, IsHeadless: fl&4 != 0, IsNonce: fl&8 != 0}
					setInt(&k.TouchPolicy, tp)
					setInt(&k.Usage, us)
					setInt(&k.Version, v)
					f(i, k)
					i++
				}
			}
		}
	}
	return i
}

func fill(c *ev.Case, k *keyid.KeyID) {
	k.Principals = gen.StrList(c.Rand, 5, 24)
	k.TransID = gen.Str(c.Rand, 16)
	k.ReqUser = gen.Str(c.Rand, 24)
	k.ReqIP = gen.IP(c.Rand)
	k.ReqHost = gen.Str(c.Rand, 40)
	// no attribute has a length bound: now and then one of them is large
	switch c.Rand.Intn(32) {
	case 0:
		k.Principals = nil
		for n := 200 + c.Rand.Intn(600); n > 0; n-- {
			k.Principals = append(k.Principals, gen.Str(c.Rand, 24))
		}
	case 1:
		k.ReqHost = strings.Repeat(gen.Str(c.Rand, 40)+"h", 100+c.Rand.Intn(1500))
	case 2:
		k.TransID = strings.Repeat("<&>", 700+c.Rand.Intn(600)) // six-fold expansion by the JSON encoder
	case 3:
		k.ReqUser = strings.Repeat("\u00e9\"", 1024+c.Rand.Intn(8192))
	}
}

// rawJSON encodes the struct without going through the codec's own checks.
func rawJSON(k *keyid.KeyID) string {
	b, err := json.Marshal(k)
	if err != nil {
		panic(err)
	}
	return string(b)
}

var retypes = []string{`null`, `"x"`, `"1"`, `"true"`, `0`, `1`, `-1`, `1.5`, `1e3`, `true`, `false`, `[]`, `[1]`, `["a"]`, `{}`, `{"a":1}`, `65536`, `65537`, `131073`, `-65535`, `4294967297`, `99999999999999999999`}

func main() {
	ev.MainIsolated("C05", "exploration", 40*time.Minute, func(r *ev.Run) {
		r.Rule("cases: (1) the full attribute cube 2^4 flags x touch{-1,0,1,2,3,4,99} x usage{0,1,7} x version{0,1,2,65535}, each with seeded principals/strings, encoded and round-tripped; (2) for every cube value its raw JSON (bypassing the encoder's checks) decoded; (3) per valid encoding every single required-field deletion, case-rename, duplication and retyping; (4) JSON scalars/arrays/nesting; (5) random bytes and byte mutations of valid encodings. distinct_nontrivial = distinct encoder outputs + distinct decoder inputs that are JSON objects (i.e. got past syntax) + distinct refused flag combinations")
		r.Assume("encoding/json (into map[string]RawMessage) is the independent witness for 'the text contained the field'", "strings are valid UTF-8 (JSON cannot carry other bytes verbatim)")
		ring = ev.NewRing("keyid.Unmarshal", r.Seed, 37)
		encRing = ev.NewRing("KeyID.Marshal", r.Seed+1, 31)
		reps := r.Pick(2, 40)
		// (1)+(2) cube
		if r.Want("cube") {
			n := 0
			for rep := 0; rep < reps; rep++ {
				n = cube(func(i int, k keyid.KeyID) {
					c := r.Case("cube", rep*2000+i)
					if c == nil {
						return
					}
					fill(c, &k)
					checkEncode(r, c, &k)
					checkDecode(r, c, rawJSON(&k), "rawcube")
					if rep == 0 && i%97 == 0 {
						r.Sample(map[string]any{"family": "cube", "keyid": k, "reference_valid": valid(&k)})
					}
				})
			}
			r.Extra("cube_size", n)
			r.Exhaustive(false)
			r.Extra("cube_enumerated_completely", true)
		}
		// (3) field surgery on valid encodings
		if r.Want("surgery") {
			idx := 0
			nbase := r.Pick(40, 1500)
			for b := 0; b < nbase; b++ {
				var k keyid.KeyID
				var m map[string]json.RawMessage
				base := r.CaseAlways("surgery-base", b)
				for {
					fl := base.Rand.Intn(16)
					k = keyid.KeyID{IsFirefighter: fl&1 != 0, IsHWKey: fl&2 != 0, IsHeadless: fl&4 != 0, IsNonce: fl&8 != 0, TouchPolicy: keyid.TouchPolicy(base.Rand.Intn(4)), Usage: keyid.Usage(base.Rand.Intn(2)), Version: 1}
					if valid(&k) {
						break
					}
				}
				fill(base, &k)
				text := rawJSON(&k)
				json.Unmarshal([]byte(text), &m)
				variants := surgery(text, m)
				for _, v := range variants {
					c := r.Case("surgery", idx)
					idx++
					if c == nil {
						continue
					}
					checkDecode(r, c, v.text, v.shape)
					if b == 0 && idx%13 == 0 {
						r.Sample(map[string]any{"family": "surgery", "shape": v.shape, "text": v.text})
					}
				}
			}
			r.Extra("surgery_variants", idx)
		}
		// (4) JSON values that are not KeyID objects
		if r.Want("jsonvals") {
			vals := []string{`null`, `true`, `false`, `0`, `1`, `-1`, `1.5`, `""`, `"x"`, `[]`, `[1]`, `[{}]`, `{}`, `{"ver":1}`, `{"ver":"1"}`, `{"ver":1.0}`, `{"ver":1e0}`, `{"ver":null}`, `[{"ver":1}]`, `{"a":{"ver":1}}`, ` {} `, `{}{}`, `{"ver":1}garbage`, "\xef\xbb\xbf{}", `{"ver":65537}`, `{"ver":-1}`, `{"VER":1}`}
			for i, v := range vals {
				if c := r.Case("jsonvals", i); c != nil {
					checkDecode(r, c, v, "jsonval")
				}
			}
		}
		// (4b) texts that do not decode, of every length: whatever the decoder does with a rejected text (quote it,
		// shorten it, hash it) happens for each size once
		if r.Want("lengths") {
			var k keyid.KeyID
			k = keyid.KeyID{IsHWKey: true, TouchPolicy: keyid.TouchPolicy(1)}
			setInt(&k.Version, 1)
			valid := rawJSON(&k)
			idx := 0
			for n := 0; n <= r.Pick(600, 5000); n++ {
				pad := func(head, fill, tail string) string {
					if len(head)+len(tail) > n {
						return ""
					}
					return head + strings.Repeat(fill, (n-len(head)-len(tail))/len(fill)) + tail
				}
				texts := []string{
					strings.Repeat("x", n),
					pad(`{"ver":1,"note":"`, "a", ""),
					pad(`{"ver":1,"note":"`, "a", `"`),
					pad(`"`, "b", `"`),
					pad(`[`, " ", `]`),
					pad(valid, " ", "x"),
					pad(`{"ver":"`, "é", `"}`),
					pad("", "\xff", ""),
				}
				if n < len(valid) {
					texts = append(texts, valid[:n])
				}
				for _, t := range texts {
					c := r.Case("lengths", idx)
					idx++
					if c == nil || (t == "" && n != 0) {
						continue
					}
					checkDecode(r, c, t, "undecodable-of-length")
				}
			}
			r.Extra("lengths_texts", idx)
		}
		// (5) random bytes and mutations
		if r.Want("fuzz") {
			n := r.Pick(20000, 500000)
			for i := 0; i < n; i++ {
				c := r.Case("fuzz", i)
				if c == nil {
					continue
				}
				var text string
				shape := "fuzz-random"
				if i%4 == 0 {
					text = string(gen.Bytes(c.Rand, c.Rand.Intn(64)))
				} else {
					var k keyid.KeyID
					fl := c.Rand.Intn(16)
					k = keyid.KeyID{IsFirefighter: fl&1 != 0, IsHWKey: fl&2 != 0, IsHeadless: fl&4 != 0, IsNonce: fl&8 != 0, TouchPolicy: keyid.TouchPolicy(c.Rand.Intn(5)), Usage: keyid.Usage(c.Rand.Intn(2))}
					setInt(&k.Version, int64(c.Rand.Intn(3)))
					if c.Rand.Intn(3) > 0 {
						k.Version = 1
					}
					fill(c, &k)
					b := []byte(rawJSON(&k))
					shape = "fuzz-mutated"
					for m := c.Rand.Intn(3); m >= 0 && len(b) > 0; m-- {
						p := c.Rand.Intn(len(b))
						switch c.Rand.Intn(4) {
						case 0:
							b[p] ^= 1 << uint(c.Rand.Intn(8))
						case 1:
							b = append(b[:p], b[p+1:]...)
						case 2:
							b = append(b[:p], append([]byte{byte(c.Rand.Intn(256))}, b[p:]...)...)
						case 3:
							// swap true/false at a random flag
							s := string(b)
							if c.Rand.Intn(2) == 0 {
								s = strings.Replace(s, "false", "true", 1+c.Rand.Intn(2))
							} else {
								s = strings.Replace(s, "true", "false", 1)
							}
							b = []byte(s)
						}
					}
					text = string(b)
				}
				checkDecode(r, c, text, shape)
			}
		}
		if r.Replay == nil {
			ring.Stress(r, r.CaseAlways("stress", 0), 8, 2)
			encRing.Stress(r, r.CaseAlways("stress", 1), 8, 2)
		}
		r.Floor(int64(r.Pick(20000, 400000)), 2000)
	})
}

type variant struct{ text, shape string }

// surgery derives single-field alterations of a valid encoding.
func surgery(text string, m map[string]json.RawMessage) []variant {
	var out []variant
	keys := append(append([]string{}, required...), "usage")
	build := func(mm map[string]json.RawMessage, order []string, extra string) string {
		var parts []string
		for _, k := range order {
			if v, ok := mm[k]; ok {
				kb, _ := json.Marshal(k)
				parts = append(parts, string(kb)+":"+string(v))
			}
		}
		if extra != "" {
			parts = append(parts, extra)
		}
		return "{" + strings.Join(parts, ",") + "}"
	}
	for _, k := range keys {
		// deletion
		mm := clone(m)
		delete(mm, k)
		out = append(out, variant{build(mm, keys, ""), "delete:" + k})
		// the member moved out of the top level into a member the decoder ignores
		out = append(out, variant{build(mm, keys, `"ext":{`+string(mustJSON(k))+`:`+string(m[k])+`}`), "nested-in-ignored-object:" + k})
		out = append(out, variant{"{" + `"ext":{` + string(mustJSON(k)) + `:` + string(m[k]) + `},` + build(mm, keys, "")[1:], "nested-in-ignored-object:" + k})
		out = append(out, variant{build(mm, keys, `"ext":[{`+string(mustJSON(k))+`:`+string(m[k])+`}]`), "nested-in-ignored-array:" + k})
		out = append(out, variant{build(mm, keys, `"note":`+string(mustJSON(string(mustJSON(k))+":"+string(m[k])))), "quoted-in-ignored-string:" + k})
		// the member is gone, and a string VALUE of another member spells its name
		for _, holder := range []string{"reqUser", "transID", "reqHost"} {
			if holder == k {
				continue
			}
			mm2 := clone(mm)
			mm2[holder] = json.RawMessage(mustJSON(k))
			out = append(out, variant{build(mm2, keys, ""), "named-by-a-string-value:" + k})
		}
		// case renames
		for _, nk := range []string{strings.ToUpper(k), strings.ToLower(k), strings.ToUpper(k[:1]) + k[1:]} {
			if nk == k {
				continue
			}
			mm := clone(m)
			mm[nk] = mm[k]
			delete(mm, k)
			order := append([]string{}, keys...)
			order = append(order, nk)
			out = append(out, variant{build(mm, order, ""), "rename:" + k})
		}
		// duplication under a differently-cased name (the struct decoder matches names
		// case-insensitively, the required-field map does not) with conflicting values
		for _, nk := range []string{strings.ToUpper(k), strings.ToUpper(k[:1]) + k[1:]} {
			nkb, _ := json.Marshal(nk)
			for _, rv := range []string{"true", "false", "1", "0", "2", "7", `"x"`, "null"} {
				out = append(out, variant{build(m, keys, string(nkb)+":"+rv), "dup-case-after:" + k})
				out = append(out, variant{"{" + string(nkb) + ":" + rv + "," + build(m, keys, "")[1:], "dup-case-before:" + k})
			}
		}
		// duplication with the same and with a conflicting value
		kb, _ := json.Marshal(k)
		out = append(out, variant{build(m, keys, string(kb)+":"+string(m[k])), "dup-same:" + k})
		for _, rv := range []string{"true", "false", "1", "0", "2", `"x"`, "null"} {
			out = append(out, variant{build(m, keys, string(kb)+":"+rv), "dup-conflict:" + k})
			// conflicting value first, real value last
			out = append(out, variant{"{" + string(kb) + ":" + rv + "," + build(m, keys, "")[1:], "dup-conflict-first:" + k})
		}
		// retyping
		for _, rv := range retypes {
			mm := clone(m)
			mm[k] = json.RawMessage(rv)
			out = append(out, variant{build(mm, keys, ""), "retype:" + k})
		}
	}
	// two members retyped at once, either one first in the text (a decoder that reports only the first mistake it
	// meets must not be talked out of the second by the first)
	for _, k := range keys {
		for _, k2 := range keys {
			if k == k2 {
				continue
			}
			for _, rvs := range [][2]string{{`"x"`, `"all"`}, {`[]`, `{}`}} {
				mm := clone(m)
				mm[k], mm[k2] = json.RawMessage(rvs[0]), json.RawMessage(rvs[1])
				order := []string{k2, k}
				for _, o := range keys {
					if o != k && o != k2 {
						order = append(order, o)
					}
				}
				out = append(out, variant{build(mm, order, ""), "retype-pair:" + k + "+" + k2})
				out = append(out, variant{build(mm, keys, ""), "retype-pair:" + k + "+" + k2})
			}
		}
	}
	// a valid encoding with something after (or before) it is not a KeyID
	for _, tail := range []string{" x", "garbage", "{}", text, "\n[]", ",", "}", " \n\t"} {
		out = append(out, variant{text + tail, "trailing"})
	}
	for _, head := range []string{"x ", "[]", "{}", ","} {
		out = append(out, variant{head + text, "leading"})
	}
	// flags flipped one at a time and in pairs (reaches every conflict pair from a valid base)
	flags := []string{"isFirefighter", "isHWKey", "isHeadless", "isNonce"}
	for a := 0; a < 16; a++ {
		for _, tp := range []string{"-1", "0", "1", "2", "3", "4"} {
			mm := clone(m)
			for i, f := range flags {
				if a&(1<<uint(i)) != 0 {
					mm[f] = json.RawMessage("true")
				} else {
					mm[f] = json.RawMessage("false")
				}
			}
			mm["touchPolicy"] = json.RawMessage(tp)
			out = append(out, variant{build(mm, keys, ""), "flags"})
		}
	}
	return out
}

func mustJSON(v any) []byte { b, _ := json.Marshal(v); return b }

func clone(m map[string]json.RawMessage) map[string]json.RawMessage {
	o := make(map[string]json.RawMessage, len(m))
	for k, v := range m {
		o[k] = v
	}
	return o
}
