package main

import (
	"bytes"
	"fmt"
	"sort"
	"strings"
	"sync"
	"time"

	"golang.org/x/crypto/ssh"
	"golang.org/x/crypto/ssh/agent"

	"github.com/theparanoids/ysshra/agent/shimagent"
	"github.com/theparanoids/ysshra/verifharness/lib/ev"
	"github.com/theparanoids/ysshra/verifharness/lib/gen"
	sh "github.com/theparanoids/ysshra/verifharness/lib/shimhist"
	"github.com/theparanoids/ysshra/verifharness/lib/wire"
)

// matrix: one fixed state (a plain key and a certificate held by the underlying agent; two hardware certificates held by
// the shim alone, in memory), locked, then ONE operation out of the complete list (every operation x every kind of
// target), then unlocked with the right passphrase. Whatever the operation was, it is refused (or discloses nothing),
// and afterwards the shim lists exactly what it listed before the lock — with the same comments — offers the same
// signers, still signs with every identity, and the underlying agent holds what it held.
func matrix(r *ev.Run) {
	type view struct {
		list    []string
		signers []string
		under   []string
	}
	ops := []string{"remove:hw1", "remove:hw2", "remove:ukey", "remove:ucert", "remove:unknown", "remove-all", "add:key", "add:cert", "add-hard-cert:new", "add-hard-cert:hw1-again",
		"sign:hw1", "sign:ukey", "sign:ucert", "list", "signers", "lock-again", "unlock-wrong", "unlock-wrong-seven-times", "unlock-empty", "close", "nothing"}
	idx := 0
	for _, noUp := range []bool{false, true} {
		for _, op := range ops {
			for si, second := range []string{"", "remove:hw1", "remove-all", "", "add-hard-cert:hw1-again"} {
				// in the last two variants the first hardware certificate's key is held by the underlying agent only as
				// part of a key+certificate identity (the plain key was removed directly before the lock)
				keyOnlyInCert := si >= 3
				c := r.Case("matrix", idx)
				idx++
				if c == nil {
					continue
				}
				rec := map[string]any{"no_upstream": noUp, "operation_while_locked": op, "second_operation_while_locked": second, "first_hardware_key_only_inside_a_certificate_identity": keyOnlyInCert}
				r.Eval(1)
				r.Guard(c, "locked-operation matrix", rec, func() {
					ag := wire.New()
					defer ag.Close()
					sock, err := ag.Listen()
					if err != nil {
						r.Inconclusive(err.Error())
						return
					}
					pool := gen.Pool()
					k1, k2, k3 := pool[0], pool[8], pool[1]
					now := uint64(time.Now().Unix())
					mk := func(k *gen.Key, kid string) *ssh.Certificate {
						return gen.MakeCert(gen.CertSpec{Key: k, KeyID: kid, ValidAfter: now - 3600, ValidBefore: now + 7200, Principals: []string{"u"}, Serial: uint64(c.Rand.Int63())})
					}
					hw1 := mk(k1, gen.YSSHCAKeyID(gen.KeyIDSpec{HW: true, Touch: 3, TransID: "aaaaaaaaaa", Prins: []string{"u"}}))
					hw2 := mk(k2, gen.YSSHCAKeyID(gen.KeyIDSpec{HW: true, Touch: 1, TransID: "bbbbbbbbbb", Prins: []string{"u"}}))
					hwNew := mk(k1, gen.YSSHCAKeyID(gen.KeyIDSpec{HW: true, FF: true, Touch: 3, TransID: "cccccccccc", Prins: []string{"u"}}))
					ucert := mk(k3, "user@host plain certificate")
					ag.Keyring.Add(agent.AddedKey{PrivateKey: k1.Priv, Comment: "key one"})
					ag.Keyring.Add(agent.AddedKey{PrivateKey: k2.Priv, Comment: "key two"})
					ag.Keyring.Add(agent.AddedKey{PrivateKey: k3.Priv, Certificate: ucert, Comment: "plain cert"})
					// an upstream certificate with a YSSHCA KeyID: listed when the mode is off, hidden when it is on — before the
					// lock and after the unlock alike
					ycert := mk(pool[2], gen.YSSHCAKeyID(gen.KeyIDSpec{Touch: 1, TransID: "ffffffffff", Prins: []string{"u"}}))
					ag.Keyring.Add(agent.AddedKey{PrivateKey: pool[2].Priv, Certificate: ycert, Comment: "upstream ysshca cert"})
					inner, err := shimagent.New(shimagent.Option{Address: sock, NoUpstream: noUp})
					if err != nil {
						r.Violation(c, "shim-construction-fails-without-fault", err.Error(), rec)
						return
					}
					hung := false
					s := &sh.Guarded{Inner: inner, OnHang: func(op string) { hung = true; ag.Close() }}
					defer func() {
						if !hung {
							s.Close()
						}
					}()
					if e1, e2 := s.AddHardCert(hw1, "first"), s.AddHardCert(hw2, "second"); e1 != nil || e2 != nil {
						r.Violation(c, "hardware-cert-with-held-key-refused", fmt.Sprintf("%v %v", e1, e2), rec)
						return
					}
					look := func() (v view, err error) {
						l, err := s.List()
						if err != nil {
							return v, err
						}
						for _, k := range l {
							v.list = append(v.list, fmt.Sprintf("%x %s", k.Blob[len(k.Blob)-8:], k.Comment))
						}
						sg, err := s.Signers()
						if err != nil {
							return v, err
						}
						for _, x := range sg {
							b := x.PublicKey().Marshal()
							v.signers = append(v.signers, fmt.Sprintf("%x", b[len(b)-8:]))
						}
						u, _ := ag.Keyring.List()
						for _, k := range u {
							v.under = append(v.under, fmt.Sprintf("%x %s", k.Blob[len(k.Blob)-8:], k.Comment))
						}
						sort.Strings(v.list)
						sort.Strings(v.signers)
						sort.Strings(v.under)
						return v, nil
					}
					if keyOnlyInCert {
						ag.Keyring.Add(agent.AddedKey{PrivateKey: k1.Priv, Certificate: mk(k1, "someone@example over key one"), Comment: "key one, certified"})
						ag.Keyring.Remove(k1.Pub)
					}
					before, err := look()
					if err != nil {
						r.Violation(c, "list-fails-without-fault", err.Error(), rec)
						return
					}
					if want := map[bool]int{true: 5, false: 6}[noUp]; len(before.list) != want {
						r.Inconclusive(fmt.Sprintf("matrix: expected %d listed identities before the lock, got %v", want, before.list))
						return
					}
					pass := []byte("matrix passphrase")
					if err := s.Lock(pass); err != nil {
						r.Violation(c, "lock-fails-without-fault", err.Error(), rec)
						return
					}
					do := func(op string) (refused bool, what string) {
						var err error
						switch op {
						case "remove:hw1":
							err = s.Remove(hw1)
						case "remove:hw2":
							err = s.Remove(hw2)
						case "remove:ukey":
							err = s.Remove(k2.Pub)
						case "remove:ucert":
							err = s.Remove(ucert)
						case "remove:unknown":
							err = s.Remove(pool[9].Pub)
						case "remove-all":
							err = s.RemoveAll()
						case "add:key":
							err = s.Add(agent.AddedKey{PrivateKey: pool[9].Priv, Comment: "added while locked"})
						case "add:cert":
							err = s.Add(agent.AddedKey{PrivateKey: k3.Priv, Certificate: mk(k3, "another"), Comment: "added while locked"})
						case "add-hard-cert:new":
							err = s.AddHardCert(hwNew, "new")
						case "add-hard-cert:hw1-again":
							err = s.AddHardCert(hw1, "renamed")
						case "sign:hw1":
							_, err = s.Sign(hw1, []byte("data"))
						case "sign:ukey":
							_, err = s.Sign(k2.Pub, []byte("data"))
						case "sign:ucert":
							_, err = s.Sign(ucert, []byte("data"))
						case "list":
							l, lerr := s.List()
							if lerr == nil && len(l) > 0 {
								return false, fmt.Sprintf("%d identities disclosed", len(l))
							}
							return true, ""
						case "signers":
							sg, serr := s.Signers()
							if serr == nil && len(sg) > 0 {
								return false, fmt.Sprintf("%d signers disclosed", len(sg))
							}
							return true, ""
						case "lock-again":
							err = s.Lock([]byte("other"))
						case "unlock-wrong":
							err = s.Unlock([]byte("not the passphrase"))
						case "unlock-wrong-seven-times":
							for k := 0; k < 7; k++ {
								if e := s.Unlock([]byte(fmt.Sprintf("guess %d", k))); e == nil {
									return false, fmt.Sprintf("wrong passphrase number %d accepted", k)
								} else {
									err = e
								}
							}
						case "unlock-empty":
							err = s.Unlock(nil)
						case "close":
							err = s.Close()
						case "nothing", "":
							return true, ""
						}
						return err != nil, "returned nil"
					}
					// what a locked shim answers does not depend on what it holds: a request to sign with (or to remove) a
					// certificate it holds, one it has never seen, an upstream certificate and a plain key are all told the same
					{
						unseen := mk(k2, gen.YSSHCAKeyID(gen.KeyIDSpec{HW: true, Touch: 3, TransID: "eeeeeeeeee", Prins: []string{"u"}}))
						targets := []struct {
							name string
							key  ssh.PublicKey
						}{{"held hardware certificate", hw1}, {"hardware certificate never added", unseen}, {"upstream YSSHCA certificate", ycert}, {"upstream plain certificate", ucert}, {"held plain key", k2.Pub}, {"key never seen", pool[9].Pub}}
						var firstSign, firstRemove string
						for ti, t := range targets {
							_, serr := s.Sign(t.key, []byte("probe"))
							rerr := s.Remove(t.key)
							if hung {
								return
							}
							if serr == nil || rerr == nil {
								r.Violation(c, "locked-operation-not-refused:probe", fmt.Sprintf("%s: sign err=%v remove err=%v", t.name, serr, rerr), rec)
								return
							}
							if ti == 0 {
								firstSign, firstRemove = serr.Error(), rerr.Error()
								continue
							}
							if serr.Error() != firstSign || rerr.Error() != firstRemove {
								r.Violation(c, "locked-refusal-depends-on-what-is-held", fmt.Sprintf("while locked: sign/remove naming the %s are answered %q / %q, naming the %s %q / %q", targets[0].name, firstSign, firstRemove, t.name, serr, rerr), rec)
								return
							}
						}
					}
					for _, o := range []string{op, second} {
						if hung {
							return
						}
						if refused, what := do(o); !refused {
							r.Violation(c, "locked-operation-not-refused:"+o, what, rec)
							return
						}
					}
					if hung {
						r.Violation(c, "operation-does-not-return:matrix", op, rec)
						return
					}
					if err := s.Unlock(pass); err != nil {
						r.Violation(c, "unlock-with-right-passphrase-fails", fmt.Sprintf("after %s while locked: %v", op, err), rec)
						return
					}
					after, err := look()
					if err != nil {
						r.Violation(c, "list-fails-without-fault", "after unlock: "+err.Error(), rec)
						return
					}
					cmp := func(what string, a, b []string) bool {
						if fmt.Sprint(a) != fmt.Sprint(b) {
							r.Violation(c, "locked-operation-changes-"+what+":"+op, fmt.Sprintf("before the lock: %v\nafter the unlock: %v", a, b), rec)
							return false
						}
						return true
					}
					if !cmp("listing", before.list, after.list) || !cmp("signers", before.signers, after.signers) || !cmp("underlying-agent", before.under, after.under) {
						return
					}
					// and everything still signs
					for name, pk := range map[string]ssh.PublicKey{"hw1": hw1, "hw2": hw2, "ukey": k2.Pub, "ucert": ucert} {
						if noUp && name == "ucert" {
							continue
						}
						if keyOnlyInCert && name == "hw1" {
							continue // its plain key is not an identity of the underlying agent any more
						}
						sig, err := s.Sign(pk, []byte("after unlock"))
						if err != nil || pk.Verify([]byte("after unlock"), sig) != nil {
							r.Violation(c, "identity-unusable-after-unlock:"+name, fmt.Sprintf("after %s while locked: err=%v", op, err), rec)
							return
						}
					}
					r.Count("matrix cases: locked operation refused, views identical after unlock", 1)
					r.Nontrivial(fmt.Sprintf("matrix:%v:%s:%s:%v", noUp, op, second, keyOnlyInCert))
				})
			}
		}
	}
}

// lapseWhileLocked: a certificate held by the underlying agent lapses while the shim is locked, and the underlying
// agent refuses removals. The right passphrase still unlocks: afterwards the shim answers as an unlocked shim
// (its listing may fail because of the refused purge, but it is not "locked"), and a second unlock finds nothing to unlock.
func lapseWhileLocked(r *ev.Run) {
	c := r.Case("lapse-while-locked", 0)
	if c == nil {
		return
	}
	r.Eval(1)
	r.Guard(c, "lapse while locked", nil, func() {
		ag := wire.New()
		defer ag.Close()
		sock, err := ag.Listen()
		if err != nil {
			r.Inconclusive(err.Error())
			return
		}
		pool := gen.Pool()
		k1, k2 := pool[0], pool[9]
		start := time.Now()
		lapse := start.Add(3 * time.Second)
		short := gen.MakeCert(gen.CertSpec{Key: k2, KeyID: "short-lived@example", ValidAfter: uint64(start.Unix()) - 3600, ValidBefore: uint64(lapse.Unix()), Principals: []string{"u"}})
		ag.Keyring.Add(agent.AddedKey{PrivateKey: k1.Priv, Comment: "k1"})
		ag.Keyring.Add(agent.AddedKey{PrivateKey: k2.Priv, Certificate: short, Comment: "short-lived"})
		inner, err := shimagent.New(shimagent.Option{Address: sock})
		if err != nil {
			r.Violation(c, "shim-construction-fails-without-fault", err.Error(), nil)
			return
		}
		hung := false
		s := &sh.Guarded{Inner: inner, OnHang: func(op string) { hung = true; ag.Close() }}
		defer func() {
			if !hung {
				s.Close()
			}
		}()
		pass := []byte("right passphrase")
		if err := s.Lock(pass); err != nil {
			r.Violation(c, "lock-fails-without-fault", err.Error(), nil)
			return
		}
		ag.SetPlan(func(_ int, req []byte) wire.Action {
			if len(req) > 0 && req[0] == 18 {
				return wire.Action{Kind: wire.Failure}
			}
			return wire.Action{Kind: wire.Honest}
		})
		if d := time.Until(lapse.Add(1500 * time.Millisecond)); d > 0 {
			time.Sleep(d)
		}
		uerr := s.Unlock(pass)
		// whatever Unlock reported, the underlying agent took the passphrase: the shim must not be locked any more
		l, lerr := s.List()
		lockedStill := lerr == nil && len(l) == 0
		if err2 := s.Lock([]byte("again")); err2 == nil {
			// a shim that can be locked again was unlocked: fine
			s.Unlock([]byte("again"))
			lockedStill = false
		} else if uerr != nil && strings.Contains(err2.Error(), "locked") {
			lockedStill = true
		}
		if hung {
			r.Violation(c, "operation-does-not-return:lapse-while-locked", "", nil)
			return
		}
		if lockedStill {
			r.Violation(c, "unlock-with-right-passphrase-fails", fmt.Sprintf("a certificate lapsed while the shim was locked and the underlying agent refuses removals: Unlock(right passphrase) returned %v, the underlying agent is unlocked, the shim still answers as locked (List: %d identities, err=%v)", uerr, len(l), lerr), nil)
			return
		}
		r.Count("unlock with the right passphrase after a certificate lapsed under the lock (removals refused)", 1)
		r.Nontrivial("lapse-while-locked")
	})
}

// closeDuringRoundTrip: Close arrives at a locked shim while another request is in the middle of its round trip to a
// slow underlying agent (Forward, Extension and a wrong-passphrase Unlock are not refused up front on a locked shim).
// Close must be refused however the two are scheduled: afterwards the pending request completes, the right passphrase
// unlocks and the shim lists what it listed before.
func closeDuringRoundTrip(r *ev.Run) {
	for vi, busy := range []string{"forward", "extension", "wrong-unlock", "forward"} {
		c := r.Case("close-during-round-trip", vi)
		if c == nil {
			continue
		}
		r.Eval(1)
		r.Guard(c, "close during round trip", busy, func() {
			ag := wire.New()
			defer ag.Close()
			sock, err := ag.Listen()
			if err != nil {
				r.Inconclusive(err.Error())
				return
			}
			pool := gen.Pool()
			ag.Keyring.Add(agent.AddedKey{PrivateKey: pool[1].Priv, Comment: "k1"})
			inner, err := shimagent.New(shimagent.Option{Address: sock})
			if err != nil {
				r.Violation(c, "shim-construction-fails-without-fault", err.Error(), nil)
				return
			}
			hung := false
			s := &sh.Guarded{Inner: inner, OnHang: func(op string) { hung = true; ag.Close() }}
			before, _ := s.List()
			pass := []byte("right passphrase")
			if err := s.Lock(pass); err != nil {
				r.Violation(c, "lock-fails-without-fault", err.Error(), nil)
				return
			}
			n0 := ag.NumRequests()
			delay := time.Duration(150+100*vi) * time.Millisecond
			ag.SetPlan(func(idx int, _ []byte) wire.Action {
				if idx == n0 {
					return wire.Action{Kind: wire.Honest, Delay: delay}
				}
				return wire.Action{Kind: wire.Honest}
			})
			done := make(chan struct{})
			go func() {
				defer close(done)
				switch busy {
				case "forward":
					inner.Forward([]byte{200, 1, 2, 3})
				case "extension":
					inner.Extension("verif@example.com", []byte("x"))
				case "wrong-unlock":
					inner.Unlock([]byte("not the passphrase"))
				}
			}()
			deadline := time.Now().Add(ev.OpTimeout())
			for ag.NumRequests() == n0 && time.Now().Before(deadline) {
				time.Sleep(200 * time.Microsecond)
			}
			if ag.NumRequests() == n0 {
				r.Count("close-during-round-trip: the slow request never reached the underlying agent", 1)
				return
			}
			cerr := s.Close()
			<-done
			if hung {
				r.Violation(c, "operation-does-not-return:close-during-round-trip", busy, nil)
				return
			}
			if cerr == nil {
				r.Violation(c, "locked-close-succeeds:during-"+busy, "Close on a locked shim returned nil while a "+busy+" round trip to the underlying agent was pending", busy)
				return
			}
			if uerr := s.Unlock(pass); uerr != nil {
				r.Violation(c, "unlock-with-right-passphrase-fails:after-refused-close", fmt.Sprintf("Close (refused: %v) arrived during a %s round trip; Unlock(right passphrase) then returned %v", cerr, busy, uerr), busy)
				return
			}
			after, lerr := s.List()
			if lerr != nil || len(after) != len(before) {
				r.Violation(c, "shim-unusable-after-refused-close", fmt.Sprintf("listing after unlock: %d identities, err=%v (before the lock: %d)", len(after), lerr, len(before)), busy)
				return
			}
			s.Close()
			r.Count("Close refused on a locked shim while a round trip was pending; unlock and listing fine afterwards", 1)
			r.Nontrivial("close-during-round-trip:" + busy)
		})
	}
}

// lateForwardReply: a relayed request is answered by the underlying agent only after 3.6 s. Whatever the shim made of
// that (it may well have given up on it), the exchanges that follow are the shim's own: Lock with the right passphrase
// locks, Unlock with a wrong one is refused and leaves the shim locked, the right one unlocks.
func lateForwardReply(r *ev.Run) {
	var wg sync.WaitGroup
	for vi, slow := range [][]byte{append([]byte{200}, []byte("answered-late")...), {19}} {
		wg.Add(1)
		go func(vi int, slow []byte) { defer wg.Done(); lateForwardReplyOne(r, vi, slow) }(vi, slow)
	}
	wg.Wait()
}

// (the relayed request is an echo request of the harness, or a raw remove-all request, which the agent answers "success")
func lateForwardReplyOne(r *ev.Run, vi int, slow []byte) {
	c := r.Case("late-forward-reply", vi)
	if c == nil {
		return
	}
	r.Eval(1)
	r.Guard(c, "late reply to a relayed request, then lock and unlock", nil, func() {
		ag := wire.New()
		defer ag.Close()
		sock, err := ag.Listen()
		if err != nil {
			r.Inconclusive(err.Error())
			return
		}
		ag.Keyring.Add(agent.AddedKey{PrivateKey: gen.Pool()[2].Priv, Comment: "k"})
		inner, err := shimagent.New(shimagent.Option{Address: sock})
		if err != nil {
			r.Violation(c, "shim-construction-fails-without-fault", err.Error(), nil)
			return
		}
		hung := false
		s := &sh.Guarded{Inner: inner, OnHang: func(op string) { hung = true; ag.Close() }}
		ag.SetPlan(func(_ int, req []byte) wire.Action {
			if bytes.Equal(req, slow) {
				return wire.Action{Kind: wire.Honest, Delay: 3600 * time.Millisecond}
			}
			return wire.Action{Kind: wire.Honest}
		})
		_, ferr := s.Forward(slow)
		if ferr != nil {
			// the shim gave up waiting: give the late reply time to arrive before going on
			time.Sleep(1500 * time.Millisecond)
		}
		right, wrong := []byte("right passphrase"), []byte("wrong passphrase")
		lerr := s.Lock(right)
		uerr := s.Unlock(wrong)
		l, listErr := s.List()
		if hung {
			r.Violation(c, "operation-does-not-return:late-forward-reply", "", nil)
			return
		}
		if lerr == nil && uerr == nil {
			r.Violation(c, "unlock-with-wrong-passphrase-succeeds:after-a-late-forward-reply", fmt.Sprintf("a relayed request was answered after 3.6 s (Forward err=%v); then Lock(right)=nil and Unlock(wrong)=nil", ferr), nil)
			return
		}
		if lerr == nil && (listErr == nil && len(l) > 0) {
			r.Violation(c, "locked-list-discloses:after-a-late-forward-reply", fmt.Sprintf("Forward err=%v, Lock=nil, Unlock(wrong)=%v, then List returned %d identities", ferr, uerr, len(l)), nil)
			return
		}
		if lerr == nil {
			if err := s.Unlock(right); err != nil {
				r.Violation(c, "unlock-with-right-passphrase-fails:after-a-late-forward-reply", fmt.Sprintf("Forward err=%v: %v", ferr, err), nil)
				return
			}
		}
		if !hung {
			s.Close()
		}
		r.Count("lock / wrong unlock / right unlock after a relayed request that was answered after 3.6 s", 1)
		r.Nontrivial(fmt.Sprintf("late-forward-reply:%d", vi))
	})
}

// failedForwardWhileLocked: while the shim is locked a relayed request fails (one the shim refuses for its size before
// sending anything, one whose reply the underlying agent cuts short). The shim stays what it was — locked, and
// connected: the right passphrase unlocks it and it lists what it listed before.
func failedForwardWhileLocked(r *ev.Run) {
	for vi, kind := range []string{"request-over-16MiB", "request-of-17MiB", "empty-request"} {
		c := r.Case("failed-forward-while-locked", vi)
		if c == nil {
			continue
		}
		r.Eval(1)
		r.Guard(c, "failing relayed request on a locked shim", kind, func() {
			ag := wire.New()
			defer ag.Close()
			sock, err := ag.Listen()
			if err != nil {
				r.Inconclusive(err.Error())
				return
			}
			ag.Keyring.Add(agent.AddedKey{PrivateKey: gen.Pool()[4].Priv, Comment: "k"})
			inner, err := shimagent.New(shimagent.Option{Address: sock})
			if err != nil {
				r.Violation(c, "shim-construction-fails-without-fault", err.Error(), kind)
				return
			}
			hung := false
			s := &sh.Guarded{Inner: inner, OnHang: func(op string) { hung = true; ag.Close() }}
			before, _ := s.List()
			pass := []byte("right passphrase")
			if err := s.Lock(pass); err != nil {
				r.Violation(c, "lock-fails-without-fault", err.Error(), kind)
				return
			}
			var req []byte
			switch kind {
			case "request-over-16MiB":
				req = make([]byte, 16<<20+1)
				req[0] = 200
			case "request-of-17MiB":
				req = make([]byte, 17<<20)
				req[0] = 200
			}
			_, ferr := s.Forward(req)
			if hung {
				r.Violation(c, "operation-does-not-return:failed-forward-while-locked", kind, kind)
				return
			}
			if err := s.Unlock(pass); err != nil {
				r.Violation(c, "unlock-with-right-passphrase-fails:after-a-failed-forward", fmt.Sprintf("a relayed request (%s) on the locked shim returned %v; Unlock(right passphrase) then returned %v", kind, ferr, err), kind)
				return
			}
			after, lerr := s.List()
			if lerr != nil || len(after) != len(before) {
				r.Violation(c, "shim-unusable-after-a-failed-forward-while-locked", fmt.Sprintf("listing after unlock: %d identities, err=%v (before the lock: %d)", len(after), lerr, len(before)), kind)
				return
			}
			if !hung {
				s.Close()
			}
			r.Count("failing relayed requests on a locked shim: still locked, still connected, unlocks with the right passphrase", 1)
			r.Nontrivial("failed-forward-while-locked:" + kind)
		})
	}
}
