// C08 — a locked shim agent discloses and changes nothing; only the passphrase unlocks.
package main

import (
	"github.com/theparanoids/ysshra/verifharness/lib/ev"
	"github.com/theparanoids/ysshra/verifharness/lib/gen"
	sh "github.com/theparanoids/ysshra/verifharness/lib/shimhist"
	"sync"
	"time"
)

func main() {
	ev.MainIsolated("C08", "exploration", 60*time.Minute, func(r *ev.Run) {
		r.Rule("seeded histories of 6..30 operations interleaving lock / unlock (right, wrong, empty, 1 KiB, prefix and extension of the right passphrase) with list, signers, sign, add, remove, remove-all, add-hardware-cert, from every mix of in-memory and underlying identities, in both modes; variants where the keyring is locked/unlocked directly (also underneath a locked shim, so that the keyring is readable while the shim is locked) and where the underlying agent refuses lock/unlock requests (failure or garbage reply). Model: shim lock flag x keyring lock state. Plus the locked-operation matrix: one fixed state (underlying key, underlying certificate, two in-memory hardware certificates) x both modes x every operation on every kind of target (20) x an optional second operation: refused, and after the right unlock the listing (with comments), the signers and the underlying agent are what they were, and every identity still signs. distinct_nontrivial = distinct histories that issued at least 3 operations while the shim was locked")
		r.Assume("the keyring cannot be read while it is locked: 'changes nothing' is observed (a) through the readable keyring when it was unlocked underneath the shim's lock and (b) by comparing the pre-lock snapshot with the content after unlock")
		gen.Pool()
		// waits for a certificate to lapse (~4.5 s): beside everything else
		var lwg sync.WaitGroup
		lwg.Add(1)
		go func() { defer lwg.Done(); lapseWhileLocked(r) }()
		lwg.Add(1)
		go func() { defer lwg.Done(); lateForwardReply(r) }()
		closeDuringRoundTrip(r)
		failedForwardWhileLocked(r)
		defer lwg.Wait()
		n := r.Pick(500, 10000)
		st := sh.Batch(r, "C08", "hist", n, 8, func(c *ev.Case, i int) sh.Config {
			cfg := sh.Config{NoUpstream: i%2 == 1, Steps: 6 + c.Rand.Intn(25), Windows: []int{sh.WCurrent, sh.WCurrent, sh.WForever, sh.WPast}, LockOps: true, DirectLock: i%3 == 0, KIDs: []string{"touch", "text", "touchless"}, Preload: true, Forward: i%2 == 0,
				Weights: map[string]int{"lock": 12, "unlock": 12, "close-locked": 4, "direct-lock": 5, "add-hard-cert": 8, "list": 8, "direct-add": 4, "direct-remove": 2}}
			if i%4 == 3 {
				cfg.LockFaultPct = 40
			}
			return cfg
		}, func(e *sh.Engine, _ sh.Stats, st sh.Stats) bool { return st.LockedOps >= 3 })
		sh.Report(r, st)
		if r.Want("matrix") {
			matrix(r)
		}
		r.Floor(int64(r.Pick(500, 10000)), int64(r.Pick(150, 3000)))
	})
}
