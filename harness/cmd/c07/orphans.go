package main

import (
	"fmt"
	"sync"
	"time"

	"golang.org/x/crypto/ssh"
	"golang.org/x/crypto/ssh/agent"

	"github.com/theparanoids/ysshra/agent/shimagent"
	"github.com/theparanoids/ysshra/verifharness/lib/ev"
	"github.com/theparanoids/ysshra/verifharness/lib/gen"
	"github.com/theparanoids/ysshra/verifharness/lib/wire"
)

// orphans: a hardware certificate is accepted while its key K is listed; then the content of the underlying agent is
// rearranged directly into every shape the orphan rule distinguishes, and the first operation that runs the filter
// (List, Signers or Sign) is observed, followed by a listing after K has been put back.
//
//	empty list / locked agent          -> nothing is dropped
//	non-empty list with K as plain key -> kept
//	non-empty list lacking K           -> dropped (whether the list holds plain keys, certificates of other keys, or both),
//	                                      and it stays dropped when K comes back
//	K present only inside a certificate identity -> left open
func orphans(r *ev.Run) {
	shapes := []struct {
		name string
		keep int // +1 keep, -1 drop, 0 open
	}{
		{"emptied", 1}, {"locked", 1}, {"k-plain", 1}, {"k-plain-and-others", 1},
		{"other-plain-key", -1}, {"only-certificate-of-other-key", -1}, {"only-certificates-of-two-other-keys", -1}, {"other-plain-key-and-other-certificate", -1},
		{"only-certificate-over-k", 0},
		// the list is non-empty when it is reported, even if everything in it is about to be purged
		{"only-expired-certificate-of-other-key", -1}, {"only-premature-certificate-of-other-key", -1}, {"expired-and-premature-certificates-of-other-keys", -1},
	}
	idx := 0
	for _, noUp := range []bool{false, true} {
		for _, shp := range shapes {
			for _, first := range []string{"list", "signers", "sign"} {
				for _, keyKind := range []int{0, 8, 16} { // ed25519, p256, rsa of the pool (by position)
					c := r.Case("orphans", idx)
					idx++
					if c == nil {
						continue
					}
					rec := map[string]any{"no_upstream": noUp, "underlying_agent_then": shp.name, "first_operation": first, "key": keyKind}
					r.Eval(1)
					if _, hung := r.GuardWithin(c, "orphan rule", rec, ev.CaseBudget(), func() {
						ag := wire.New()
						defer ag.Close()
						sock, err := ag.Listen()
						if err != nil {
							r.Inconclusive(err.Error())
							return
						}
						pool := gen.Pool()
						k := pool[keyKind%len(pool)]
						o1, o2 := pool[(keyKind+1)%len(pool)], pool[(keyKind+2)%len(pool)]
						now := uint64(time.Now().Unix())
						mk := func(k *gen.Key, kid string) *ssh.Certificate {
							return gen.MakeCert(gen.CertSpec{Key: k, KeyID: kid, ValidAfter: now - 3600, ValidBefore: now + 7200, Principals: []string{"u"}, Serial: uint64(c.Rand.Int63())})
						}
						hw := mk(k, gen.YSSHCAKeyID(gen.KeyIDSpec{HW: true, Touch: 3, TransID: "dddddddddd", Prins: []string{"u"}}))
						ag.Keyring.Add(agent.AddedKey{PrivateKey: k.Priv, Comment: "k"})
						s, err := shimagent.New(shimagent.Option{Address: sock, NoUpstream: noUp})
						if err != nil {
							r.Violation(c, "shim-construction-fails-without-fault", err.Error(), rec)
							return
						}
						defer s.Close()
						if err := s.AddHardCert(hw, "hw"); err != nil {
							r.Violation(c, "hardware-cert-with-held-key-refused", err.Error(), rec)
							return
						}
						has := func() (bool, error) {
							l, err := s.List()
							if err != nil {
								return false, err
							}
							for _, x := range l {
								if string(x.Blob) == string(hw.Marshal()) {
									return true, nil
								}
							}
							return false, nil
						}
						if ok, err := has(); err != nil || !ok {
							r.Violation(c, "valid-hardware-cert-not-listed", fmt.Sprintf("right after it was accepted: err=%v", err), rec)
							return
						}
						// both entry points have been used once while the certificate was good: whatever they remember must not outlive it
						if sg, err := s.Signers(); err != nil || len(sg) == 0 {
							r.Violation(c, "signers-fails-without-fault", fmt.Sprintf("right after the certificate was accepted: %d signers, err=%v", len(sg), err), rec)
							return
						}
						// rearrange the underlying agent directly. Certificates of other keys that are NOT YSSHCA certificates, so that
						// the no-upstream mode does not hide (and thereby complicate) anything.
						ag.Keyring.RemoveAll()
						plainCert := func(x *gen.Key) agent.AddedKey {
							return agent.AddedKey{PrivateKey: x.Priv, Certificate: mk(x, "someone@example"), Comment: "cert"}
						}
						switch shp.name {
						case "emptied":
						case "locked":
							ag.Keyring.Add(agent.AddedKey{PrivateKey: o1.Priv})
							ag.Keyring.Lock([]byte("behind the shim's back"))
						case "k-plain":
							ag.Keyring.Add(agent.AddedKey{PrivateKey: k.Priv, Comment: "k again"})
						case "k-plain-and-others":
							ag.Keyring.Add(plainCert(o1))
							ag.Keyring.Add(agent.AddedKey{PrivateKey: o2.Priv})
							ag.Keyring.Add(agent.AddedKey{PrivateKey: k.Priv, Comment: "k again"})
						case "other-plain-key":
							ag.Keyring.Add(agent.AddedKey{PrivateKey: o1.Priv})
						case "only-certificate-of-other-key":
							ag.Keyring.Add(plainCert(o1))
						case "only-certificates-of-two-other-keys":
							ag.Keyring.Add(plainCert(o1))
							ag.Keyring.Add(plainCert(o2))
						case "other-plain-key-and-other-certificate":
							ag.Keyring.Add(agent.AddedKey{PrivateKey: o1.Priv})
							ag.Keyring.Add(plainCert(o2))
						case "only-certificate-over-k":
							ag.Keyring.Add(plainCert(k))
						case "only-expired-certificate-of-other-key":
							ag.Keyring.Add(agent.AddedKey{PrivateKey: o1.Priv, Certificate: gen.MakeCert(gen.CertSpec{Key: o1, KeyID: "expired@example", ValidAfter: now - 7200, ValidBefore: now - 3600})})
						case "only-premature-certificate-of-other-key":
							ag.Keyring.Add(agent.AddedKey{PrivateKey: o1.Priv, Certificate: gen.MakeCert(gen.CertSpec{Key: o1, KeyID: "premature@example", ValidAfter: now + 3600, ValidBefore: now + 7200})})
						case "expired-and-premature-certificates-of-other-keys":
							ag.Keyring.Add(agent.AddedKey{PrivateKey: o1.Priv, Certificate: gen.MakeCert(gen.CertSpec{Key: o1, KeyID: "expired@example", ValidAfter: now - 7200, ValidBefore: now - 3600})})
							ag.Keyring.Add(agent.AddedKey{PrivateKey: o2.Priv, Certificate: gen.MakeCert(gen.CertSpec{Key: o2, KeyID: "premature@example", ValidAfter: now + 3600, ValidBefore: now + 7200})})
						}
						// while the underlying agent lists nothing (emptied or locked) or lacks the key, another hardware certificate over the
						// same key is offered and refused: that refusal is no reason to forget the one already accepted
						if keyKind == 8 || shp.keep == 1 {
							other := mk(k, gen.YSSHCAKeyID(gen.KeyIDSpec{HW: true, FF: true, Touch: 3, TransID: "eeeeeeeeee", Prins: []string{"u"}}))
							if err := s.AddHardCert(other, "second"); err == nil && (shp.name == "emptied" || shp.name == "locked" || shp.keep == -1) {
								r.Violation(c, "hardware-cert-without-held-key-accepted:"+shp.name, "", rec)
								return
							}
						}
						// the first operation that runs the filter
						listedNow, listedKnown := false, false
						switch first {
						case "list":
							ok, err := has()
							if err != nil {
								r.Violation(c, "list-fails-without-fault", err.Error(), rec)
								return
							}
							listedNow, listedKnown = ok, true
						case "signers":
							sg, err := s.Signers()
							if err != nil {
								if shp.name == "locked" {
									break // the underlying agent refuses to enumerate signers while locked
								}
								r.Violation(c, "signers-fails-without-fault", err.Error(), rec)
								return
							}
							for _, x := range sg {
								if string(x.PublicKey().Marshal()) == string(hw.Marshal()) {
									listedNow = true
								}
							}
							listedKnown = true
						case "sign":
							_, err := s.Sign(hw, []byte("data"))
							if shp.keep == -1 && err == nil {
								r.Violation(c, "sign-with-orphan-hardware-cert-succeeds:"+shp.name, "the underlying agent's non-empty list lacks the certificate's key, yet signing with the certificate succeeded", rec)
								return
							}
						}
						if listedKnown {
							if shp.keep == 1 && !listedNow {
								r.Violation(c, "hardware-cert-dropped-although-list-is-"+shp.name, fmt.Sprintf("%s after the underlying agent was rearranged", first), rec)
								return
							}
							if shp.keep == -1 && listedNow {
								r.Violation(c, "orphan-hardware-cert-listed:"+shp.name, fmt.Sprintf("%s: the underlying agent reports a non-empty list that lacks the certificate's public key", first), rec)
								return
							}
						}
						// K comes back (and the agent is unlocked): kept ones are listed and sign, dropped ones stay dropped
						if shp.name == "locked" {
							ag.Keyring.Unlock([]byte("behind the shim's back"))
						}
						ag.Keyring.Add(agent.AddedKey{PrivateKey: k.Priv, Comment: "k is back"})
						ok, err := has()
						if err != nil {
							r.Violation(c, "list-fails-without-fault", err.Error(), rec)
							return
						}
						switch {
						case shp.keep == 1 && !ok:
							r.Violation(c, "hardware-cert-lost:"+shp.name, "missing from the listing once its key is listed again", rec)
							return
						case shp.keep == -1 && ok:
							r.Violation(c, "dropped-hardware-cert-comes-back:"+shp.name, "listed again once its key is listed again, although it had to be dropped", rec)
							return
						case shp.keep == 1:
							sig, err := s.Sign(hw, []byte("later"))
							if err != nil || hw.Verify([]byte("later"), sig) != nil {
								r.Violation(c, "kept-hardware-cert-does-not-sign:"+shp.name, fmt.Sprint(err), rec)
								return
							}
						}
						r.Count("orphan-rule cases ("+map[int]string{1: "kept", -1: "dropped", 0: "open"}[shp.keep]+")", 1)
						r.Nontrivial(fmt.Sprintf("orphans:%v:%s:%s:%d", noUp, shp.name, first, keyKind))
					}); hung {
						r.Unfinished("orphan rule")
						return
					}
				}
			}
		}
	}
}

// purgeRefused: the underlying agent holds an out-of-window certificate and refuses to remove anything (failure reply
// to every remove request). The purge cannot succeed; the certificate is not listed and cannot be signed with all the same.
func purgeRefused(r *ev.Run) {
	idx := 0
	for _, noUp := range []bool{false, true} {
		for _, window := range []string{"expired", "premature", "zero"} {
			for _, first := range []string{"sign", "list", "signers"} {
				c := r.Case("purge-refused", idx)
				idx++
				if c == nil {
					continue
				}
				rec := map[string]any{"no_upstream": noUp, "window": window, "first_operation": first}
				r.Eval(1)
				if _, hung := r.GuardWithin(c, "purge refused", rec, ev.CaseBudget(), func() {
					ag := wire.New()
					defer ag.Close()
					sock, err := ag.Listen()
					if err != nil {
						r.Inconclusive(err.Error())
						return
					}
					pool := gen.Pool()
					k1, k2 := pool[0], pool[9]
					now := uint64(time.Now().Unix())
					va, vb := now-7200, now-3600
					switch window {
					case "premature":
						va, vb = now+3600, now+7200
					case "zero":
						va, vb = 0, 0
					}
					bad := gen.MakeCert(gen.CertSpec{Key: k2, KeyID: "out-of-window@example", ValidAfter: va, ValidBefore: vb, Principals: []string{"u"}, Serial: uint64(c.Rand.Int63())})
					ag.Keyring.Add(agent.AddedKey{PrivateKey: k1.Priv, Comment: "k1"})
					s, err := shimagent.New(shimagent.Option{Address: sock, NoUpstream: noUp})
					if err != nil {
						r.Violation(c, "shim-construction-fails-without-fault", err.Error(), rec)
						return
					}
					defer s.Close()
					// the certificate arrives behind the shim's back, then removals start to be refused
					ag.Keyring.Add(agent.AddedKey{PrivateKey: k2.Priv, Certificate: bad, Comment: "bad"})
					ag.SetPlan(func(_ int, req []byte) wire.Action {
						if len(req) > 0 && req[0] == 18 {
							return wire.Action{Kind: wire.Failure}
						}
						return wire.Action{Kind: wire.Honest}
					})
					listed := func(keys []*agent.Key) bool {
						for _, k := range keys {
							if string(k.Blob) == string(bad.Marshal()) {
								return true
							}
						}
						return false
					}
					for _, op := range []string{first, "sign", "list", "signers", "sign"} {
						switch op {
						case "sign":
							if sig, err := s.Sign(bad, []byte("data")); err == nil {
								r.Violation(c, "sign-with-out-of-window-cert-succeeds:"+window+":purge-refused", fmt.Sprintf("the underlying agent refuses the removal of the %s certificate; Sign with it returned a signature (%d bytes)", window, len(sig.Blob)), rec)
								return
							}
						case "list":
							if l, err := s.List(); err == nil && listed(l) {
								r.Violation(c, "out-of-window-cert-listed:"+window+":purge-refused", "List", rec)
								return
							}
						case "signers":
							if sg, err := s.Signers(); err == nil {
								for _, x := range sg {
									if string(x.PublicKey().Marshal()) == string(bad.Marshal()) {
										r.Violation(c, "out-of-window-cert-listed:"+window+":purge-refused", "Signers", rec)
										return
									}
								}
							}
						}
					}
					r.Count("histories with an out-of-window certificate the underlying agent refuses to remove", 1)
					r.Nontrivial(fmt.Sprintf("purge-refused:%v:%s:%s", noUp, window, first))
				}); hung {
					r.Unfinished("purge refused")
					return
				}
			}
		}
	}
}

// slowListing: the underlying agent takes four seconds to answer an identity listing, and a certificate it holds lapses
// two to three seconds into that wait. What the shim returns afterwards is produced after the certificate lapsed: it does
// not contain it (the interval rule of the histories, narrowed: the shim's clock read cannot precede the arrival of
// the listing it filters), and signing with it fails.
func slowListing(r *ev.Run) {
	var wg sync.WaitGroup
	for ci, first := range []string{"list", "signers", "sign"} {
		c := r.Case("slow-listing", ci)
		if c == nil {
			continue
		}
		wg.Add(1)
		go func(first string, c *ev.Case) {
			defer wg.Done()
			rec := map[string]any{"operation": first}
			r.Eval(1)
			if _, hung := r.GuardWithin(c, "slow listing", rec, ev.CaseBudget(), func() {
				ag := wire.New()
				defer ag.Close()
				sock, err := ag.Listen()
				if err != nil {
					r.Inconclusive(err.Error())
					return
				}
				pool := gen.Pool()
				k1, k2 := pool[0], pool[9]
				ag.Keyring.Add(agent.AddedKey{PrivateKey: k1.Priv, Comment: "k1"})
				s, err := shimagent.New(shimagent.Option{Address: sock})
				if err != nil {
					r.Violation(c, "shim-construction-fails-without-fault", err.Error(), rec)
					return
				}
				defer s.Close()
				start := time.Now()
				lapse := start.Add(3 * time.Second) // truncated to whole seconds below: lapses 2..3 s from now
				short := gen.MakeCert(gen.CertSpec{Key: k2, KeyID: "short-lived@example", ValidAfter: uint64(start.Unix()) - 3600, ValidBefore: uint64(lapse.Unix()), Principals: []string{"u"}})
				ag.Keyring.Add(agent.AddedKey{PrivateKey: k2.Priv, Certificate: short, Comment: "short-lived"})
				var mu sync.Mutex
				var firstReply time.Time
				ag.SetPlan(func(_ int, req []byte) wire.Action {
					if len(req) > 0 && req[0] == 11 {
						mu.Lock()
						first := firstReply.IsZero()
						if first {
							firstReply = time.Now().Add(4500 * time.Millisecond)
						}
						mu.Unlock()
						if first {
							return wire.Action{Kind: wire.Honest, Delay: 4500 * time.Millisecond}
						}
					}
					return wire.Action{Kind: wire.Honest}
				})
				has := false
				switch first {
				case "list":
					l, err := s.List()
					if err != nil {
						return
					}
					for _, x := range l {
						has = has || string(x.Blob) == string(short.Marshal())
					}
				case "signers":
					sg, err := s.Signers()
					if err != nil {
						return
					}
					for _, x := range sg {
						has = has || string(x.PublicKey().Marshal()) == string(short.Marshal())
					}
				case "sign":
					_, err := s.Sign(short, []byte("data"))
					has = err == nil
				}
				if time.Since(start) < 4*time.Second {
					r.Count("slow listing: the operation did not wait for the underlying agent (not judged)", 1)
					return
				}
				if has {
					r.Violation(c, "out-of-window-cert-listed:lapsed-while-waiting-for-the-underlying-agent:"+first, fmt.Sprintf("the certificate lapsed at %s; the underlying agent's listing arrived at about %s; %s returned at %s and still offers it", time.Unix(lapse.Unix(), 0).Format("15:04:05"), start.Add(4500*time.Millisecond).Format("15:04:05.0"), first, time.Now().Format("15:04:05.0")), rec)
					return
				}
				r.Count("operations that outlasted a certificate's validity (slow underlying agent) and did not offer it", 1)
				r.Nontrivial("slow-listing:" + first)
			}); hung {
				r.Unfinished("slow listing")
				return
			}
		}(first, c)
	}
	wg.Wait()
}
