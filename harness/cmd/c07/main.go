// C07 — the shim agent never lists or signs with expired, premature or keyless certificates.
package main

import (
	"fmt"
	"math"
	"sync"
	"time"

	"golang.org/x/crypto/ssh"

	certutil "github.com/theparanoids/ysshra/sshutils/cert"
	"github.com/theparanoids/ysshra/verifharness/lib/ev"
	"github.com/theparanoids/ysshra/verifharness/lib/gen"
	sh "github.com/theparanoids/ysshra/verifharness/lib/shimhist"
)

func main() {
	ev.MainIsolated("C07", "exploration", 60*time.Minute, func(r *ev.Run) {
		r.Rule("seeded histories of 5..40 operations {add key|cert, add-hardware-cert, remove, remove-all, list, signers, sign, direct add/remove on the keyring, direct lock/unlock, sleep-until-lapse} on a real shim over the scripted underlying agent, in both upstream modes, with certificates whose windows are past, just expired, current, future, lapsing in 2 s, 0..0, 0..forever, ValidAfter > MaxInt64, valid in 25 s, expired 12 s ago; after every operation the result and the keyring (read directly) are compared with the sequential reference model under the interval-clock rule. plus the orphan-rule table (a hardware certificate accepted, then the underlying agent rearranged directly into: emptied, locked, key still plain, key plain among others, another plain key, only a certificate of another key, only certificates of two other keys, other key + other certificate, only a certificate over the same key; x first filter-running operation List/Signers/Sign x three key types x both modes). distinct_nontrivial = distinct histories in which the model saw at least one out-of-window certificate purged or one orphan hardware certificate dropped")
		r.Assume("interval oracle: the implementation's clock read lies between the harness's reads before and after the call; the boundary second is don't-care", "for the slow-listing cases the clock read cannot precede the arrival of the listing that is being filtered", "whether a certificate over the same key counts as 'its public key' for orphaning is left open")
		gen.Pool()
		// waits out a slow underlying agent (~5 s): beside everything else
		var swg sync.WaitGroup
		swg.Add(1)
		go func() { defer swg.Done(); slowListing(r) }()
		swg.Add(1)
		go func() { defer swg.Done(); retainedKeyObject(r) }()
		defer swg.Wait()
		windows := []int{sh.WPast, sh.WJustExpired, sh.WCurrent, sh.WCurrent, sh.WFuture, sh.WZero, sh.WForever, sh.WHugeVA, sh.WSoon, sh.WJustLapsed}
		nt := func(e *sh.Engine, _ sh.Stats, st sh.Stats) bool { return st.Purged+st.OrphansDropped > 0 }
		total := sh.NewStats()
		n := r.Pick(400, 8000)
		st := sh.Batch(r, "C07", "hist", n, 8, func(c *ev.Case, i int) sh.Config {
			return sh.Config{NoUpstream: i%2 == 1, Steps: 5 + c.Rand.Intn(36), Windows: windows, DirectLock: i%5 == 0, LockOps: i%7 == 0, KIDs: []string{"touch", "text", "touchless", "empty", "many-prins"}, Preload: i%3 == 0,
				Weights: map[string]int{"direct-add": 10, "direct-remove": 7, "add-hard-cert": 12, "list": 12, "sign": 10}}
		}, nt)
		mergeInto(total, st)
		nl := r.Pick(32, 512)
		st2 := sh.Batch(r, "C07", "lapsing", nl, 32, func(c *ev.Case, i int) sh.Config {
			return sh.Config{NoUpstream: i%2 == 1, Steps: 12 + c.Rand.Intn(10), Windows: []int{sh.WLapsing, sh.WLapsing, sh.WCurrent, sh.WForever, sh.WPast}, Lapsing: true, KIDs: []string{"touch", "text"},
				Weights: map[string]int{"direct-add": 12, "add-hard-cert": 14, "list": 14, "sign": 10, "remove": 1, "remove-all": 0, "direct-remove": 1}}
		}, nt)
		mergeInto(total, st2)
		sh.Report(r, total)
		r.Count("lapsing histories (certificate expires mid-history)", nl)
		boundaries(r)
		if r.Want("orphans") {
			orphans(r)
		}
		if r.Want("renewal") {
			renewal(r)
		}
		if r.Want("several-orphans") {
			severalOrphans(r)
		}
		if r.Want("purge-refused") {
			purgeRefused(r)
		}
		r.Floor(int64(r.Pick(400, 8000)), int64(r.Pick(100, 2000)))
	})
}

func mergeInto(a, b *sh.Stats) {
	for k, v := range b.Ops {
		a.Ops[k] += v
	}
	for k := range b.ModelStates {
		a.ModelStates[k] = struct{}{}
	}
	a.Listings += b.Listings
	a.ListedIdents += b.ListedIdents
	a.Purged += b.Purged
	a.OrphansDropped += b.OrphansDropped
	a.Hidden += b.Hidden
	a.SignsVerified += b.SignsVerified
	a.LockedOps += b.LockedOps
	a.Forwarded += b.Forwarded
}

// boundaries monitors the pure validity function at exact boundaries.
func boundaries(r *ev.Run) {
	if !r.Want("boundary") {
		return
	}
	type w struct{ va, vb uint64 }
	now := uint64(time.Now().Unix())
	ws := []w{{now - 100, now + 100}, {0, ssh.CertTimeInfinity}, {0, 0}, {1, 2}, {now, now}, {uint64(math.MaxInt64), ssh.CertTimeInfinity}, {uint64(math.MaxInt64) + 5, ssh.CertTimeInfinity}, {0, uint64(math.MaxInt64)}, {0, uint64(math.MaxInt64) + 1}, {now + 10, now + 5}}
	i := 0
	for _, x := range ws {
		ts := []int64{0, 1, int64(clampI(x.va)) - 1, int64(clampI(x.va)) + 1, int64(clampI(x.vb)) - 1, int64(clampI(x.vb)) + 1, int64(now), math.MaxInt64, math.MaxInt64 - 1, int64(clampI(x.va)), int64(clampI(x.vb))}
		for _, t := range ts {
			c := r.Case("boundary", i)
			i++
			if c == nil || t < 0 {
				continue
			}
			cert := &ssh.Certificate{ValidAfter: x.va, ValidBefore: x.vb}
			if t == 0 {
				continue // the zero time means "use the wall clock" for this function
			}
			r.Eval(1)
			got := certutil.ValidateSSHCertTime(cert, time.Unix(t, 0))
			va, vb := clampI(x.va), clampI(x.vb)
			switch {
			case t < va || t > vb:
				if got {
					r.Violation(c, "validity-function-accepts-outside-window", fmt.Sprintf("va=%d vb=%d t=%d", x.va, x.vb, t), nil)
				}
				r.Count("validity function: outside window -> invalid", 1)
			case t > va && t < vb:
				if !got {
					r.Violation(c, "validity-function-rejects-inside-window", fmt.Sprintf("va=%d vb=%d t=%d", x.va, x.vb, t), nil)
				}
				r.Count("validity function: inside window -> valid", 1)
			default:
				r.Count("validity function: boundary second (don't care)", 1)
			}
		}
	}
	r.Eval(1)
	if certutil.ValidateSSHCertTime(nil, time.Now()) {
		r.Violation(r.CaseAlways("boundary", 9999), "validity-function-accepts-nil", "", nil)
	}
}

func clampI(v uint64) int64 {
	if v > math.MaxInt64 {
		return math.MaxInt64
	}
	return int64(v)
}
