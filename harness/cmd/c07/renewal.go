package main

import (
	"bytes"
	"fmt"
	"time"

	"golang.org/x/crypto/ssh"
	"golang.org/x/crypto/ssh/agent"

	"github.com/theparanoids/ysshra/agent/shimagent"
	"github.com/theparanoids/ysshra/verifharness/lib/ev"
	"github.com/theparanoids/ysshra/verifharness/lib/gen"
	"github.com/theparanoids/ysshra/verifharness/lib/wire"
)

// renewal: the state a renewal leaves behind. The underlying agent holds the hardware key K; the shim holds a
// current hardware certificate A over K; B is an older certificate over the same K that is out of its window (or was
// never handed to this shim at all). Whatever ordering of identities the shim was configured with (Option.PubKeyComp
// is the caller's choice), a request to sign with B is a request for an identity the shim does not have: it fails,
// and the current certificate A keeps signing.
func renewal(r *ev.Run) {
	type cmp struct {
		name string
		f    func(a, b ssh.PublicKey) bool
	}
	until := func(k ssh.PublicKey) uint64 {
		if c, ok := k.(*ssh.Certificate); ok {
			return c.ValidBefore
		}
		return 0
	}
	cmps := []cmp{
		{"default", nil},
		{"ascending-bytes", func(a, b ssh.PublicKey) bool { return bytes.Compare(a.Marshal(), b.Marshal()) < 0 }},
		{"descending-bytes", func(a, b ssh.PublicKey) bool { return bytes.Compare(a.Marshal(), b.Marshal()) > 0 }},
		{"valid-longest-first", func(a, b ssh.PublicKey) bool { return until(a) > until(b) }},
		{"valid-shortest-first", func(a, b ssh.PublicKey) bool { return until(a) < until(b) }},
	}
	olds := []string{"expired", "premature", "never-added", "never-added-current-window"}
	idx := 0
	for _, noUp := range []bool{false, true} {
		for _, cm := range cmps {
			for _, old := range olds {
				c := r.Case("renewal", idx)
				idx++
				if c == nil {
					continue
				}
				rec := map[string]any{"no_upstream": noUp, "comparison": cm.name, "older_certificate": old}
				r.Eval(1)
				if _, hung := r.GuardWithin(c, "renewal", rec, ev.CaseBudget(), func() {
					ag := wire.New()
					defer ag.Close()
					sock, err := ag.Listen()
					if err != nil {
						r.Inconclusive(err.Error())
						return
					}
					pool := gen.Pool()
					k := pool[(idx*3)%len(pool)]
					now := uint64(time.Now().Unix())
					kid := func(t string) string {
						return gen.YSSHCAKeyID(gen.KeyIDSpec{HW: true, Touch: 3, TransID: t, Prins: []string{"u"}})
					}
					a := gen.MakeCert(gen.CertSpec{Key: k, KeyID: kid("aaaaaaaaaa"), ValidAfter: now - 600, ValidBefore: now + 7200, Principals: []string{"u"}, Serial: uint64(c.Rand.Int63())})
					spec := gen.CertSpec{Key: k, KeyID: kid("bbbbbbbbbb"), ValidAfter: now - 7200, ValidBefore: now - 600, Principals: []string{"u"}, Serial: uint64(c.Rand.Int63())}
					switch old {
					case "premature":
						spec.ValidAfter, spec.ValidBefore = now+3600, now+7200+3600
					case "never-added-current-window":
						spec.ValidAfter, spec.ValidBefore = now-600, now+3600
					}
					b := gen.MakeCert(spec)
					ag.Keyring.Add(agent.AddedKey{PrivateKey: k.Priv, Comment: "hardware key"})
					s, err := shimagent.New(shimagent.Option{Address: sock, NoUpstream: noUp, PubKeyComp: cm.f})
					if err != nil {
						r.Violation(c, "shim-construction-fails-without-fault", err.Error(), rec)
						return
					}
					defer s.Close()
					if old == "expired" || old == "premature" {
						s.AddHardCert(b, "older") // accepted or refused: either way it must not be usable afterwards
					}
					if err := s.AddHardCert(a, "current"); err != nil {
						r.Violation(c, "hardware-cert-with-held-key-refused", err.Error(), rec)
						return
					}
					l, err := s.List()
					if err != nil {
						r.Violation(c, "list-fails-without-fault", err.Error(), rec)
						return
					}
					for _, x := range l {
						if bytes.Equal(x.Blob, b.Marshal()) {
							r.Violation(c, "out-of-window-or-unknown-cert-listed:renewal", fmt.Sprintf("older certificate (%s) listed", old), rec)
							return
						}
					}
					data := []byte("renewal")
					n0 := ag.NumRequests()
					if sig, err := s.Sign(b, data); err == nil {
						r.Violation(c, "sign-with-cert-the-shim-does-not-hold-succeeds:"+old, fmt.Sprintf("comparison %s: Sign with the older certificate (%s) returned a signature (format %s); the underlying agent received %d requests for it", cm.name, old, sig.Format, ag.NumRequests()-n0), rec)
						return
					}
					sig, err := s.Sign(a, data)
					if err != nil || a.Key.Verify(data, sig) != nil {
						r.Violation(c, "valid-hardware-cert-cannot-sign:renewal", fmt.Sprintf("err=%v", err), rec)
						return
					}
					r.Count("renewal states: older certificate over the same key refused, current one signs", 1)
					r.Nontrivial(fmt.Sprintf("renewal:%v:%s:%s", noUp, cm.name, old))
				}); hung {
					r.Unfinished("renewal")
					return
				}
			}
		}
	}
}
