package main

import (
	"bytes"
	"fmt"
	"time"

	"golang.org/x/crypto/ssh"
	"golang.org/x/crypto/ssh/agent"

	"github.com/theparanoids/ysshra/agent/shimagent"
	"github.com/theparanoids/ysshra/verifharness/lib/ev"
	"github.com/theparanoids/ysshra/verifharness/lib/gen"
	"github.com/theparanoids/ysshra/verifharness/lib/wire"
)

// renewal: the state a renewal leaves behind. The underlying agent holds the hardware key K; the shim holds a
// current hardware certificate A over K; B is an older certificate over the same K that is out of its window (or was
// never handed to this shim at all). Whatever ordering of identities the shim was configured with (Option.PubKeyComp
// is the caller's choice), a request to sign with B is a request for an identity the shim does not have: it fails,
// and the current certificate A keeps signing.
func renewal(r *ev.Run) {
	type cmp struct {
		name string
		f    func(a, b ssh.PublicKey) bool
	}
	until := func(k ssh.PublicKey) uint64 {
		if c, ok := k.(*ssh.Certificate); ok {
			return c.ValidBefore
		}
		return 0
	}
	cmps := []cmp{
		{"default", nil},
		{"ascending-bytes", func(a, b ssh.PublicKey) bool { return bytes.Compare(a.Marshal(), b.Marshal()) < 0 }},
		{"descending-bytes", func(a, b ssh.PublicKey) bool { return bytes.Compare(a.Marshal(), b.Marshal()) > 0 }},
		{"valid-longest-first", func(a, b ssh.PublicKey) bool { return until(a) > until(b) }},
		{"valid-shortest-first", func(a, b ssh.PublicKey) bool { return until(a) < until(b) }},
	}
	olds := []string{"expired", "premature", "never-added", "never-added-current-window"}
	idx := 0
	for _, noUp := range []bool{false, true} {
		for _, cm := range cmps {
			for _, old := range olds {
				c := r.Case("renewal", idx)
				idx++
				if c == nil {
					continue
				}
				rec := map[string]any{"no_upstream": noUp, "comparison": cm.name, "older_certificate": old}
				r.Eval(1)
				if _, hung := r.GuardWithin(c, "renewal", rec, ev.CaseBudget(), func() {
					ag := wire.New()
					defer ag.Close()
					sock, err := ag.Listen()
					if err != nil {
						r.Inconclusive(err.Error())
						return
					}
					pool := gen.Pool()
					k := pool[(idx*3)%len(pool)]
					now := uint64(time.Now().Unix())
					kid := func(t string) string {
						return gen.YSSHCAKeyID(gen.KeyIDSpec{HW: true, Touch: 3, TransID: t, Prins: []string{"u"}})
					}
					a := gen.MakeCert(gen.CertSpec{Key: k, KeyID: kid("aaaaaaaaaa"), ValidAfter: now - 600, ValidBefore: now + 7200, Principals: []string{"u"}, Serial: uint64(c.Rand.Int63())})
					spec := gen.CertSpec{Key: k, KeyID: kid("bbbbbbbbbb"), ValidAfter: now - 7200, ValidBefore: now - 600, Principals: []string{"u"}, Serial: uint64(c.Rand.Int63())}
					switch old {
					case "premature":
						spec.ValidAfter, spec.ValidBefore = now+3600, now+7200+3600
					case "never-added-current-window":
						spec.ValidAfter, spec.ValidBefore = now-600, now+3600
					}
					b := gen.MakeCert(spec)
					ag.Keyring.Add(agent.AddedKey{PrivateKey: k.Priv, Comment: "hardware key"})
					s, err := shimagent.New(shimagent.Option{Address: sock, NoUpstream: noUp, PubKeyComp: cm.f})
					if err != nil {
						r.Violation(c, "shim-construction-fails-without-fault", err.Error(), rec)
						return
					}
					defer s.Close()
					if old == "expired" || old == "premature" {
						s.AddHardCert(b, "older") // accepted or refused: either way it must not be usable afterwards
					}
					if err := s.AddHardCert(a, "current"); err != nil {
						r.Violation(c, "hardware-cert-with-held-key-refused", err.Error(), rec)
						return
					}
					l, err := s.List()
					if err != nil {
						r.Violation(c, "list-fails-without-fault", err.Error(), rec)
						return
					}
					for _, x := range l {
						if bytes.Equal(x.Blob, b.Marshal()) {
							r.Violation(c, "out-of-window-or-unknown-cert-listed:renewal", fmt.Sprintf("older certificate (%s) listed", old), rec)
							return
						}
					}
					data := []byte("renewal")
					n0 := ag.NumRequests()
					if sig, err := s.Sign(b, data); err == nil {
						r.Violation(c, "sign-with-cert-the-shim-does-not-hold-succeeds:"+old, fmt.Sprintf("comparison %s: Sign with the older certificate (%s) returned a signature (format %s); the underlying agent received %d requests for it", cm.name, old, sig.Format, ag.NumRequests()-n0), rec)
						return
					}
					sig, err := s.Sign(a, data)
					if err != nil || a.Key.Verify(data, sig) != nil {
						r.Violation(c, "valid-hardware-cert-cannot-sign:renewal", fmt.Sprintf("err=%v", err), rec)
						return
					}
					r.Count("renewal states: older certificate over the same key refused, current one signs", 1)
					r.Nontrivial(fmt.Sprintf("renewal:%v:%s:%s", noUp, cm.name, old))
				}); hung {
					r.Unfinished("renewal")
					return
				}
			}
		}
	}
}

// severalOrphans: one token carries several hardware certificates over one key (touch, touchless, firefighter). The key
// leaves the underlying agent while other identities stay: from the next listing on none of those certificates is
// listed, offered as a signer or signed with — all of them, not all but one.
func severalOrphans(r *ev.Run) {
	idx := 0
	for _, noUp := range []bool{false, true} {
		for _, n := range []int{2, 3, 5} {
			for _, first := range []string{"list", "signers", "sign"} {
				c := r.Case("several-orphans", idx)
				idx++
				if c == nil {
					continue
				}
				rec := map[string]any{"no_upstream": noUp, "hardware_certificates_on_the_key": n, "first_operation": first}
				r.Eval(1)
				if _, hung := r.GuardWithin(c, "several orphans", rec, ev.CaseBudget(), func() {
					ag := wire.New()
					defer ag.Close()
					sock, err := ag.Listen()
					if err != nil {
						r.Inconclusive(err.Error())
						return
					}
					pool := gen.Pool()
					k, other := pool[(idx*2)%len(pool)], pool[(idx*2+1)%len(pool)]
					ag.Keyring.Add(agent.AddedKey{PrivateKey: k.Priv, Comment: "token key"})
					ag.Keyring.Add(agent.AddedKey{PrivateKey: other.Priv, Comment: "another key"})
					s, err := shimagent.New(shimagent.Option{Address: sock, NoUpstream: noUp})
					if err != nil {
						r.Violation(c, "shim-construction-fails-without-fault", err.Error(), rec)
						return
					}
					defer s.Close()
					now := uint64(time.Now().Unix())
					var certs []*ssh.Certificate
					for i := 0; i < n; i++ {
						spec := gen.KeyIDSpec{HW: true, Touch: []int{3, 1, 3, 2, 1}[i], FF: i == 2, TransID: fmt.Sprintf("orphan%04d", i), Prins: []string{"u"}}
						crt := gen.MakeCert(gen.CertSpec{Key: k, KeyID: gen.YSSHCAKeyID(spec), ValidAfter: now - 600, ValidBefore: now + 7200, Principals: []string{"u"}, Serial: uint64(100 + i)})
						if err := s.AddHardCert(crt, fmt.Sprintf("hw%d", i)); err != nil {
							r.Violation(c, "hardware-cert-with-held-key-refused", err.Error(), rec)
							return
						}
						certs = append(certs, crt)
					}
					if l, err := s.List(); err != nil || len(l) != n+2 {
						r.Violation(c, "valid-hardware-cert-not-listed", fmt.Sprintf("%d identities listed after %d hardware certificates were accepted (err=%v)", len(l), n, err), rec)
						return
					}
					// the token is pulled: its key leaves the underlying agent, the other key stays
					ag.Keyring.Remove(k.Pub)
					switch first {
					case "list":
						s.List()
					case "signers":
						s.Signers()
					default:
						s.Sign(certs[n-1], []byte("x"))
					}
					l, err := s.List()
					if err != nil {
						r.Violation(c, "list-fails-without-fault", err.Error(), rec)
						return
					}
					still := 0
					for _, id := range l {
						for _, crt := range certs {
							if string(id.Blob) == string(crt.Marshal()) {
								still++
							}
						}
					}
					sg, _ := s.Signers()
					offered := 0
					for _, x := range sg {
						for _, crt := range certs {
							if string(x.PublicKey().Marshal()) == string(crt.Marshal()) {
								offered++
							}
						}
					}
					if still > 0 || offered > 0 {
						r.Violation(c, "orphan-hardware-cert-listed:several-on-one-key", fmt.Sprintf("the key of %d hardware certificates left the underlying agent (another key stayed): %d of them are still listed, %d still offered as signers", n, still, offered), rec)
						return
					}
					for _, crt := range certs {
						if _, err := s.Sign(crt, []byte("data")); err == nil {
							r.Violation(c, "sign-with-keyless-hardware-cert-succeeds", "", rec)
							return
						}
					}
					r.Count("keys with several hardware certificates removed: every one of the certificates gone", 1)
					r.Nontrivial(fmt.Sprintf("several-orphans:%v:%d:%s", noUp, n, first))
				}); hung {
					r.Unfinished("several orphans")
					return
				}
			}
		}
	}
}

// retainedKeyObject: a caller keeps what Signers() gave it — the signer of a hardware certificate and the public-key
// object that signer carries — while the certificate lapses and is purged. A sign request naming the retained object gets no signature
// afterwards.
func retainedKeyObject(r *ev.Run) {
	for vi, noUp := range []bool{false, true} {
		c := r.Case("retained-key-object", vi)
		if c == nil {
			continue
		}
		r.Eval(1)
		if _, hung := r.GuardWithin(c, "retained signer of a lapsing hardware certificate", noUp, ev.CaseBudget()+10*time.Second, func() {
			ag := wire.New()
			defer ag.Close()
			sock, err := ag.Listen()
			if err != nil {
				r.Inconclusive(err.Error())
				return
			}
			k := gen.Pool()[vi]
			ag.Keyring.Add(agent.AddedKey{PrivateKey: k.Priv, Comment: "k"})
			s, err := shimagent.New(shimagent.Option{Address: sock, NoUpstream: noUp})
			if err != nil {
				r.Violation(c, "shim-construction-fails-without-fault", err.Error(), noUp)
				return
			}
			defer s.Close()
			start := time.Now()
			lapse := start.Add(2 * time.Second)
			crt := gen.MakeCert(gen.CertSpec{Key: k, KeyID: gen.YSSHCAKeyID(gen.KeyIDSpec{HW: true, Touch: 3, TransID: "retained00", Prins: []string{"u"}}), ValidAfter: uint64(start.Unix()) - 600, ValidBefore: uint64(lapse.Unix()), Principals: []string{"u"}})
			if err := s.AddHardCert(crt, "lapsing"); err != nil {
				r.Violation(c, "hardware-cert-with-held-key-refused", err.Error(), noUp)
				return
			}
			sg, err := s.Signers()
			if err != nil {
				r.Violation(c, "signers-fails-without-fault", err.Error(), noUp)
				return
			}
			var kept ssh.Signer
			for _, x := range sg {
				if string(x.PublicKey().Marshal()) == string(crt.Marshal()) {
					kept = x
				}
			}
			if kept == nil {
				if time.Now().Before(lapse.Add(-300 * time.Millisecond)) {
					r.Violation(c, "valid-hardware-cert-not-listed", "not among the signers right after it was accepted", noUp)
				}
				return
			}
			if d := time.Until(lapse.Add(1300 * time.Millisecond)); d > 0 {
				time.Sleep(d)
			}
			s.List() // runs the purge
			if sig, err := s.Sign(kept.PublicKey(), []byte("data")); err == nil && sig != nil {
				r.Violation(c, "sign-with-out-of-window-cert-succeeds:retained-key-object", "a sign request naming the public-key object that Signers() had handed out for a hardware certificate returned a signature after the certificate had lapsed and been purged", noUp)
				return
			}
			// (the retained signer itself asks the shim for a signature with the plain key, which the underlying agent still
			// holds: that is not a request naming the purged certificate, and is not judged)
			r.Count("retained signers / key objects of lapsed hardware certificates refused", 1)
			r.Nontrivial(fmt.Sprintf("retained-key-object:%v", noUp))
		}); hung {
			r.Unfinished("retained signer of a lapsing hardware certificate")
			return
		}
	}
}
