// C11 — concurrent shim-agent clients cannot corrupt it or get each other's replies.
package main

import (
	"bytes"
	"fmt"
	"github.com/theparanoids/ysshra/verifharness/lib/frames"
	"math/rand"
	"sort"
	"strings"
	"sync"
	"sync/atomic"
	"time"

	"github.com/anishathalye/porcupine"
	"golang.org/x/crypto/ssh"
	"golang.org/x/crypto/ssh/agent"

	"github.com/theparanoids/ysshra/agent/shimagent"
	"github.com/theparanoids/ysshra/agent/yubiagent"
	"github.com/theparanoids/ysshra/verifharness/lib/ev"
	"github.com/theparanoids/ysshra/verifharness/lib/gen"
	sh "github.com/theparanoids/ysshra/verifharness/lib/shimhist"
	"github.com/theparanoids/ysshra/verifharness/lib/wire"
)

// ---- sequential model -------------------------------------------------------

const (
	nKeys = 4 // K0,K1 back hardware certificates H0,H1; K2,K3 are free
	nHard = 2
)

type state struct {
	U      uint8 // plain keys held by the underlying agent (bit i = Ki)
	M      uint8 // accepted hardware certificates (bit i = Hi)
	Locked bool
	Pass   byte
}

type in struct {
	Op   string
	Arg  int  // key / hardware-cert index
	Pass byte // passphrase id
	// Served: the operation goes through a yubiagent client; its Signers() is a
	// client-side List, so a locked agent yields an empty result instead of an error.
	Served bool
}

type out struct {
	Err       bool
	U, M      uint8 // projection of a listing on the tracked identities
	Forbidden bool  // the listing contained an expired / hidden / unknown identity, or a reply did not match the request
	Hung      bool
}

func step(st state, i in, o out) (bool, state) {
	if o.Forbidden {
		return false, st
	}
	switch i.Op {
	case "add", "raw-add": // raw-add: the same add-identity request, relayed as raw bytes
		if st.Locked {
			return o.Err, st
		}
		st.U |= 1 << uint(i.Arg)
		return !o.Err, st
	case "remove": // a free plain key
		if st.Locked {
			return o.Err, st
		}
		if st.U&(1<<uint(i.Arg)) == 0 {
			return o.Err, st
		}
		st.U &^= 1 << uint(i.Arg)
		return !o.Err, st
	case "remove-hard":
		if st.Locked {
			return o.Err, st
		}
		if st.M&(1<<uint(i.Arg)) == 0 {
			return o.Err, st
		}
		st.M &^= 1 << uint(i.Arg)
		return !o.Err, st
	case "remove-all":
		if st.Locked {
			return o.Err, st
		}
		st.U, st.M = 0, 0
		return !o.Err, st
	case "add-hard-cert":
		if st.Locked {
			return o.Err, st
		}
		if st.M&(1<<uint(i.Arg)) != 0 {
			return !o.Err, st
		}
		if st.U&(1<<uint(i.Arg)) == 0 {
			return o.Err, st
		}
		st.M |= 1 << uint(i.Arg)
		return !o.Err, st
	case "list":
		if st.Locked {
			return !o.Err && o.U == 0 && o.M == 0, st
		}
		return !o.Err && o.U == st.U && o.M == st.M, st
	case "signers":
		if st.Locked && i.Served {
			return !o.Err && o.U == 0 && o.M == 0, st
		}
		if st.Locked {
			return o.Err, st
		}
		return !o.Err && o.U == st.U && o.M == st.M, st
	case "sign", "signer-sign":
		if st.Locked {
			return o.Err, st
		}
		return o.Err == (st.U&(1<<uint(i.Arg)) == 0), st
	case "sign-hard":
		if st.Locked {
			return o.Err, st
		}
		return o.Err == (st.M&(1<<uint(i.Arg)) == 0), st
	case "lock":
		if st.Locked {
			return o.Err, st
		}
		st.Locked, st.Pass = true, i.Pass
		return !o.Err, st
	case "unlock":
		if !st.Locked || st.Pass != i.Pass {
			return o.Err, st
		}
		st.Locked = false
		return !o.Err, st
	case "extension", "forward":
		return !o.Err, st
	}
	return false, st
}

func model(init state) porcupine.Model {
	return porcupine.Model{
		Init: func() interface{} { return init },
		Step: func(s, i, o interface{}) (bool, interface{}) {
			ok, ns := step(s.(state), i.(in), o.(out))
			return ok, ns
		},
		DescribeOperation: func(i, o interface{}) string { return fmt.Sprintf("%+v -> %+v", i, o) },
	}
}

// ---- rig ------------------------------------------------------------------------

type material struct {
	keys    [nKeys]*gen.Key
	hard    [nHard]*ssh.Certificate
	blobKey map[string]int
	blobHC  map[string]int
}

func newMaterial(r *rand.Rand) *material {
	m := &material{blobKey: map[string]int{}, blobHC: map[string]int{}}
	pool := gen.Pool()
	perm := r.Perm(len(pool))
	now := uint64(time.Now().Unix())
	for i := 0; i < nKeys; i++ {
		m.keys[i] = pool[perm[i]]
		m.blobKey[string(m.keys[i].Pub.Marshal())] = i
	}
	for i := 0; i < nHard; i++ {
		m.hard[i] = gen.MakeCert(gen.CertSpec{Key: m.keys[i], KeyID: gen.YSSHCAKeyID(gen.KeyIDSpec{HW: true, Touch: 3, TransID: gen.Ident(r, 8), Prins: []string{"u"}}), ValidAfter: now - 3600, ValidBefore: now + 3600, Serial: uint64(r.Int63())})
		m.blobHC[string(m.hard[i].Marshal())] = i
	}
	return m
}

type opRec struct {
	client int
	in     in
	out    out
	call   int64
	ret    int64
	note   string
}

type roundRec struct {
	Round   int      `json:"round"`
	Mode    string   `json:"mode"`
	Clients int      `json:"clients"`
	Init    string   `json:"initial_state"`
	History []string `json:"history"`
}

func pendingOut() out { return out{Hung: true} }

func main() {
	ev.MainIsolated("C11", "exploration", 90*time.Minute, func(r *ev.Run) {
		r.Rule("barrier-started rounds: 2..16 goroutines share one shim (built with shimagent.New in both upstream modes, or reached through real yubiagent.ServeAgent connections and clients), each issues up to 6 operations from {list, signers, sign, sign with hardware cert, add, remove, remove-all, add-hardware-cert, lock, unlock, extension, raw forward, an add-identity request relayed as raw bytes, sign through a hardware-certificate signer handed out by Signers() before the barrier}; between construction and the barrier a feeder puts already-expired certificates and fresh YSSHCA certificates directly into the keyring so that purging and cache fills happen during the concurrent phase; the underlying agent delays replies by 0..2 ms (seeded). Monitors: race detector (reports touching repository code), pipelined requests on the single upstream connection, reply/request tag matching and signature verification, porcupine linearizability of the recorded history against a sequential model (state = tracked plain keys x tracked hardware certificates x lock), completion watchdog. distinct_nontrivial = distinct rounds (by recorded history) in which at least two operations of different clients overlapped in time")
		r.Assume("sampled schedules only", "the concurrent phase never removes a plain key that backs a tracked hardware certificate except through remove-all, and never locks the keyring directly, so the model stays deterministic", "signers for identities of the underlying agent (which talk to it directly by design) are not used concurrently; hardware-certificate signers are")
		gen.Pool()
		var swg sync.WaitGroup
		swg.Add(1)
		go func() { defer swg.Done(); twoShims(r); oversizeForward(r); handedOutSigners(r); slowUpstream(r); stalledPeer(r) }()
		swg.Add(1)
		go func() { defer swg.Done(); parkedWaiter(r); listAfterOwnAdd(r); addVsRemoveAll(r); slowExchange(r) }()
		defer swg.Wait()
		rounds := r.Pick(300, 6000)
		overlap := map[string]int{}
		var omu sync.Mutex
		okN, illegal, unknown := 0, 0, 0
		totalOps := 0
		for i := 0; i < rounds; i++ {
			c := r.Case("round", i)
			if c == nil {
				continue
			}
			mode := []string{"direct/upstream", "direct/no-upstream", "served"}[i%3]
			g := 2 + c.Rand.Intn(15)
			if r.Tier == "quick" && i%2 == 0 {
				g = 8
			}
			res := runRound(r, c, i, mode, g)
			r.Eval(1)
			if res == nil {
				continue
			}
			totalOps += len(res.ops)
			// overlap matrix
			nover := 0
			for a := 0; a < len(res.ops); a++ {
				for b := a + 1; b < len(res.ops); b++ {
					x, y := res.ops[a], res.ops[b]
					if x.client != y.client && x.call < y.ret && y.call < x.ret {
						k := []string{x.in.Op, y.in.Op}
						sort.Strings(k)
						omu.Lock()
						overlap[k[0]+"||"+k[1]]++
						omu.Unlock()
						nover++
					}
				}
			}
			// linearizability
			var pops []porcupine.Operation
			for _, o := range res.ops {
				ret := o.ret
				if o.out.Hung {
					ret = 1 << 62
				}
				pops = append(pops, porcupine.Operation{ClientId: o.client, Input: o.in, Output: o.out, Call: o.call, Return: ret})
			}
			verdict, _ := porcupine.CheckOperationsVerbose(model(res.init), pops, 20*time.Second)
			switch verdict {
			case porcupine.Ok:
				okN++
				if nover > 0 {
					r.Nontrivial(strings.Join(res.rec.History, "\n"))
				}
			case porcupine.Illegal:
				illegal++
				r.Violation(c, "history-not-linearizable:"+mode, fmt.Sprintf("no sequential ordering of the %d recorded operations explains the results (initial state %s)\n%s", len(res.ops), res.rec.Init, strings.Join(res.rec.History, "\n")), res.rec)
			default:
				unknown++
			}
			if i < 2 {
				r.Sample(res.rec)
			}
			if r.NumViolations() > 12 || r.Counter("rounds with an operation that did not complete") >= 3 {
				break
			}
		}
		r.Count("operations recorded", totalOps)
		r.Count("porcupine Ok", okN)
		r.Count("porcupine Illegal", illegal)
		r.Count("porcupine Unknown (timeout)", unknown)
		r.Extra("overlapping_operation_pairs", overlap)
		r.Extra("distinct_overlapping_kind_pairs", len(overlap))
		if rounds > 0 && unknown*20 > rounds {
			r.Inconclusive(fmt.Sprintf("linearizability checker timed out on %d of %d rounds", unknown, rounds))
		}
		r.Floor(int64(r.Pick(200, 4000)), int64(r.Pick(100, 2000)))
	})
}

type roundResult struct {
	ops  []opRec
	init state
	rec  roundRec
}

func runRound(r *ev.Run, c *ev.Case, round int, mode string, g int) *roundResult {
	rng := c.Rand
	mat := newMaterial(rng)
	ag := wire.New()
	defer ag.Close()
	sock, err := ag.Listen()
	if err != nil {
		r.Inconclusive("listen: " + err.Error())
		return nil
	}
	now := uint64(time.Now().Unix())
	init := state{}
	// preload a random subset of the tracked plain keys
	for i := 0; i < nKeys; i++ {
		if rng.Intn(3) > 0 {
			ag.Keyring.Add(agent.AddedKey{PrivateKey: mat.keys[i].Priv, Comment: fmt.Sprintf("k%d", i)})
			init.U |= 1 << uint(i)
		}
	}
	feed := func(n int) (forbidden map[string]string) {
		forbidden = map[string]string{}
		for j := 0; j < n; j++ {
			k := mat.keys[2+rng.Intn(2)]
			switch rng.Intn(3) {
			case 0: // already expired
				ct := gen.MakeCert(gen.CertSpec{Key: k, KeyID: "expired@" + gen.Ident(rng, 4), ValidAfter: now - 7200, ValidBefore: now - 60, Serial: uint64(rng.Int63())})
				ag.Keyring.Add(agent.AddedKey{PrivateKey: k.Priv, Certificate: ct})
				forbidden[string(ct.Marshal())] = "expired certificate"
			case 1: // not yet valid
				ct := gen.MakeCert(gen.CertSpec{Key: k, KeyID: "future@" + gen.Ident(rng, 4), ValidAfter: now + 3600, ValidBefore: now + 7200, Serial: uint64(rng.Int63())})
				ag.Keyring.Add(agent.AddedKey{PrivateKey: k.Priv, Certificate: ct})
				forbidden[string(ct.Marshal())] = "premature certificate"
			default: // fresh YSSHCA certificate: hidden in no-upstream mode, listed otherwise (untracked)
				ct := gen.MakeCert(gen.CertSpec{Key: k, KeyID: gen.YSSHCAKeyID(gen.KeyIDSpec{Touch: 1, TransID: gen.Ident(rng, 8), Prins: []string{"u"}}), ValidAfter: now - 3600, ValidBefore: now + 3600, Serial: uint64(rng.Int63())})
				ag.Keyring.Add(agent.AddedKey{PrivateKey: k.Priv, Certificate: ct})
				if mode == "direct/no-upstream" {
					forbidden[string(ct.Marshal())] = "upstream YSSHCA certificate (no-upstream mode)"
				} else {
					forbidden[string(ct.Marshal())] = "" // allowed, untracked
				}
			}
		}
		return
	}
	forb := feed(rng.Intn(3)) // present at construction
	var shared shimagent.ShimAgent
	var srv yubiagent.YubiAgent
	switch mode {
	case "served":
		srv, err = yubiagent.NewServer(sock, true)
		if err != nil {
			r.Violation(c, "server-construction-fails-without-fault", err.Error(), nil)
			return nil
		}
	default:
		shared, err = shimagent.New(shimagent.Option{Address: sock, NoUpstream: mode == "direct/no-upstream"})
		if err != nil {
			r.Violation(c, "shim-construction-fails-without-fault", err.Error(), nil)
			return nil
		}
	}
	for k, v := range feed(1 + rng.Intn(4)) { // added after construction: purged / cached during the concurrent phase
		forb[k] = v
	}
	// widen windows: seeded reply delays at the underlying agent
	prng := rand.New(rand.NewSource(rng.Int63()))
	var pmu sync.Mutex
	ag.SetPlan(func(int, []byte) wire.Action {
		pmu.Lock()
		d := time.Duration(prng.Intn(2000)) * time.Microsecond
		if prng.Intn(3) == 0 {
			d = 0
		}
		pmu.Unlock()
		return wire.Action{Kind: wire.Honest, Delay: d}
	})
	// per-client handles
	type handle struct {
		a     shimagent.ShimAgent
		close func()
	}
	var hangMu sync.Mutex
	hung := ""
	var group atomic.Bool
	mkGuard := func(inner shimagent.ShimAgent) *sh.Guarded {
		return &sh.Guarded{Inner: inner, Group: &group, OnHang: func(op string) {
			hangMu.Lock()
			hung = op
			hangMu.Unlock()
			ag.Close()
		}}
	}
	handles := make([]handle, g+1)
	for i := range handles {
		if mode == "served" {
			c1, c2, perr := wire.SocketPair()
			if perr != nil {
				r.Inconclusive("socketpair: " + perr.Error())
				return nil
			}
			go yubiagent.ServeAgent(srv, c2)
			cl, cerr := yubiagent.NewClientFromConn(c1)
			if cerr != nil {
				r.Inconclusive("client: " + cerr.Error())
				return nil
			}
			handles[i] = handle{a: mkGuard(cl), close: func() { c1.Close(); c2.Close() }}
		} else {
			handles[i] = handle{a: mkGuard(shared), close: func() {}}
		}
	}
	defer func() {
		for _, h := range handles {
			h.close()
		}
		// a wedged shim cannot be closed either (Close takes the same lock): leave it behind
		if group.Load() {
			return
		}
		if shared != nil {
			shared.Close()
		}
		if srv != nil {
			srv.Close()
		}
	}()
	// a hardware-certificate signer handed out by Signers() before the barrier: using it is a sign through the shim
	var hardSigner ssh.Signer
	if shared != nil && init.U&1 != 0 && rng.Intn(2) == 0 {
		if shared.AddHardCert(mat.hard[0], "hc") == nil {
			init.M |= 1
			if sg, serr := shared.Signers(); serr == nil {
				for _, x := range sg {
					if string(x.PublicKey().Marshal()) == string(mat.hard[0].Marshal()) {
						hardSigner = x
					}
				}
			}
		}
	}
	// pre-generate the operations
	kinds := []struct {
		op string
		w  int
	}{{"list", 10}, {"signers", 8}, {"sign", 8}, {"sign-hard", 6}, {"add", 10}, {"remove", 5}, {"remove-hard", 3}, {"remove-all", 1}, {"add-hard-cert", 10}, {"lock", 1}, {"unlock", 2}, {"extension", 5}, {"forward", 5}, {"signer-sign", 6}, {"raw-add", 4}}
	tw := 0
	for _, k := range kinds {
		tw += k.w
	}
	plans := make([][]in, g)
	for ci := 0; ci < g; ci++ {
		n := 1 + rng.Intn(6)
		for j := 0; j < n; j++ {
			x := rng.Intn(tw)
			var op string
			for _, k := range kinds {
				if x < k.w {
					op = k.op
					break
				}
				x -= k.w
			}
			if op == "signer-sign" && hardSigner == nil {
				op = "forward"
			}
			i := in{Op: op, Served: mode == "served"}
			switch op {
			case "add", "sign", "raw-add":
				i.Arg = rng.Intn(nKeys)
			case "remove":
				i.Arg = 2 + rng.Intn(2)
			case "remove-hard", "add-hard-cert", "sign-hard":
				i.Arg = rng.Intn(nHard)
			case "lock", "unlock":
				i.Pass = byte(rng.Intn(2))
			}
			plans[ci] = append(plans[ci], i)
		}
	}
	// now and then one client walks a path that depends on what the shim remembers of the underlying agent: it lists,
	// relays a raw add-identity for a key the agent does not hold yet, and asks for that key's hardware certificate
	for j := 0; j < nHard; j++ {
		if init.U&(1<<uint(j)) == 0 && rng.Intn(2) == 0 && len(plans) > 0 {
			sv := mode == "served"
			plans[0] = append([]in{{Op: "list", Served: sv}, {Op: "raw-add", Arg: j, Served: sv}, {Op: "add-hard-cert", Arg: j, Served: sv}}, plans[0]...)
			break
		}
	}
	start := time.Now()
	clock := func() int64 { return int64(time.Since(start)) }
	var mu sync.Mutex
	var recs []opRec
	project := func(blobs []string) (o out) {
		for _, b := range blobs {
			if i, ok := mat.blobKey[b]; ok {
				if o.U&(1<<uint(i)) != 0 {
					o.Forbidden = true // duplicated
				}
				o.U |= 1 << uint(i)
			} else if i, ok := mat.blobHC[b]; ok {
				if o.M&(1<<uint(i)) != 0 {
					o.Forbidden = true
				}
				o.M |= 1 << uint(i)
			} else if why, ok := forb[b]; ok {
				if why != "" {
					o.Forbidden = true
				}
			} else {
				o.Forbidden = true // unknown identity
			}
		}
		return
	}
	tagN := 0
	var tagMu sync.Mutex
	do := func(client int, a shimagent.ShimAgent, i in) opRec {
		rec := opRec{client: client, in: i, call: clock(), out: pendingOut()}
		var o out
		switch i.Op {
		case "add":
			o.Err = a.Add(agent.AddedKey{PrivateKey: mat.keys[i.Arg].Priv, Comment: fmt.Sprintf("k%d", i.Arg)}) != nil
		case "raw-add":
			fr := frames.Captured(func(x agent.ExtendedAgent) {
				x.Add(agent.AddedKey{PrivateKey: mat.keys[i.Arg].Priv, Comment: fmt.Sprintf("k%d", i.Arg)})
			})
			resp, ferr := a.Forward(fr[0])
			o.Err = ferr != nil || len(resp) != 1 || resp[0] != 6
		case "remove":
			o.Err = a.Remove(mat.keys[i.Arg].Pub) != nil
		case "remove-hard":
			o.Err = a.Remove(mat.hard[i.Arg]) != nil
		case "remove-all":
			o.Err = a.RemoveAll() != nil
		case "add-hard-cert":
			o.Err = a.AddHardCert(mat.hard[i.Arg], "hc") != nil
		case "list":
			keys, err := a.List()
			var bl []string
			for _, k := range keys {
				bl = append(bl, string(k.Blob))
			}
			o = project(bl)
			o.Err = err != nil
		case "signers":
			sg, err := a.Signers()
			var bl []string
			for _, s := range sg {
				bl = append(bl, string(s.PublicKey().Marshal()))
			}
			o = project(bl)
			o.Err = err != nil
		case "sign", "sign-hard":
			var key ssh.PublicKey = mat.keys[i.Arg].Pub
			if i.Op == "sign-hard" {
				key = mat.hard[i.Arg]
			}
			tagMu.Lock()
			tagN++
			data := []byte(fmt.Sprintf("round%d-client%d-sign%d", round, client, tagN))
			tagMu.Unlock()
			sig, err := a.Sign(key, data)
			o.Err = err != nil
			if err == nil {
				if verr := key.Verify(data, sig); verr != nil {
					o.Forbidden = true
					rec.note = "signature does not verify over the caller's own data (reply of another request?)"
				}
			}
		case "signer-sign":
			// the signer handed out earlier signs with the plain key K0 through the shim
			tagMu.Lock()
			tagN++
			data := []byte(fmt.Sprintf("round%d-client%d-signer%d", round, client, tagN))
			tagMu.Unlock()
			type res struct {
				sig *ssh.Signature
				err error
			}
			ch := make(chan res, 1)
			go func() { s, e := hardSigner.Sign(nil, data); ch <- res{s, e} }()
			select {
			case rr := <-ch:
				o.Err = rr.err != nil
				if rr.err == nil && mat.hard[0].Verify(data, rr.sig) != nil {
					o.Forbidden = true
					rec.note = "signature of the handed-out hardware signer does not verify over the caller's own data"
				}
			case <-time.After(sh.OpTimeout):
				o = pendingOut()
				group.Store(true)
				hangMu.Lock()
				hung = "signer-sign"
				hangMu.Unlock()
				ag.Close()
			}
		case "lock":
			o.Err = a.Lock([]byte{'p', i.Pass}) != nil
		case "unlock":
			o.Err = a.Unlock([]byte{'p', i.Pass}) != nil
		case "extension":
			tagMu.Lock()
			tagN++
			tag := []byte(fmt.Sprintf("Tag-r%d-c%d-%d", round, client, tagN))
			tagMu.Unlock()
			resp, err := a.Extension("echo@verif", tag)
			o.Err = err != nil
			if err == nil && !bytes.Equal(resp, tag) {
				o.Forbidden = true
				rec.note = fmt.Sprintf("extension reply %q does not carry the caller's tag %q", trunc(resp), tag)
			}
		case "forward":
			tagMu.Lock()
			tagN++
			req := append([]byte{200}, []byte(fmt.Sprintf("fwd-r%d-c%d-%d", round, client, tagN))...)
			tagMu.Unlock()
			resp, err := a.Forward(req)
			o.Err = err != nil
			if err == nil && !bytes.Equal(resp, req) {
				o.Forbidden = true
				rec.note = fmt.Sprintf("forward reply %q is not the echo of the caller's request %q", trunc(resp), req)
			}
		}
		if gd, ok := a.(*sh.Guarded); ok && gd.Hung.Load() {
			o = pendingOut()
		}
		rec.out, rec.ret = o, clock()
		return rec
	}
	barrier := make(chan struct{})
	var wg sync.WaitGroup
	for ci := 0; ci < g; ci++ {
		wg.Add(1)
		go func(ci int) {
			defer wg.Done()
			<-barrier
			for _, i := range plans[ci] {
				rec := do(ci, handles[ci].a, i)
				mu.Lock()
				recs = append(recs, rec)
				mu.Unlock()
			}
		}(ci)
	}
	// beside the planned operations: clients that wait for a message code, again and again, and requests with that
	// code arriving (direct modes). Waiting must neither disturb nor be disturbed by the operations above.
	var stopWait atomic.Bool
	var waitsDone atomic.Int64
	var wwg, waiters sync.WaitGroup
	if ds, ok := shared.(*shimagent.Server); ok && rng.Intn(2) == 0 {
		code := byte(rng.Intn(40))
		for w := 1 + rng.Intn(2); w > 0; w-- {
			wwg.Add(1)
			waiters.Add(1)
			go func() {
				defer wwg.Done()
				defer waiters.Done()
				<-barrier
				for !stopWait.Load() && !group.Load() {
					ds.Wait(code)
					waitsDone.Add(1)
				}
			}()
		}
		gone := make(chan struct{})
		go func() { waiters.Wait(); close(gone) }()
		wwg.Add(1)
		go func() {
			defer wwg.Done()
			<-barrier
			// requests with that code keep arriving until the last waiter has left
			for !group.Load() {
				select {
				case <-gone:
					return
				default:
				}
				ds.Broadcast(code)
				time.Sleep(50 * time.Microsecond)
			}
		}()
	}
	close(barrier)
	wg.Wait()
	stopWait.Store(true)
	wdone := make(chan struct{})
	go func() { wwg.Wait(); close(wdone) }()
	select {
	case <-wdone:
		r.Count("waits released during concurrent rounds", int(waitsDone.Load()))
	case <-time.After(sh.OpTimeout):
		hangMu.Lock()
		if hung == "" {
			hung = "wait/broadcast"
		}
		hangMu.Unlock()
		group.Store(true)
	}
	// quiescent phase: unlock if the model could be locked, then a final listing through a fresh handle
	fin := handles[g].a
	for _, p := range []byte{0, 1} {
		rec := do(g, fin, in{Op: "unlock", Pass: p})
		recs = append(recs, rec)
	}
	recs = append(recs, do(g, fin, in{Op: "list"}))
	res := &roundResult{ops: recs, init: init}
	res.rec = roundRec{Round: round, Mode: mode, Clients: g, Init: fmt.Sprintf("%+v", init)}
	sort.Slice(recs, func(a, b int) bool { return recs[a].call < recs[b].call })
	for _, o := range recs {
		res.rec.History = append(res.rec.History, fmt.Sprintf("client%-2d [%8dus..%8dus] %-14s arg=%d pass=%d -> err=%v U=%04b M=%02b forbidden=%v hung=%v %s", o.client, o.call/1000, o.ret/1000, o.in.Op, o.in.Arg, o.in.Pass, o.out.Err, o.out.U, o.out.M, o.out.Forbidden, o.out.Hung, o.note))
	}
	// monitor: completion
	hangMu.Lock()
	h := hung
	hangMu.Unlock()
	if h != "" {
		r.Count("rounds with an operation that did not complete", 1)
		r.Violation(c, "operation-does-not-complete:"+h, fmt.Sprintf("an operation (%s) did not return within %s\n%s", h, sh.OpTimeout, strings.Join(res.rec.History, "\n")), res.rec)
		return res
	}
	// monitor: own replies
	for _, o := range recs {
		if o.note != "" {
			r.Violation(c, "reply-does-not-match-request:"+o.in.Op, o.note+"\n"+strings.Join(res.rec.History, "\n"), res.rec)
		}
	}
	// monitor: mutual exclusion on the upstream connection
	if n := ag.Pipelined(); n > 0 {
		var who []string
		for _, e := range ag.Events() {
			if e.Pipelined {
				who = append(who, fmt.Sprintf("request#%d(code %d)", e.Idx, e.Code))
			}
		}
		r.Violation(c, "upstream-request-pipelined", fmt.Sprintf("%d replies of the underlying agent were written while a further request was already pending on the single upstream connection: %v\n%s", n, who, strings.Join(res.rec.History, "\n")), res.rec)
	}
	r.Count("upstream requests seen", ag.NumRequests())
	// final state versus the keyring read directly
	last := recs[len(recs)-1]
	if !last.out.Err && !last.out.Hung {
		keys, _ := ag.Keyring.List()
		var u uint8
		for _, k := range keys {
			if i, ok := mat.blobKey[string(k.Blob)]; ok {
				u |= 1 << uint(i)
			}
			if why := forb[string(k.Blob)]; why == "expired certificate" || why == "premature certificate" {
				r.Violation(c, "out-of-window-cert-survives-concurrent-listings", why+"\n"+strings.Join(res.rec.History, "\n"), res.rec)
			}
		}
		if u != last.out.U {
			r.Violation(c, "final-listing-differs-from-underlying-agent", fmt.Sprintf("listed %04b, keyring holds %04b\n%s", last.out.U, u, strings.Join(res.rec.History, "\n")), res.rec)
		}
	}
	return res
}

func trunc(b []byte) []byte {
	if len(b) > 48 {
		return b[:48]
	}
	return b
}
