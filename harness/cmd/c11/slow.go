package main

import (
	"bytes"
	"fmt"
	"sync"
	"time"

	"golang.org/x/crypto/ssh"
	"golang.org/x/crypto/ssh/agent"

	"github.com/theparanoids/ysshra/agent/shimagent"
	"github.com/theparanoids/ysshra/agent/yubiagent"
	"github.com/theparanoids/ysshra/verifharness/lib/ev"
	"github.com/theparanoids/ysshra/verifharness/lib/gen"
	"github.com/theparanoids/ysshra/verifharness/lib/wire"
)

// slowUpstream: the underlying agent takes 4.5 s over one relayed request while other clients keep using the shim. The
// exchange stays exclusive for as long as it lasts: no other request reaches the underlying agent before the slow reply
// has been written, the slow caller gets exactly that reply, everybody else gets theirs.
func slowUpstream(r *ev.Run) {
	c := r.Case("slow-upstream", 0)
	if c == nil {
		return
	}
	r.Eval(1)
	r.Guard(c, "slow upstream exchange", nil, func() {
		ag := wire.New()
		defer ag.Close()
		sock, err := ag.Listen()
		if err != nil {
			r.Inconclusive(err.Error())
			return
		}
		ag.Keyring.Add(agent.AddedKey{PrivateKey: gen.Pool()[0].Priv, Comment: "k"})
		s, err := shimagent.New(shimagent.Option{Address: sock})
		if err != nil {
			r.Violation(c, "shim-construction-fails-without-fault", err.Error(), nil)
			return
		}
		slowReq := append([]byte{200}, []byte("slow-request")...)
		ag.SetPlan(func(_ int, req []byte) wire.Action {
			if bytes.Equal(req, slowReq) {
				return wire.Action{Kind: wire.Honest, Delay: 4500 * time.Millisecond}
			}
			return wire.Action{Kind: wire.Honest}
		})
		var wg sync.WaitGroup
		var slowResp []byte
		var slowErr error
		wg.Add(1)
		go func() { defer wg.Done(); slowResp, slowErr = s.Forward(slowReq) }()
		time.Sleep(300 * time.Millisecond)
		type res struct {
			what string
			err  error
			ok   bool
		}
		results := make(chan res, 16)
		for i := 0; i < 4; i++ {
			wg.Add(1)
			go func(i int) {
				defer wg.Done()
				time.Sleep(time.Duration(i) * 1100 * time.Millisecond)
				switch i % 2 {
				case 0:
					l, err := s.List()
					results <- res{"list", err, err == nil && len(l) == 1}
				default:
					tag := append([]byte{200}, []byte(fmt.Sprintf("fast-%d", i))...)
					resp, err := s.Forward(tag)
					results <- res{"forward", err, err == nil && bytes.Contains(resp, tag[1:])}
				}
			}(i)
		}
		done := make(chan struct{})
		go func() { wg.Wait(); close(done) }()
		select {
		case <-done:
		case <-time.After(ev.OpTimeout() + 10*time.Second):
			r.Violation(c, "operation-does-not-complete:slow-upstream", "an operation did not return although the underlying agent answered every request", nil)
			return
		}
		s.Close()
		close(results)
		if n := ag.Pipelined(); n > 0 {
			r.Violation(c, "upstream-request-pipelined:slow-upstream", fmt.Sprintf("%d requests reached the underlying agent while its reply to the slow request was still outstanding", n), nil)
			return
		}
		if slowErr != nil || !bytes.Contains(slowResp, slowReq[1:]) {
			r.Violation(c, "reply-does-not-match-request:forward:slow-upstream", fmt.Sprintf("the slow request's caller got err=%v reply=%q", slowErr, slowResp), nil)
			return
		}
		for x := range results {
			if !x.ok {
				r.Violation(c, "reply-does-not-match-request:"+x.what+":slow-upstream", fmt.Sprintf("err=%v", x.err), nil)
				return
			}
		}
		r.Count("operations queued behind a 4.5 s upstream exchange, all answered with their own replies", 5)
		r.Nontrivial("slow-upstream")
	})
}

// stalledPeer: one connection to a served shim sends a relayed request with a large reply and then stops reading (or
// hangs up at once). What that peer does with its reply is its own business: every other connection is served as usual
// and gets its own replies.
func stalledPeer(r *ev.Run) {
	for ci, mode := range []string{"stops-reading", "hangs-up"} {
		c := r.Case("stalled-peer", ci)
		if c == nil {
			continue
		}
		rec := map[string]any{"first_connection": mode}
		r.Eval(1)
		r.Guard(c, "stalled peer", rec, func() {
			ag := wire.New()
			defer ag.Close()
			sock, err := ag.Listen()
			if err != nil {
				r.Inconclusive(err.Error())
				return
			}
			ag.Keyring.Add(agent.AddedKey{PrivateKey: gen.Pool()[0].Priv, Comment: "k"})
			srv, err := yubiagent.NewServer(sock, true)
			if err != nil {
				r.Violation(c, "server-construction-fails-without-fault", err.Error(), rec)
				return
			}
			a1, a2, err := wire.SocketPair()
			if err != nil {
				r.Inconclusive(err.Error())
				return
			}
			go func() { defer a2.Close(); defer func() { recover() }(); yubiagent.ServeAgent(srv, a2) }()
			big := append([]byte{200}, bytes.Repeat([]byte("stalled-peer-payload "), 100000)...) // echoed: a reply of ~2 MiB
			go a1.Write(wire.Frame(big))
			if mode == "hangs-up" {
				time.Sleep(2 * time.Millisecond)
				a1.Close()
			} else {
				defer a1.Close()
			}
			time.Sleep(50 * time.Millisecond)
			b1, b2, err := wire.SocketPair()
			if err != nil {
				r.Inconclusive(err.Error())
				return
			}
			defer b1.Close()
			go func() { defer b2.Close(); defer func() { recover() }(); yubiagent.ServeAgent(srv, b2) }()
			cl, err := yubiagent.NewClientFromConn(b1)
			if err != nil {
				r.Violation(c, "client-construction-fails", err.Error(), rec)
				return
			}
			type res struct {
				what string
				ok   bool
				err  error
			}
			done := make(chan res, 4)
			go func() {
				l, err := cl.List()
				done <- res{"list", err == nil && len(l) == 1, err}
				tag := append([]byte{200}, []byte("second-connection")...)
				resp, err := cl.Forward(tag)
				done <- res{"forward", err == nil && bytes.Equal(resp, tag), err}
				l, err = cl.List()
				done <- res{"list", err == nil && len(l) == 1, err}
			}()
			for i := 0; i < 3; i++ {
				select {
				case x := <-done:
					if !x.ok {
						r.Violation(c, "reply-does-not-match-request:"+x.what+":stalled-peer:"+mode, fmt.Sprintf("the second connection's %s: err=%v", x.what, x.err), rec)
						return
					}
				case <-time.After(ev.OpTimeout()):
					r.Violation(c, "operation-does-not-complete:stalled-peer:"+mode, "an operation on the second connection did not return while the first connection was not reading its reply", rec)
					return
				}
			}
			r.Count("operations on a second connection while the first one "+mode, 3)
			r.Nontrivial("stalled-peer:" + mode)
		})
	}
}

// twoShims: several shim agents live in one process (one per forwarded connection), each over an underlying agent of
// its own, and are used at the same time. Whatever one of them relays reaches its own underlying agent, byte for byte,
// and nobody else's; every caller gets the reply to its own request.
func twoShims(r *ev.Run) {
	c := r.Case("shims-side-by-side", 0)
	if c == nil {
		return
	}
	r.Eval(1)
	r.Guard(c, "several shims in one process", nil, func() {
		const nShims, perShim, each = 3, 3, 250
		type rig struct {
			ag *wire.Agent
			s  shimagent.ShimAgent
		}
		var rigs []*rig
		for i := 0; i < nShims; i++ {
			ag := wire.New()
			ag.KeepReq = true
			defer ag.Close()
			sock, err := ag.Listen()
			if err != nil {
				r.Inconclusive(err.Error())
				return
			}
			s, err := shimagent.New(shimagent.Option{Address: sock, NoUpstream: i%2 == 1})
			if err != nil {
				r.Violation(c, "shim-construction-fails-without-fault", err.Error(), nil)
				return
			}
			rigs = append(rigs, &rig{ag, s})
		}
		var wg sync.WaitGroup
		var mu sync.Mutex
		var bad []string
		start := make(chan struct{})
		for si, g := range rigs {
			for w := 0; w < perShim; w++ {
				wg.Add(1)
				go func(si, w int, g *rig) {
					defer wg.Done()
					<-start
					for k := 0; k < each; k++ {
						tag := []byte(fmt.Sprintf("shim%d-worker%d-req%04d|", si, w, k))
						req := append([]byte{200}, bytes.Repeat(tag, 1+(k*7+w)%40)...)
						resp, err := g.s.Forward(req)
						if err != nil || !bytes.Contains(resp, tag) {
							mu.Lock()
							bad = append(bad, fmt.Sprintf("shim %d worker %d request %d: err=%v, reply of %d bytes does not carry the request's tag", si, w, k, err, len(resp)))
							mu.Unlock()
							return
						}
					}
				}(si, w, g)
			}
		}
		close(start)
		done := make(chan struct{})
		go func() { wg.Wait(); close(done) }()
		select {
		case <-done:
		case <-time.After(ev.OpTimeout() + 30*time.Second):
			r.Violation(c, "operation-does-not-complete:shims-side-by-side", "forwards on several shims did not all return", nil)
			return
		}
		if len(bad) > 0 {
			r.Violation(c, "wrong-reply:shims-side-by-side", bad[0], bad)
			return
		}
		total := 0
		for si, g := range rigs {
			own := []byte(fmt.Sprintf("shim%d-", si))
			for _, e := range g.ag.Events() {
				if e.Code != 200 {
					continue
				}
				total++
				tagEnd := bytes.IndexByte(e.Req, '|')
				if !bytes.HasPrefix(e.Req[1:], own) || tagEnd < 0 || len(e.Req[1:])%(tagEnd) != 0 || !bytes.Equal(e.Req[1:], bytes.Repeat(e.Req[1:tagEnd+1], len(e.Req[1:])/tagEnd)) {
					r.Violation(c, "request-reaches-another-shims-agent-or-is-altered", fmt.Sprintf("the underlying agent of shim %d received a relayed request of %d bytes starting %q", si, len(e.Req), trunc(e.Req[1:])), nil)
					return
				}
			}
		}
		if total != nShims*perShim*each {
			r.Violation(c, "relayed-request-count:shims-side-by-side", fmt.Sprintf("%d requests sent, %d received", nShims*perShim*each, total), nil)
			return
		}
		r.Count("requests relayed by three shims side by side, each reaching its own agent unaltered", total)
		r.Nontrivial("shims-side-by-side")
	})
}

// oversizeForward: one client hands the shim a raw request beyond the 16 MiB frame limit while others use it. The
// over-long request is refused (or relayed whole); either way everybody else's operations complete with their own
// replies, during and after it.
func oversizeForward(r *ev.Run) {
	c := r.Case("oversize-forward", 0)
	if c == nil {
		return
	}
	r.Eval(1)
	r.Guard(c, "over-long raw request beside other clients", nil, func() {
		ag := wire.New()
		defer ag.Close()
		sock, err := ag.Listen()
		if err != nil {
			r.Inconclusive(err.Error())
			return
		}
		ag.Keyring.Add(agent.AddedKey{PrivateKey: gen.Pool()[0].Priv, Comment: "k"})
		s, err := shimagent.New(shimagent.Option{Address: sock})
		if err != nil {
			r.Violation(c, "shim-construction-fails-without-fault", err.Error(), nil)
			return
		}
		var wg sync.WaitGroup
		var mu sync.Mutex
		var bad []string
		note := func(s string) { mu.Lock(); bad = append(bad, s); mu.Unlock() }
		for _, size := range []int{16<<20 + 1, 16<<20 + 4096, 17 << 20} {
			size := size
			wg.Add(1)
			go func() {
				defer wg.Done()
				big := make([]byte, size)
				big[0] = 200
				resp, err := s.Forward(big)
				if err == nil && !bytes.Equal(resp, big) {
					note(fmt.Sprintf("a raw request of %d bytes was accepted and answered with %d other bytes", size, len(resp)))
				}
			}()
			for i := 0; i < 3; i++ {
				wg.Add(1)
				go func(i int) {
					defer wg.Done()
					for k := 0; k < 6; k++ {
						if (i+k)%2 == 0 {
							if l, err := s.List(); err != nil || len(l) != 1 {
								note(fmt.Sprintf("listing beside an over-long raw request: %d identities, err=%v", len(l), err))
								return
							}
						} else {
							tag := append([]byte{200}, []byte(fmt.Sprintf("beside-%d-%d-%d", size, i, k))...)
							if resp, err := s.Forward(tag); err != nil || !bytes.Equal(resp, tag) {
								note(fmt.Sprintf("relayed request beside an over-long one: err=%v, reply %q", err, trunc(resp)))
								return
							}
						}
					}
				}(i)
			}
			done := make(chan struct{})
			go func() { wg.Wait(); close(done) }()
			select {
			case <-done:
			case <-time.After(ev.OpTimeout() + 20*time.Second):
				r.Violation(c, "operation-does-not-complete:beside-oversize-forward", fmt.Sprintf("after a raw request of %d bytes was handed to Forward, operations of other clients did not return", size), nil)
				ag.Close()
				return
			}
			if len(bad) > 0 {
				r.Violation(c, "wrong-reply:beside-oversize-forward", bad[0], bad)
				return
			}
		}
		r.Count("over-long raw requests handed to the shim beside other clients", 3)
		r.Nontrivial("oversize-forward")
	})
}

// handedOutSigners: signers returned by Signers() outlive the call and are used later, while other clients go on using
// the shim. A signature through such a signer is one more exchange on the single connection to the underlying agent:
// it is exclusive like any other (no request reaches the underlying agent while another one is pending), it yields a
// signature that verifies, and everybody else gets their own replies.
func handedOutSigners(r *ev.Run) {
	c := r.Case("handed-out-signers", 0)
	if c == nil {
		return
	}
	r.Eval(1)
	r.Guard(c, "signers used beside other clients", nil, func() {
		ag := wire.New()
		defer ag.Close()
		sock, err := ag.Listen()
		if err != nil {
			r.Inconclusive(err.Error())
			return
		}
		pool := gen.Pool()
		ag.Keyring.Add(agent.AddedKey{PrivateKey: pool[0].Priv, Comment: "k0"})
		ag.Keyring.Add(agent.AddedKey{PrivateKey: pool[9].Priv, Comment: "k9"})
		s, err := shimagent.New(shimagent.Option{Address: sock})
		if err != nil {
			r.Violation(c, "shim-construction-fails-without-fault", err.Error(), nil)
			return
		}
		signers, err := s.Signers()
		if err != nil || len(signers) != 2 {
			r.Violation(c, "signers-fails-without-fault", fmt.Sprintf("%d signers, err=%v", len(signers), err), nil)
			return
		}
		// sign requests take a while (a key that waits for a touch)
		ag.SetPlan(func(_ int, req []byte) wire.Action {
			if len(req) > 0 && req[0] == 13 {
				return wire.Action{Kind: wire.Honest, Delay: 250 * time.Millisecond, Fragment: true}
			}
			return wire.Action{Kind: wire.Honest}
		})
		p0 := ag.Pipelined()
		var wg sync.WaitGroup
		var mu sync.Mutex
		var bad []string
		note := func(s string) { mu.Lock(); bad = append(bad, s); mu.Unlock() }
		for si, sg := range signers {
			wg.Add(1)
			go func(si int, sg ssh.Signer) {
				defer wg.Done()
				for k := 0; k < 4; k++ {
					data := []byte(fmt.Sprintf("signer-%d-%d", si, k))
					sig, err := sg.Sign(nil, data)
					if as, ok := sg.(ssh.AlgorithmSigner); ok && k%2 == 1 {
						// the way an SSH client signs: naming the key's algorithm
						sig, err = as.SignWithAlgorithm(nil, data, sg.PublicKey().Type())
					}
					if err != nil || sg.PublicKey().Verify(data, sig) != nil {
						note(fmt.Sprintf("signature through a handed-out signer: err=%v", err))
						return
					}
				}
			}(si, sg)
		}
		for w := 0; w < 3; w++ {
			wg.Add(1)
			go func(w int) {
				defer wg.Done()
				for k := 0; k < 12; k++ {
					time.Sleep(40 * time.Millisecond)
					if (w+k)%2 == 0 {
						if l, err := s.List(); err != nil || len(l) != 2 {
							note(fmt.Sprintf("listing beside a pending signature: %d identities, err=%v", len(l), err))
							return
						}
					} else {
						tag := append([]byte{200}, []byte(fmt.Sprintf("beside-signer-%d-%d", w, k))...)
						if resp, err := s.Forward(tag); err != nil || !bytes.Equal(resp, tag) {
							note(fmt.Sprintf("relayed request beside a pending signature: err=%v, reply %q", err, trunc(resp)))
							return
						}
					}
				}
			}(w)
		}
		done := make(chan struct{})
		go func() { wg.Wait(); close(done) }()
		select {
		case <-done:
		case <-time.After(ev.OpTimeout() + 20*time.Second):
			r.Violation(c, "operation-does-not-complete:handed-out-signers", "signatures through handed-out signers beside other clients did not all return", nil)
			return
		}
		if len(bad) > 0 {
			r.Violation(c, "wrong-reply:handed-out-signers", fmt.Sprintf("%s (%d requests reached the underlying agent while another exchange was pending)", bad[0], ag.Pipelined()-p0), bad)
			return
		}
		if n := ag.Pipelined() - p0; n > 0 {
			r.Violation(c, "upstream-request-pipelined:handed-out-signers", fmt.Sprintf("%d requests reached the underlying agent while another exchange was pending on the same connection", n), nil)
			return
		}
		r.Count("signatures through handed-out signers beside other clients (exchanges exclusive)", 8)
		r.Nontrivial("handed-out-signers")
	})
}

// addVsRemoveAll: a hardware certificate is being added (its KeyID is large, so labelling it takes a while, and the
// underlying agent answers the binding listing slowly) while another client removes everything. Whichever of the two
// the shim puts first, the outcome is that of the two run one after the other: add then remove-all leaves nothing;
// remove-all then add finds no key and refuses. A shim that afterwards lists the certificate has interleaved them.
func addVsRemoveAll(r *ev.Run) {
	for vi, second := range []string{"remove-all", "remove-key", "remove-all"} {
		c := r.Case("add-hard-cert-vs-"+second, vi)
		if c == nil {
			continue
		}
		r.Eval(1)
		r.Guard(c, "add-hard-cert beside "+second, nil, func() {
			ag := wire.New()
			defer ag.Close()
			sock, err := ag.Listen()
			if err != nil {
				r.Inconclusive(err.Error())
				return
			}
			k := gen.Pool()[vi*3%len(gen.Pool())]
			ag.Keyring.Add(agent.AddedKey{PrivateKey: k.Priv, Comment: "k"})
			// a second key, so that the underlying agent's list is not empty once k is gone (an empty list drops nothing)
			ag.Keyring.Add(agent.AddedKey{PrivateKey: gen.Pool()[(vi*3+1)%len(gen.Pool())].Priv, Comment: "k2"})
			s, err := shimagent.New(shimagent.Option{Address: sock, NoUpstream: vi == 2})
			if err != nil {
				r.Violation(c, "shim-construction-fails-without-fault", err.Error(), nil)
				return
			}
			var prins []string
			for i := 0; i < 60000; i++ {
				prins = append(prins, fmt.Sprintf("host-%05d.example.com", i))
			}
			now := uint64(time.Now().Unix())
			cert := gen.MakeCert(gen.CertSpec{Key: k, KeyID: gen.YSSHCAKeyID(gen.KeyIDSpec{HW: true, Touch: 3, TransID: "bigkeyid01", Prins: prins}), ValidAfter: now - 60, ValidBefore: now + 3600, Principals: []string{"u"}})
			n0 := ag.NumRequests()
			ag.SetPlan(func(idx int, req []byte) wire.Action {
				if idx == n0 && len(req) > 0 && req[0] == 11 {
					return wire.Action{Kind: wire.Honest, Delay: 60 * time.Millisecond}
				}
				return wire.Action{Kind: wire.Honest}
			})
			var addErr, remErr error
			var wg sync.WaitGroup
			wg.Add(2)
			go func() { defer wg.Done(); addErr = s.AddHardCert(cert, "big") }()
			go func() {
				defer wg.Done()
				deadline := time.Now().Add(ev.OpTimeout())
				for ag.NumRequests() == n0 && time.Now().Before(deadline) {
					time.Sleep(100 * time.Microsecond)
				}
				if second == "remove-key" {
					remErr = s.Remove(k.Pub)
				} else {
					remErr = s.RemoveAll()
				}
			}()
			done := make(chan struct{})
			go func() { wg.Wait(); close(done) }()
			select {
			case <-done:
			case <-time.After(ev.OpTimeout() + 20*time.Second):
				r.Violation(c, "operation-does-not-complete:add-hard-cert-vs-"+second, "", nil)
				return
			}
			if remErr != nil {
				r.Count("add-hard-cert beside "+second+": the removal failed (not judged)", 1)
				return
			}
			l, lerr := s.List()
			if lerr != nil {
				r.Violation(c, "list-fails-without-fault", lerr.Error(), nil)
				return
			}
			for _, x := range l {
				if bytes.Equal(x.Blob, cert.Marshal()) {
					r.Violation(c, "history-not-linearizable:add-hard-cert/"+second, fmt.Sprintf("AddHardCert (err=%v) ran beside %s (err=%v): afterwards the shim lists the hardware certificate although the underlying agent no longer holds its key — neither order of the two operations ends like this", addErr, second, remErr), nil)
					return
				}
			}
			r.Count("add-hard-cert beside remove-all/remove: outcome equals one of the two orders", 1)
			r.Nontrivial("add-vs-" + second + fmt.Sprint(vi))
		})
	}
}

// slowExchange: one client's signature takes seven seconds in the underlying agent (a key waiting for a touch); a relayed
// request and a listing of other clients queue behind it early on. Everybody gets their own reply: the long exchange
// is not cut short by the ones waiting for the connection, and the connection is as usable afterwards — also after
// it then stayed idle for several seconds — as before.
func slowExchange(r *ev.Run) {
	c := r.Case("slow-exchange", 0)
	if c == nil {
		return
	}
	r.Eval(1)
	r.Guard(c, "seven-second exchange with early queuers", nil, func() {
		ag := wire.New()
		defer ag.Close()
		sock, err := ag.Listen()
		if err != nil {
			r.Inconclusive(err.Error())
			return
		}
		k := gen.Pool()[0]
		ag.Keyring.Add(agent.AddedKey{PrivateKey: k.Priv, Comment: "k"})
		s, err := shimagent.New(shimagent.Option{Address: sock})
		if err != nil {
			r.Violation(c, "shim-construction-fails-without-fault", err.Error(), nil)
			return
		}
		// the shim also holds a hardware certificate that lapses two seconds into the long exchange: whatever the shim
		// does about that, it does when it is its turn on the connection
		nowS := uint64(time.Now().Unix())
		lapsing := gen.MakeCert(gen.CertSpec{Key: k, KeyID: gen.YSSHCAKeyID(gen.KeyIDSpec{HW: true, Touch: 3, TransID: "lapsing000", Prins: []string{"u"}}), ValidAfter: nowS - 600, ValidBefore: nowS + 2, Principals: []string{"u"}})
		if err := s.AddHardCert(lapsing, "lapsing"); err != nil {
			r.Violation(c, "hardware-cert-with-held-key-refused", err.Error(), nil)
			return
		}
		ag.SetPlan(func(_ int, req []byte) wire.Action {
			if len(req) > 0 && req[0] == 13 {
				return wire.Action{Kind: wire.Honest, Delay: 7 * time.Second}
			}
			return wire.Action{Kind: wire.Honest}
		})
		p0 := ag.Pipelined()
		var wg sync.WaitGroup
		var mu sync.Mutex
		var bad []string
		note := func(s string) { mu.Lock(); bad = append(bad, s); mu.Unlock() }
		data := []byte("slow signature")
		wg.Add(3)
		go func() {
			defer wg.Done()
			sig, err := s.Sign(k.Pub, data)
			if err != nil || k.Pub.Verify(data, sig) != nil {
				note(fmt.Sprintf("the seven-second signature: err=%v", err))
			}
		}()
		go func() {
			defer wg.Done()
			time.Sleep(300 * time.Millisecond)
			tag := append([]byte{200}, []byte("queued-behind-the-slow-signature")...)
			if resp, err := s.Forward(tag); err != nil || !bytes.Equal(resp, tag) {
				note(fmt.Sprintf("relayed request queued behind the slow signature: err=%v reply=%q", err, trunc(resp)))
			}
		}()
		go func() {
			defer wg.Done()
			time.Sleep(600 * time.Millisecond)
			if l, err := s.List(); err != nil || len(l) != 1 {
				note(fmt.Sprintf("listing queued behind the slow signature: %d identities, err=%v", len(l), err))
			}
		}()
		done := make(chan struct{})
		go func() { wg.Wait(); close(done) }()
		select {
		case <-done:
		case <-time.After(ev.OpTimeout() + 30*time.Second):
			r.Violation(c, "operation-does-not-complete:slow-exchange", "", nil)
			return
		}
		if len(bad) == 0 {
			// the connection then stays idle for a while: nothing that was armed for an earlier exchange may fire now
			time.Sleep(5500 * time.Millisecond)
			if l, err := s.List(); err != nil || len(l) != 1 {
				note(fmt.Sprintf("listing after 5.5 idle seconds: %d identities, err=%v", len(l), err))
			}
			tag := append([]byte{200}, []byte("after-the-idle-period")...)
			if resp, err := s.Forward(tag); err != nil || !bytes.Equal(resp, tag) {
				note(fmt.Sprintf("relayed request after the idle period: err=%v reply=%q", err, trunc(resp)))
			}
		}
		if len(bad) > 0 {
			r.Violation(c, "wrong-reply:slow-exchange", bad[0], bad)
			return
		}
		if n := ag.Pipelined() - p0; n > 0 {
			r.Violation(c, "upstream-request-pipelined:slow-exchange", fmt.Sprintf("%d requests reached the underlying agent while the seven-second exchange was pending (a hardware certificate lapsed during it)", n), nil)
			return
		}
		r.Count("seven-second exchange with early queuers, then an idle period: every reply right", 1)
		r.Nontrivial("slow-exchange")
	})
}

// parkedWaiter: one client is parked waiting for a message code that nobody sends. Everybody else's operations complete
// all the same; the waiter is released by a request with its code afterwards.
func parkedWaiter(r *ev.Run) {
	c := r.Case("parked-waiter", 0)
	if c == nil {
		return
	}
	r.Eval(1)
	r.Guard(c, "operations beside a parked waiter", nil, func() {
		ag := wire.New()
		defer ag.Close()
		sock, err := ag.Listen()
		if err != nil {
			r.Inconclusive(err.Error())
			return
		}
		k := gen.Pool()[0]
		ag.Keyring.Add(agent.AddedKey{PrivateKey: k.Priv, Comment: "k"})
		sa, err := shimagent.New(shimagent.Option{Address: sock})
		if err != nil {
			r.Violation(c, "shim-construction-fails-without-fault", err.Error(), nil)
			return
		}
		s, ok := sa.(*shimagent.Server)
		if !ok {
			r.Inconclusive("shimagent.New did not return *shimagent.Server")
			return
		}
		released := make(chan error, 1)
		go func() { released <- s.Wait(31) }()
		time.Sleep(100 * time.Millisecond)
		done := make(chan string, 1)
		go func() {
			if l, err := s.List(); err != nil || len(l) != 1 {
				done <- fmt.Sprintf("list: %d identities, err=%v", len(l), err)
				return
			}
			data := []byte("beside a parked waiter")
			if sig, err := s.Sign(k.Pub, data); err != nil || k.Pub.Verify(data, sig) != nil {
				done <- fmt.Sprintf("sign: err=%v", err)
				return
			}
			tag := append([]byte{200}, []byte("beside-a-parked-waiter")...)
			if resp, err := s.Forward(tag); err != nil || !bytes.Equal(resp, tag) {
				done <- fmt.Sprintf("forward: err=%v", err)
				return
			}
			if err := s.Lock([]byte("p")); err != nil {
				done <- "lock: " + err.Error()
				return
			}
			if err := s.Unlock([]byte("p")); err != nil {
				done <- "unlock: " + err.Error()
				return
			}
			done <- ""
		}()
		select {
		case msg := <-done:
			if msg != "" {
				r.Violation(c, "wrong-reply:parked-waiter", msg, nil)
				return
			}
		case e := <-released:
			r.Violation(c, "waiter-returns-without-matching-request:parked-waiter", fmt.Sprint(e), nil)
			return
		case <-time.After(ev.OpTimeout()):
			r.Violation(c, "operation-does-not-complete:beside-a-parked-waiter", "list / sign / forward / lock / unlock on a shim with one client parked in Wait(31) did not all return; goroutines inside the repository:\n"+ev.RepoStacks(2000), nil)
			s.Broadcast(31)
			return
		}
		s.Broadcast(31)
		select {
		case <-released:
		case <-time.After(ev.OpTimeout()):
			r.Violation(c, "operation-does-not-complete:wait/broadcast", "the parked waiter was not released by a request with its code", nil)
			return
		}
		r.Count("operations completed beside a parked waiter, which was then released", 5)
		r.Nontrivial("parked-waiter")
	})
}

// listAfterOwnAdd: the caller's ordering function is slow (it is the caller's code), so a listing takes a while.
// While one client's listing is under way another client adds a key, gets the acknowledgement, and lists: its listing
// was requested after its add was acknowledged, so it contains the key — whoever else was listing at that moment.
func listAfterOwnAdd(r *ev.Run) {
	c := r.Case("list-after-own-add", 0)
	if c == nil {
		return
	}
	r.Eval(1)
	r.Guard(c, "listing after an acknowledged add, beside a slow listing", nil, func() {
		ag := wire.New()
		defer ag.Close()
		sock, err := ag.Listen()
		if err != nil {
			r.Inconclusive(err.Error())
			return
		}
		pool := gen.Pool()
		for i := 0; i < 6; i++ {
			ag.Keyring.Add(agent.AddedKey{PrivateKey: pool[i].Priv, Comment: fmt.Sprintf("k%d", i)})
		}
		slow := func(a, b ssh.PublicKey) bool {
			time.Sleep(2 * time.Millisecond)
			return bytes.Compare(a.Marshal(), b.Marshal()) < 0
		}
		s, err := shimagent.New(shimagent.Option{Address: sock, PubKeyComp: slow})
		if err != nil {
			r.Violation(c, "shim-construction-fails-without-fault", err.Error(), nil)
			return
		}
		for round := 0; round < 8; round++ {
			k := pool[8+round%4]
			s.Remove(k.Pub)
			n0 := ag.NumRequests()
			bDone := make(chan struct{})
			go func() { defer close(bDone); s.List() }()
			// wait until the other client's listing has got its reply from the underlying agent (it is sorting now)
			deadline := time.Now().Add(ev.OpTimeout())
			for ag.NumRequests() == n0 && time.Now().Before(deadline) {
				time.Sleep(100 * time.Microsecond)
			}
			time.Sleep(3 * time.Millisecond)
			if err := s.Add(agent.AddedKey{PrivateKey: k.Priv, Comment: "just added"}); err != nil {
				r.Violation(c, "add-fails-without-fault", err.Error(), nil)
				return
			}
			l, err := s.List()
			<-bDone
			if err != nil {
				r.Violation(c, "list-fails-without-fault", err.Error(), nil)
				return
			}
			found := false
			for _, id := range l {
				if bytes.Equal(id.Blob, k.Pub.Marshal()) {
					found = true
				}
			}
			if !found {
				r.Violation(c, "history-not-linearizable:list-after-own-add", fmt.Sprintf("round %d: a client's Add was acknowledged, its List (requested afterwards) returned %d identities without the key it had added; another client's listing was under way", round, len(l)), nil)
				return
			}
		}
		r.Count("listings requested after an acknowledged add, beside another client's slow listing: contain the key", 8)
		r.Nontrivial("list-after-own-add")
	})
}
