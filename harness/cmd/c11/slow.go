package main

import (
	"bytes"
	"fmt"
	"sync"
	"time"

	"golang.org/x/crypto/ssh/agent"

	"github.com/theparanoids/ysshra/agent/shimagent"
	"github.com/theparanoids/ysshra/agent/yubiagent"
	"github.com/theparanoids/ysshra/verifharness/lib/ev"
	"github.com/theparanoids/ysshra/verifharness/lib/gen"
	"github.com/theparanoids/ysshra/verifharness/lib/wire"
)

// slowUpstream: the underlying agent takes 4.5 s over one relayed request while other clients keep using the shim. The
// exchange stays exclusive for as long as it lasts: no other request reaches the underlying agent before the slow reply
// has been written, the slow caller gets exactly that reply, everybody else gets theirs.
func slowUpstream(r *ev.Run) {
	c := r.Case("slow-upstream", 0)
	if c == nil {
		return
	}
	r.Eval(1)
	r.Guard(c, "slow upstream exchange", nil, func() {
		ag := wire.New()
		defer ag.Close()
		sock, err := ag.Listen()
		if err != nil {
			r.Inconclusive(err.Error())
			return
		}
		ag.Keyring.Add(agent.AddedKey{PrivateKey: gen.Pool()[0].Priv, Comment: "k"})
		s, err := shimagent.New(shimagent.Option{Address: sock})
		if err != nil {
			r.Violation(c, "shim-construction-fails-without-fault", err.Error(), nil)
			return
		}
		slowReq := append([]byte{200}, []byte("slow-request")...)
		ag.SetPlan(func(_ int, req []byte) wire.Action {
			if bytes.Equal(req, slowReq) {
				return wire.Action{Kind: wire.Honest, Delay: 4500 * time.Millisecond}
			}
			return wire.Action{Kind: wire.Honest}
		})
		var wg sync.WaitGroup
		var slowResp []byte
		var slowErr error
		wg.Add(1)
		go func() { defer wg.Done(); slowResp, slowErr = s.Forward(slowReq) }()
		time.Sleep(300 * time.Millisecond)
		type res struct {
			what string
			err  error
			ok   bool
		}
		results := make(chan res, 16)
		for i := 0; i < 4; i++ {
			wg.Add(1)
			go func(i int) {
				defer wg.Done()
				time.Sleep(time.Duration(i) * 1100 * time.Millisecond)
				switch i % 2 {
				case 0:
					l, err := s.List()
					results <- res{"list", err, err == nil && len(l) == 1}
				default:
					tag := append([]byte{200}, []byte(fmt.Sprintf("fast-%d", i))...)
					resp, err := s.Forward(tag)
					results <- res{"forward", err, err == nil && bytes.Contains(resp, tag[1:])}
				}
			}(i)
		}
		done := make(chan struct{})
		go func() { wg.Wait(); close(done) }()
		select {
		case <-done:
		case <-time.After(ev.OpTimeout() + 10*time.Second):
			r.Violation(c, "operation-does-not-complete:slow-upstream", "an operation did not return although the underlying agent answered every request", nil)
			return
		}
		s.Close()
		close(results)
		if n := ag.Pipelined(); n > 0 {
			r.Violation(c, "upstream-request-pipelined:slow-upstream", fmt.Sprintf("%d requests reached the underlying agent while its reply to the slow request was still outstanding", n), nil)
			return
		}
		if slowErr != nil || !bytes.Contains(slowResp, slowReq[1:]) {
			r.Violation(c, "reply-does-not-match-request:forward:slow-upstream", fmt.Sprintf("the slow request's caller got err=%v reply=%q", slowErr, slowResp), nil)
			return
		}
		for x := range results {
			if !x.ok {
				r.Violation(c, "reply-does-not-match-request:"+x.what+":slow-upstream", fmt.Sprintf("err=%v", x.err), nil)
				return
			}
		}
		r.Count("operations queued behind a 4.5 s upstream exchange, all answered with their own replies", 5)
		r.Nontrivial("slow-upstream")
	})
}

// stalledPeer: one connection to a served shim sends a relayed request with a large reply and then stops reading (or
// hangs up at once). What that peer does with its reply is its own business: every other connection is served as usual
// and gets its own replies.
func stalledPeer(r *ev.Run) {
	for ci, mode := range []string{"stops-reading", "hangs-up"} {
		c := r.Case("stalled-peer", ci)
		if c == nil {
			continue
		}
		rec := map[string]any{"first_connection": mode}
		r.Eval(1)
		r.Guard(c, "stalled peer", rec, func() {
			ag := wire.New()
			defer ag.Close()
			sock, err := ag.Listen()
			if err != nil {
				r.Inconclusive(err.Error())
				return
			}
			ag.Keyring.Add(agent.AddedKey{PrivateKey: gen.Pool()[0].Priv, Comment: "k"})
			srv, err := yubiagent.NewServer(sock, true)
			if err != nil {
				r.Violation(c, "server-construction-fails-without-fault", err.Error(), rec)
				return
			}
			a1, a2, err := wire.SocketPair()
			if err != nil {
				r.Inconclusive(err.Error())
				return
			}
			go func() { defer a2.Close(); defer func() { recover() }(); yubiagent.ServeAgent(srv, a2) }()
			big := append([]byte{200}, bytes.Repeat([]byte("stalled-peer-payload "), 100000)...) // echoed: a reply of ~2 MiB
			go a1.Write(wire.Frame(big))
			if mode == "hangs-up" {
				time.Sleep(2 * time.Millisecond)
				a1.Close()
			} else {
				defer a1.Close()
			}
			time.Sleep(50 * time.Millisecond)
			b1, b2, err := wire.SocketPair()
			if err != nil {
				r.Inconclusive(err.Error())
				return
			}
			defer b1.Close()
			go func() { defer b2.Close(); defer func() { recover() }(); yubiagent.ServeAgent(srv, b2) }()
			cl, err := yubiagent.NewClientFromConn(b1)
			if err != nil {
				r.Violation(c, "client-construction-fails", err.Error(), rec)
				return
			}
			type res struct {
				what string
				ok   bool
				err  error
			}
			done := make(chan res, 4)
			go func() {
				l, err := cl.List()
				done <- res{"list", err == nil && len(l) == 1, err}
				tag := append([]byte{200}, []byte("second-connection")...)
				resp, err := cl.Forward(tag)
				done <- res{"forward", err == nil && bytes.Equal(resp, tag), err}
				l, err = cl.List()
				done <- res{"list", err == nil && len(l) == 1, err}
			}()
			for i := 0; i < 3; i++ {
				select {
				case x := <-done:
					if !x.ok {
						r.Violation(c, "reply-does-not-match-request:"+x.what+":stalled-peer:"+mode, fmt.Sprintf("the second connection's %s: err=%v", x.what, x.err), rec)
						return
					}
				case <-time.After(ev.OpTimeout()):
					r.Violation(c, "operation-does-not-complete:stalled-peer:"+mode, "an operation on the second connection did not return while the first connection was not reading its reply", rec)
					return
				}
			}
			r.Count("operations on a second connection while the first one "+mode, 3)
			r.Nontrivial("stalled-peer:" + mode)
		})
	}
}
