// C09 — no-upstream mode hides the underlying agent's YSSHCA certificates, nothing else.
package main

import (
	"github.com/theparanoids/ysshra/verifharness/lib/ev"
	"github.com/theparanoids/ysshra/verifharness/lib/gen"
	sh "github.com/theparanoids/ysshra/verifharness/lib/shimhist"
	"time"
)

func main() {
	ev.MainIsolated("C09", "exploration", 60*time.Minute, func(r *ev.Run) {
		r.Rule("the same seeded history generator is run with no-upstream mode on and off (alternating), over underlying agents preloaded before the shim is built and fed later (through the shim and directly), with certificates whose KeyID is a valid YSSHCA KeyID of every type (touch, touchless, firefighter, in-agent, nonce, headless, unknown-type, regular), a near-miss (missing field, version 0/2, conflicting flags, wrong-case field) or free text / empty; List->Signers and Signers->List orders arise from the seeded op mix; every listing, signature and removal is compared with the model, whose hidden set is computed by the harness's own reference YSSHCA predicate. Plus `arrivals`: another client adds a YSSHCA certificate just before every identity listing the underlying agent answers (hence also between the listings of one shim operation). distinct_nontrivial = distinct histories in which at least one upstream YSSHCA certificate was present at a listing in no-upstream mode, or (mode off) at least one YSSHCA certificate had to be listed")
		r.Assume("reference predicate for 'decodes as a YSSHCA KeyID': JSON object with all 11 required fields, version 1, consistent flags (independent re-implementation)")
		gen.Pool()
		n := r.Pick(400, 8000)
		st := sh.Batch(r, "C09", "hist", n, 8, func(c *ev.Case, i int) sh.Config {
			return sh.Config{NoUpstream: i%2 == 0, Steps: 8 + c.Rand.Intn(25), Windows: []int{sh.WCurrent, sh.WCurrent, sh.WCurrent, sh.WForever, sh.WPast}, KIDs: sh.AllKIDs, FirstKID: sh.AllKIDs[(i/2)%len(sh.AllKIDs)], Preload: i%4 != 3, LockOps: i%9 == 0,
				Weights: map[string]int{"direct-add": 10, "add": 10, "list": 10, "signers": 10, "sign": 12, "remove": 6, "add-hard-cert": 8}}
		}, func(e *sh.Engine, _ sh.Stats, st sh.Stats) bool {
			return st.Hidden > 0 || (!e.Cfg.NoUpstream && st.ListedIdents > 0)
		})
		sh.Report(r, st)
		if r.Want("arrivals") {
			arrivals(r)
			modeIndependence(r)
		}
		r.Floor(int64(r.Pick(400, 8000)), int64(r.Pick(100, 2000)))
	})
}
