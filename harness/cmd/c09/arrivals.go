package main

import (
	"fmt"
	"sync"
	"time"

	"golang.org/x/crypto/ssh"
	"golang.org/x/crypto/ssh/agent"

	"github.com/theparanoids/ysshra/agent/shimagent"
	"github.com/theparanoids/ysshra/verifharness/lib/ev"
	"github.com/theparanoids/ysshra/verifharness/lib/gen"
	"github.com/theparanoids/ysshra/verifharness/lib/wire"
)

// arrivals: another client keeps adding YSSHCA certificates to the underlying agent — one just before each identity
// listing the underlying agent answers, i.e. also BETWEEN the several listings a single shim operation makes. Whatever
// the shim returns in no-upstream mode contains none of them, whenever they arrived; with the mode off every one that
// the underlying agent reported in its last listing is there.
func arrivals(r *ev.Run) {
	idx := 0
	for _, noUp := range []bool{true, false} {
		for _, kind := range []string{"touch", "regular", "firefighter", "nonce"} {
			for _, order := range [][]string{{"signers"}, {"list", "signers"}, {"signers", "list", "signers"}, {"sign", "signers", "list"}} {
				c := r.Case("arrivals", idx)
				idx++
				if c == nil {
					continue
				}
				rec := map[string]any{"no_upstream": noUp, "keyid_kind": kind, "operations": order}
				r.Eval(1)
				if _, hung := r.GuardWithin(c, "certificates arriving between listings", rec, ev.CaseBudget(), func() {
					ag := wire.New()
					defer ag.Close()
					sock, err := ag.Listen()
					if err != nil {
						r.Inconclusive(err.Error())
						return
					}
					pool := gen.Pool()
					k := pool[1]
					ag.Keyring.Add(agent.AddedKey{PrivateKey: pool[0].Priv, Comment: "plain"})
					s, err := shimagent.New(shimagent.Option{Address: sock, NoUpstream: noUp})
					if err != nil {
						r.Violation(c, "shim-construction-fails-without-fault", err.Error(), rec)
						return
					}
					defer s.Close()
					now := uint64(time.Now().Unix())
					var mu sync.Mutex
					arrived := map[string]int{} // blob -> number of the listing before which it arrived
					var last *ssh.Certificate
					nList := 0
					ag.SetPlan(func(_ int, req []byte) wire.Action {
						if len(req) > 0 && req[0] == 11 {
							mu.Lock()
							nList++
							spec := gen.KeyIDSpec{Touch: 1, TransID: fmt.Sprintf("arrival%03d", nList), Prins: []string{"u"}}
							switch kind {
							case "touch":
								spec.HW, spec.Touch = true, 3
							case "firefighter":
								spec.HW, spec.FF, spec.Touch = true, true, 3
							case "nonce":
								spec.HW, spec.Nonce = true, true
							}
							ct := gen.MakeCert(gen.CertSpec{Key: k, KeyID: gen.YSSHCAKeyID(spec), ValidAfter: now - 3600, ValidBefore: now + 3600, Principals: []string{"u"}, Serial: uint64(nList)})
							ag.Keyring.Add(agent.AddedKey{PrivateKey: k.Priv, Certificate: ct, Comment: "arrived"})
							arrived[string(ct.Marshal())] = nList
							last = ct
							mu.Unlock()
						}
						return wire.Action{Kind: wire.Honest}
					})
					for _, op := range order {
						var blobs []string
						switch op {
						case "list":
							l, err := s.List()
							if err != nil {
								r.Violation(c, "list-fails-without-fault", err.Error(), rec)
								return
							}
							for _, x := range l {
								blobs = append(blobs, string(x.Blob))
							}
						case "signers":
							sg, err := s.Signers()
							if err != nil {
								r.Violation(c, "signers-fails-without-fault", err.Error(), rec)
								return
							}
							for _, x := range sg {
								blobs = append(blobs, string(x.PublicKey().Marshal()))
							}
						case "sign":
							mu.Lock()
							target := last
							mu.Unlock()
							if target == nil {
								l, _ := s.List()
								_ = l
								mu.Lock()
								target = last
								mu.Unlock()
							}
							_, err := s.Sign(target, []byte("data"))
							if noUp && err == nil {
								r.Violation(c, "sign-with-hidden-upstream-cert-succeeds:"+kind, "a YSSHCA certificate that arrived in the underlying agent after the shim was built", rec)
								return
							}
							if !noUp && err != nil {
								r.Violation(c, "sign-with-held-identity-fails", "mode off: "+err.Error(), rec)
								return
							}
							continue
						}
						mu.Lock()
						for _, b := range blobs {
							if n, ok := arrived[b]; ok && noUp {
								mu.Unlock()
								r.Violation(c, "upstream-ysshca-cert-listed:"+kind+":arrived-mid-operation", fmt.Sprintf("%s returned a YSSHCA certificate of the underlying agent (it arrived just before the underlying agent's listing #%d; the operation ended after listing #%d)", op, n, nList), rec)
								return
							}
						}
						mu.Unlock()
					}
					r.Count("operations while YSSHCA certificates keep arriving in the underlying agent", len(order))
					r.Nontrivial(fmt.Sprintf("arrivals:%v:%s:%v", noUp, kind, order))
				}); hung {
					r.Unfinished("certificates arriving between listings")
					return
				}
			}
		}
	}
}
