package main

import (
	"fmt"
	"sort"
	"time"

	"golang.org/x/crypto/ssh"
	"golang.org/x/crypto/ssh/agent"

	"github.com/theparanoids/ysshra/agent/shimagent"
	"github.com/theparanoids/ysshra/verifharness/lib/ev"
	"github.com/theparanoids/ysshra/verifharness/lib/gen"
	"github.com/theparanoids/ysshra/verifharness/lib/wire"
)

// modeIndependence: the mode decides about upstream YSSHCA certificates and about nothing else. The same scripted
// history is run with the mode off and on: the in-memory hardware certificates and the plain keys that are listed,
// offered as signers and usable for signing afterwards are the same in both runs (whatever the rule about keyless
// hardware certificates makes of the history, it makes the same of it in both modes).
func modeIndependence(r *ev.Run) {
	type outcome struct {
		listed, signers []string
		signOK          map[string]bool
	}
	histories := []string{"key-behind-hidden-cert", "key-behind-hidden-cert-alone", "hidden-cert-added-before-hard-cert", "hidden-cert-removed-again", "two-hard-certs-one-key"}
	for hi, h := range histories {
		c := r.Case("mode-independence", hi)
		if c == nil {
			continue
		}
		r.Eval(1)
		if _, hung := r.GuardWithin(c, "same history in both modes", h, ev.CaseBudget(), func() {
			pool := gen.Pool()
			k, u := pool[(hi*2)%len(pool)], pool[(hi*2+1)%len(pool)]
			now := uint64(time.Now().Unix())
			mk := func(key *gen.Key, kid string) *ssh.Certificate {
				return gen.MakeCert(gen.CertSpec{Key: key, KeyID: kid, ValidAfter: now - 600, ValidBefore: now + 7200, Principals: []string{"u"}, Serial: uint64(1000 + hi)})
			}
			hw := mk(k, gen.YSSHCAKeyID(gen.KeyIDSpec{HW: true, Touch: 3, TransID: "hhhhhhhhhh", Prins: []string{"u"}}))
			hw2 := mk(k, gen.YSSHCAKeyID(gen.KeyIDSpec{HW: true, FF: true, Touch: 3, TransID: "iiiiiiiiii", Prins: []string{"u"}}))
			x := mk(k, gen.YSSHCAKeyID(gen.KeyIDSpec{Touch: 1, TransID: "xxxxxxxxxx", Prins: []string{"u"}}))
			results := map[bool]outcome{}
			for _, noUp := range []bool{false, true} {
				ag := wire.New()
				sock, err := ag.Listen()
				if err != nil {
					ag.Close()
					r.Inconclusive(err.Error())
					return
				}
				ag.Keyring.Add(agent.AddedKey{PrivateKey: k.Priv, Comment: "k"})
				if h != "key-behind-hidden-cert-alone" {
					ag.Keyring.Add(agent.AddedKey{PrivateKey: u.Priv, Comment: "unrelated"})
				}
				if h == "hidden-cert-added-before-hard-cert" {
					ag.Keyring.Add(agent.AddedKey{PrivateKey: k.Priv, Certificate: x, Comment: "upstream ysshca cert over k"})
				}
				s, err := shimagent.New(shimagent.Option{Address: sock, NoUpstream: noUp})
				if err != nil {
					ag.Close()
					r.Violation(c, "shim-construction-fails-without-fault", err.Error(), h)
					return
				}
				fail := func(what string, err error) {
					r.Violation(c, what+":mode-independence", fmt.Sprintf("history %s, no-upstream=%v: %v", h, noUp, err), h)
				}
				if err := s.AddHardCert(hw, "hw"); err != nil {
					fail("hardware-cert-with-held-key-refused", err)
					s.Close()
					ag.Close()
					return
				}
				if h == "two-hard-certs-one-key" {
					s.AddHardCert(hw2, "hw2")
				}
				s.List()
				if h != "hidden-cert-added-before-hard-cert" {
					// through the shim, as a client does
					s.Add(agent.AddedKey{PrivateKey: k.Priv, Certificate: x, Comment: "upstream ysshca cert over k"})
				}
				s.List()
				// the plain key goes: k is now held only together with the (in one mode hidden) certificate
				s.Remove(k.Pub)
				if h == "hidden-cert-removed-again" {
					s.List()
					s.Remove(x)
				}
				var o outcome
				o.signOK = map[string]bool{}
				for round := 0; round < 2; round++ {
					l, err := s.List()
					if err != nil {
						fail("list-fails-without-fault", err)
						s.Close()
						ag.Close()
						return
					}
					o.listed = nil
					for _, id := range l {
						if string(id.Blob) == string(x.Marshal()) {
							continue // the upstream YSSHCA certificate itself: what the mode is about
						}
						o.listed = append(o.listed, fmt.Sprintf("%x", id.Blob[len(id.Blob)-6:]))
					}
				}
				sg, err := s.Signers()
				if err != nil {
					fail("signers-fails-without-fault", err)
					s.Close()
					ag.Close()
					return
				}
				for _, x2 := range sg {
					b := x2.PublicKey().Marshal()
					if string(b) == string(x.Marshal()) {
						continue
					}
					o.signers = append(o.signers, fmt.Sprintf("%x", b[len(b)-6:]))
				}
				for name, key := range map[string]ssh.PublicKey{"hw": hw, "hw2": hw2, "unrelated": u.Pub} {
					sig, err := s.Sign(key, []byte("data"))
					o.signOK[name] = err == nil && sig != nil
				}
				sort.Strings(o.listed)
				sort.Strings(o.signers)
				results[noUp] = o
				s.Close()
				ag.Close()
			}
			off, on := results[false], results[true]
			if fmt.Sprint(off.listed) != fmt.Sprint(on.listed) || fmt.Sprint(off.signers) != fmt.Sprint(on.signers) || fmt.Sprint(off.signOK) != fmt.Sprint(on.signOK) {
				r.Violation(c, "mode-changes-more-than-upstream-ysshca-certs:"+h, fmt.Sprintf("apart from the upstream YSSHCA certificate itself — mode off: listed %v, signers %v, sign %v; mode on: listed %v, signers %v, sign %v", off.listed, off.signers, off.signOK, on.listed, on.signers, on.signOK), h)
				return
			}
			r.Count("scripted histories with the same hardware certificates and keys in both modes", 1)
			r.Nontrivial("mode-independence:" + h)
		}); hung {
			r.Unfinished("same history in both modes")
			return
		}
	}
}
