// C06 — attestation accepts only certificates signed by a device key chaining to the roots.
package main

import (
	"bytes"
	"crypto"
	"crypto/ecdsa"
	"crypto/elliptic"
	"crypto/md5"
	"crypto/rand"
	"crypto/rsa"
	"crypto/sha1"
	"crypto/sha256"
	"crypto/sha512"
	"crypto/x509"
	"crypto/x509/pkix"
	"encoding/hex"
	"encoding/json"
	"encoding/pem"
	"fmt"
	"math/big"
	"os"
	"path/filepath"
	"runtime"
	"strings"
	"sync"
	"sync/atomic"
	"time"

	"github.com/theparanoids/ysshra/attestation/yubiattest"
	"github.com/theparanoids/ysshra/verifharness/lib/ev"
	"github.com/theparanoids/ysshra/verifharness/lib/gen"
)

// DigestInfo prefixes from RFC 8017 section 9.2 note 1 (with NULL) and the
// NULL-less variant (length bytes reduced by two).
type hashInfo struct {
	name     string
	alg      x509.SignatureAlgorithm
	withNULL []byte
	sum      func([]byte) []byte
}

func h1(b []byte) []byte   { s := sha1.Sum(b); return s[:] }
func h256(b []byte) []byte { s := sha256.Sum256(b); return s[:] }
func h384(b []byte) []byte { s := sha512.Sum384(b); return s[:] }
func h512(b []byte) []byte { s := sha512.Sum512(b); return s[:] }

var hashes = []hashInfo{
	{"SHA1", x509.SHA1WithRSA, []byte{0x30, 0x21, 0x30, 0x09, 0x06, 0x05, 0x2b, 0x0e, 0x03, 0x02, 0x1a, 0x05, 0x00, 0x04, 0x14}, h1},
	{"SHA256", x509.SHA256WithRSA, []byte{0x30, 0x31, 0x30, 0x0d, 0x06, 0x09, 0x60, 0x86, 0x48, 0x01, 0x65, 0x03, 0x04, 0x02, 0x01, 0x05, 0x00, 0x04, 0x20}, h256},
	{"SHA384", x509.SHA384WithRSA, []byte{0x30, 0x41, 0x30, 0x0d, 0x06, 0x09, 0x60, 0x86, 0x48, 0x01, 0x65, 0x03, 0x04, 0x02, 0x02, 0x05, 0x00, 0x04, 0x30}, h384},
	{"SHA512", x509.SHA512WithRSA, []byte{0x30, 0x51, 0x30, 0x0d, 0x06, 0x09, 0x60, 0x86, 0x48, 0x01, 0x65, 0x03, 0x04, 0x02, 0x03, 0x05, 0x00, 0x04, 0x40}, h512},
}

// prefix returns the DigestInfo prefix in the requested form.
func (h hashInfo) prefix(null bool) []byte {
	if null {
		return h.withNULL
	}
	// drop the 05 00 and fix the two SEQUENCE lengths
	p := append([]byte{}, h.withNULL...)
	i := bytes.Index(p, []byte{0x05, 0x00, 0x04})
	p = append(p[:i], p[i+2:]...)
	p[1] -= 2
	p[3] -= 2
	return p
}

// em builds the full-length encoded message 00 01 FF..FF 00 T.
func em(k int, t []byte) []byte {
	if k < len(t)+11 {
		return nil
	}
	out := make([]byte, k)
	out[1] = 1
	for i := 2; i < k-len(t)-1; i++ {
		out[i] = 0xff
	}
	copy(out[k-len(t):], t)
	return out
}

type devKey struct {
	priv   *rsa.PrivateKey
	k      int
	f9     *x509.Certificate // issued by the root
	f9DER  []byte
	dP, dQ *big.Int
	qInv   *big.Int
	// slowD: for a key with more than two primes the private exponent is used directly
	slowD *big.Int
}

// signRaw computes EM^d mod N with CRT.
func (d *devKey) signRaw(emsg []byte) []byte {
	c := new(big.Int).SetBytes(emsg)
	c.Mod(c, d.priv.N)
	if d.slowD != nil {
		return new(big.Int).Exp(c, d.slowD, d.priv.N).FillBytes(make([]byte, d.k))
	}
	p, q := d.priv.Primes[0], d.priv.Primes[1]
	m1 := new(big.Int).Exp(c, d.dP, p)
	m2 := new(big.Int).Exp(c, d.dQ, q)
	h := new(big.Int).Sub(m1, m2)
	h.Mul(h, d.qInv)
	h.Mod(h, p)
	m := h.Mul(h, q)
	m.Add(m, m2)
	return m.FillBytes(make([]byte, d.k))
}

// hugeKey makes an 8192-bit RSA key out of eight 1024-bit primes (cheap to generate; a device key of that size has a
// padding string of about a thousand octets).
func hugeKey() *devKey {
	e, one := big.NewInt(65537), big.NewInt(1)
	for {
		n, phi := big.NewInt(1), big.NewInt(1)
		var primes []*big.Int
		for len(primes) < 8 {
			p, err := rand.Prime(rand.Reader, 1024)
			if err != nil {
				panic(err)
			}
			pm1 := new(big.Int).Sub(p, one)
			if new(big.Int).GCD(nil, nil, e, pm1).Cmp(one) != 0 {
				continue
			}
			primes = append(primes, p)
			n.Mul(n, p)
			phi.Mul(phi, pm1)
		}
		dd := new(big.Int).ModInverse(e, phi)
		if dd == nil || n.BitLen() < 8185 {
			continue
		}
		k := &rsa.PrivateKey{PublicKey: rsa.PublicKey{N: n, E: 65537}, D: dd, Primes: primes}
		return &devKey{priv: k, k: (n.BitLen() + 7) / 8, slowD: dd}
	}
}

// smallExponentKey makes an RSA key with public exponent 3.
func smallExponentKey(bits int) *devKey {
	three, one := big.NewInt(3), big.NewInt(1)
	prime := func() *big.Int {
		for {
			p, err := rand.Prime(rand.Reader, bits/2)
			if err != nil {
				panic(err)
			}
			if new(big.Int).Mod(p, three).Int64() == 2 {
				return p
			}
		}
	}
	for {
		p, q := prime(), prime()
		n := new(big.Int).Mul(p, q)
		if p.Cmp(q) == 0 || n.BitLen() != bits {
			continue
		}
		phi := new(big.Int).Mul(new(big.Int).Sub(p, one), new(big.Int).Sub(q, one))
		dd := new(big.Int).ModInverse(three, phi)
		if dd == nil {
			continue
		}
		k := &rsa.PrivateKey{PublicKey: rsa.PublicKey{N: n, E: 3}, D: dd, Primes: []*big.Int{p, q}}
		d := &devKey{priv: k, k: (n.BitLen() + 7) / 8}
		d.dP = new(big.Int).Mod(dd, new(big.Int).Sub(p, one))
		d.dQ = new(big.Int).Mod(dd, new(big.Int).Sub(q, one))
		d.qInv = new(big.Int).ModInverse(q, p)
		return d
	}
}

type pki struct {
	rootKey   *ecdsa.PrivateKey
	root      *x509.Certificate
	otherKey  *ecdsa.PrivateKey
	other     *x509.Certificate
	pool      *x509.CertPool
	attestor  *yubiattest.Attestor
	rootDER   []byte
	serialCtr int64
}

func newCA(cn string) (*ecdsa.PrivateKey, *x509.Certificate, []byte) {
	k, _ := ecdsa.GenerateKey(elliptic.P256(), rand.Reader)
	t := &x509.Certificate{SerialNumber: big.NewInt(1), Subject: pkix.Name{CommonName: cn}, NotBefore: time.Now().Add(-240 * time.Hour), NotAfter: time.Now().Add(24000 * time.Hour),
		IsCA: true, BasicConstraintsValid: true, KeyUsage: x509.KeyUsageCertSign}
	der, err := x509.CreateCertificate(rand.Reader, t, t, &k.PublicKey, k)
	if err != nil {
		panic(err)
	}
	c, _ := x509.ParseCertificate(der)
	return k, c, der
}

func (p *pki) issue(pub crypto.PublicKey, issuer *x509.Certificate, issuerKey crypto.Signer, nb, na time.Time) (*x509.Certificate, []byte) {
	p.serialCtr++
	return p.issueSerial(pub, issuer, issuerKey, nb, na, big.NewInt(1000+p.serialCtr))
}

func (p *pki) issueSerial(pub crypto.PublicKey, issuer *x509.Certificate, issuerKey crypto.Signer, nb, na time.Time, serial *big.Int) (*x509.Certificate, []byte) {
	return p.issueExt(pub, issuer, issuerKey, nb, na, serial, nil)
}

// issueExt: like issueSerial, with extra (e.g. unknown critical) extensions.
func (p *pki) issueExt(pub crypto.PublicKey, issuer *x509.Certificate, issuerKey crypto.Signer, nb, na time.Time, serial *big.Int, extra []pkix.Extension) (*x509.Certificate, []byte) {
	t := &x509.Certificate{SerialNumber: serial, ExtraExtensions: extra, Subject: pkix.Name{CommonName: "Yubico PIV Attestation"}, NotBefore: nb, NotAfter: na, IsCA: true, BasicConstraintsValid: true}
	if issuer == nil {
		issuer = t
	}
	der, err := x509.CreateCertificate(rand.Reader, t, issuer, pub, issuerKey)
	if err != nil {
		panic(err)
	}
	c, err := x509.ParseCertificate(der)
	if err != nil {
		panic(err)
	}
	return c, der
}

var unknownCritical = []pkix.Extension{{Id: []int{1, 3, 6, 1, 4, 1, 99999, 1}, Critical: true, Value: []byte{0x05, 0x00}}}

type attCase struct {
	What     string `json:"what"`
	Expect   string `json:"expect"` // accept | reject | dontcare
	Alg      int    `json:"signature_algorithm"`
	TBS      string `json:"tbs_hex"`
	Sig      string `json:"signature_hex"`
	F9       string `json:"device_cert_der_hex"`
	Roots    string `json:"root_der_hex"`
	EM       string `json:"intended_encoded_message_hex,omitempty"`
	KeyBits  int    `json:"device_key_bits"`
	Position int    `json:"position,omitempty"`
	// NotBefore/NotAfter of the slot certificate (unix seconds); irrelevant to the
	// property ("at the current time"), varied to catch verification at another time.
	NotBefore int64 `json:"slot_cert_not_before,omitempty"`
	NotAfter  int64 `json:"slot_cert_not_after,omitempty"`
	// HostTrust: the attestor was built by NewAttestor from PEM files while the
	// process's system trust store (SSL_CERT_FILE) held this certificate.
	HostTrust string `json:"host_trust_store_der_hex,omitempty"`
}

var ring *ev.Ring

// hugeCases submits the cases of the 8192-bit device key (set up in main, run with the other jobs).
var hugeCases func(submit func(d *devKey, f9 *x509.Certificate, ac attCase, emsg, sigOverride, tbs []byte))

// goneAtt is an attestor whose root files were removed after it was built.
var goneAtt *yubiattest.Attestor

func runCase(r *ev.Run, c *ev.Case, att *yubiattest.Attestor, f9 *x509.Certificate, ac attCase, sig, tbs []byte) {
	r.Eval(1)
	attest := &x509.Certificate{SignatureAlgorithm: x509.SignatureAlgorithm(ac.Alg), RawTBSCertificate: tbs, Signature: sig}
	if ac.NotBefore != 0 {
		attest.NotBefore, attest.NotAfter = time.Unix(ac.NotBefore, 0), time.Unix(ac.NotAfter, 0)
	}
	var err error
	full := func() attCase {
		ac.TBS, ac.Sig, ac.F9 = hex.EncodeToString(tbs), hex.EncodeToString(sig), hex.EncodeToString(f9.Raw)
		return ac
	}
	panicked := false
	func() {
		defer func() {
			if p := recover(); p != nil {
				panicked = true
				r.Violation(c, "panic:Attest:"+ac.What, fmt.Sprintf("panic: %v", p), full())
			}
		}()
		err = att.Attest(f9, attest)
	}()
	if panicked {
		return
	}
	if ring != nil {
		first := fmt.Sprint(err == nil)
		ring.Add(r, c, func() string { return fmt.Sprint(att.Attest(f9, attest) == nil) }, first, ac.What)
	}
	switch ac.Expect {
	case "accept":
		if err != nil {
			r.Violation(c, "rejects-valid:"+ac.What, fmt.Sprintf("Attest error %v", err), full())
			return
		}
		r.Nontrivial(fmt.Sprintf("acc:%s:%d:%x", ac.What, ac.KeyBits, head(sig)))
		r.Count("accepted (expected) "+ac.What, 1)
	case "reject":
		if err == nil {
			r.Violation(c, "accepts-invalid:"+ac.What, fmt.Sprintf("Attest accepted; position=%d bits=%d", ac.Position, ac.KeyBits), full())
			return
		}
		r.Nontrivial(fmt.Sprintf("rej:%s:%d:%d:%x", ac.What, ac.KeyBits, ac.Position, head(sig)))
		r.Count("rejected (expected) "+famOf(ac.What), 1)
	default:
		r.Count("don't-care labels exercised", 1)
	}
}

func head(b []byte) []byte {
	if len(b) > 8 {
		return b[:8]
	}
	return b
}

func famOf(s string) string {
	for i, ch := range s {
		if ch == ':' {
			return s[:i]
		}
	}
	return s
}

func main() {
	ev.MainIsolated("C06", "exploration", 60*time.Minute, func(r *ev.Run) {
		r.Rule("the harness owns the root CA and the RSA device keys, so sig = EM^d mod N yields a signature that decrypts to ANY chosen encoded message EM. Per device key size and per (hash in SHA1/256/384/512) x (DigestInfo with/without NULL): the correct EM (must be accepted); EM with each byte position replaced by 3 other values; padding shortened by 1..8 with the tail shifted left (trailing garbage) or right (leading zeros); DigestInfo of another hash; single-bit flips of signature and body; all SignatureAlgorithm labels; device certificate issued by root / other CA / self-signed / expired / not yet valid / ECDSA key. distinct_nontrivial = distinct (family, key size, position, signature) cases whose outcome matched the oracle")
		r.Assume("reference EM built from RFC 8017 9.2 and cross-checked against crypto/rsa.VerifyPKCS1v15 for the with-NULL form", "chain validity uses the real clock with ±24h margins; the two certificates whose validity changes during the run lapse / begin 2..3 s after the attestors were built and are looked at within the first second and again 1.2 s after the boundary", "labels DSAWith*/ECDSAWith* over an RSA key are don't-care")
		if r.Replay != nil {
			replay(r)
			return
		}
		ring = ev.NewRing("Attest", r.Seed, 29)
		p := &pki{}
		p.rootKey, p.root, p.rootDER = newCA("verif PIV root")
		p.otherKey, p.other, _ = newCA("verif other CA")
		// a CA with the SAME subject name as the root but another key (not in the pool)
		lookKey, look, _ := newCA("verif PIV root")
		p.pool = x509.NewCertPool()
		p.pool.AddCert(p.root)
		p.attestor = yubiattest.NewAttestorWithCAPool(p.pool)
		// A second attestor is built from PEM files, as a deployment does (the second
		// file holds an unrelated root). Before that — and before anything in this
		// process has consulted the host's trust store — the trust store is pointed at
		// a bundle holding "verif other CA": a CA trusted by the host but not
		// configured as an attestation root, whose device certificates (chain-other-ca)
		// must be refused like any other impostor's.
		var fileAtt *yubiattest.Attestor
		if dir, derr := os.MkdirTemp("", "roots"); derr == nil {
			defer os.RemoveAll(dir)
			sys := filepath.Join(dir, "host-trust.pem")
			os.WriteFile(sys, pem.EncodeToMemory(&pem.Block{Type: "CERTIFICATE", Bytes: p.other.Raw}), 0o600)
			os.Mkdir(filepath.Join(dir, "empty"), 0o700)
			os.Setenv("SSL_CERT_FILE", sys)
			os.Setenv("SSL_CERT_DIR", filepath.Join(dir, "empty"))
			_, _, u2fDER := newCA("verif U2F root")
			piv, u2fp := filepath.Join(dir, "piv.pem"), filepath.Join(dir, "u2f.pem")
			os.WriteFile(piv, pem.EncodeToMemory(&pem.Block{Type: "CERTIFICATE", Bytes: p.rootDER}), 0o600)
			os.WriteFile(u2fp, pem.EncodeToMemory(&pem.Block{Type: "CERTIFICATE", Bytes: u2fDER}), 0o600)
			if a, aerr := yubiattest.NewAttestor(piv, u2fp); aerr == nil {
				fileAtt = a
				r.Count("attestor built from PEM root files (host trust store holds another CA)", 1)
			} else {
				r.Violation(r.CaseAlways("attestor", 0), "attestor-construction-from-files-fails", aerr.Error(), nil)
			}
		}
		// a third attestor: built from PEM files that disappear afterwards (rotated, unmounted). It keeps judging by the roots
		// it was configured with — or fails — but never by anything else the host trusts.
		if dir2, derr := os.MkdirTemp("", "roots2"); derr == nil {
			piv, u2fp := filepath.Join(dir2, "piv.pem"), filepath.Join(dir2, "u2f.pem")
			os.WriteFile(piv, pem.EncodeToMemory(&pem.Block{Type: "CERTIFICATE", Bytes: p.rootDER}), 0o600)
			os.WriteFile(u2fp, pem.EncodeToMemory(&pem.Block{Type: "CERTIFICATE", Bytes: p.rootDER}), 0o600)
			if a, aerr := yubiattest.NewAttestor(piv, u2fp); aerr == nil {
				goneAtt = a
			}
			os.RemoveAll(dir2)
		}
		// the same two paths, other content: an attestor built now trusts what the files hold now
		var swappedAtt *yubiattest.Attestor
		if dir3, derr := os.MkdirTemp("", "roots3"); derr == nil {
			defer os.RemoveAll(dir3)
			piv, u2fp := filepath.Join(dir3, "piv.pem"), filepath.Join(dir3, "u2f.pem")
			for _, der := range [][]byte{p.other.Raw, p.rootDER} { // first the OTHER CA, then the real root
				os.WriteFile(piv, pem.EncodeToMemory(&pem.Block{Type: "CERTIFICATE", Bytes: der}), 0o600)
				os.WriteFile(u2fp, pem.EncodeToMemory(&pem.Block{Type: "CERTIFICATE", Bytes: der}), 0o600)
				if a, aerr := yubiattest.NewAttestor(piv, u2fp); aerr == nil {
					swappedAtt = a
				}
			}
		}
		rootsHex := hex.EncodeToString(p.rootDER)

		sizes := []int{1024, 1031, 2048}
		exhaustive := map[int]bool{1024: true, 1031: true, 2048: true}
		if r.Thorough() {
			sizes = []int{1024, 1031, 1536, 2048, 3072, 4096}
			exhaustive = map[int]bool{1024: true, 1031: true, 1536: true, 2048: true, 3072: true, 4096: true}
		}
		keys := make([]*devKey, len(sizes))
		var wg sync.WaitGroup
		for i, bits := range sizes {
			wg.Add(1)
			go func(i, bits int) {
				defer wg.Done()
				k, err := rsa.GenerateKey(rand.Reader, bits)
				if err != nil {
					panic(err)
				}
				d := &devKey{priv: k, k: (k.N.BitLen() + 7) / 8}
				one := big.NewInt(1)
				d.dP = new(big.Int).Mod(k.D, new(big.Int).Sub(k.Primes[0], one))
				d.dQ = new(big.Int).Mod(k.D, new(big.Int).Sub(k.Primes[1], one))
				d.qInv = new(big.Int).ModInverse(k.Primes[1], k.Primes[0])
				keys[i] = d
			}(i, bits)
		}
		wg.Wait()
		// one more device key with another public exponent (e = 3; crypto/rsa only generates 65537): what a signature is
		// raised to is this key's exponent, whatever other keys are being verified at the same moment
		keys = append(keys, smallExponentKey(1024))
		sizes = append(sizes, 1024)
		now := time.Now()
		for _, d := range keys {
			d.f9, d.f9DER = p.issue(&d.priv.PublicKey, p.root, p.rootKey, now.Add(-48*time.Hour), now.Add(4800*time.Hour))
		}
		r.Extra("device_key_bits", sizes)
		// a device key of 8192 bits: the padding string is ~970 octets long and every one of them counts
		huge := hugeKey()
		huge.f9, huge.f9DER = p.issue(&huge.priv.PublicKey, p.root, p.rootKey, now.Add(-48*time.Hour), now.Add(4800*time.Hour))
		hugeCases = func(submit func(d *devKey, f9 *x509.Certificate, ac attCase, emsg, sigOverride, tbs []byte)) {
			tbs := gen.Bytes(r.CaseAlways("huge", 0).Rand, 300)
			h := hashes[1]
			t := append(append([]byte{}, h.prefix(true)...), h.sum(tbs)...)
			good := em(huge.k, t)
			submit(huge, huge.f9, attCase{What: "correct:8192-bit-key", Expect: "accept", Alg: int(h.alg)}, good, nil, tbs)
			last := huge.k - len(t) - 2
			for _, pos := range []int{2, 3, 100, 511, 512, 513, 514, 515, 516, 600, 777, 971, last - 1, last} {
				if pos < 2 || pos > last {
					continue
				}
				bad := append([]byte{}, good...)
				bad[pos] ^= 0x01
				submit(huge, huge.f9, attCase{What: "padding-octet-altered:8192-bit-key", Expect: "reject", Alg: int(h.alg), Position: pos}, bad, nil, tbs)
			}
			// many padding octets altered at once: every count, in particular the multiples of 256 and those around them
			for _, n := range []int{2, 3, 16, 128, 255, 256, 257, 511, 512, 513, 768, 769, last - 2, last - 1} {
				for _, where := range []string{"from-the-start", "from-the-end", "spread"} {
					if n < 2 || n > last-1 {
						continue
					}
					bad := append([]byte{}, good...)
					for i := 0; i < n; i++ {
						pos := 2 + i
						switch where {
						case "from-the-end":
							pos = last - i
						case "spread":
							pos = 2 + i*(last-1)/n
						}
						bad[pos] = []byte{0xfe, 0x00, 0x7f}[(i+n)%3]
					}
					submit(huge, huge.f9, attCase{What: fmt.Sprintf("padding-octets-altered:%d-%s:8192-bit-key", n, where), Expect: "reject", Alg: int(h.alg), Position: n}, bad, nil, tbs)
				}
			}
		}
		// the attestors live on while time passes: a device certificate that lapses (or becomes valid) after they were
		// built is judged at the time of the attestation, not of the construction. First look now, second look at the end.
		lapse := now.Add(3 * time.Second)
		d0 := keys[0]
		soonExpired, _ := p.issue(&d0.priv.PublicKey, p.root, p.rootKey, now.Add(-time.Hour), lapse)
		soonValid, _ := p.issue(&d0.priv.PublicKey, p.root, p.rootKey, lapse, now.Add(4800*time.Hour))
		lateTBS := gen.Bytes(r.CaseAlways("late", 0).Rand, 300)
		lateDigest := hashes[1].sum(lateTBS)
		lateSig := d0.signRaw(em(d0.k, append(append([]byte{}, hashes[1].prefix(true)...), lateDigest...)))
		lateLook := func(when string, wantExpired, wantValid bool) {
			for ai, att := range []*yubiattest.Attestor{p.attestor, fileAtt} {
				if att == nil {
					continue
				}
				for _, x := range []struct {
					name string
					f9   *x509.Certificate
					want bool
				}{{"device-cert-lapsing-after-construction", soonExpired, wantExpired}, {"device-cert-becoming-valid-after-construction", soonValid, wantValid}} {
					c := r.CaseAlways("late", ai)
					r.Eval(1)
					attest := &x509.Certificate{SignatureAlgorithm: x509.SignatureAlgorithm(hashes[1].alg), RawTBSCertificate: lateTBS, Signature: lateSig}
					var err error
					if r.Guard(c, "Attest", x.name, func() { err = att.Attest(x.f9, attest) }) {
						continue
					}
					if (err == nil) != x.want {
						sig := "accepts-invalid:"
						if x.want {
							sig = "rejects-valid:"
						}
						r.Violation(c, sig+x.name+":"+when, fmt.Sprintf("attestor built at %s, device certificate valid %s .. %s, attested at %s: err=%v", now.Format(time.RFC3339), x.f9.NotBefore.Format(time.RFC3339), x.f9.NotAfter.Format(time.RFC3339), time.Now().Format(time.RFC3339), err), nil)
						continue
					}
					r.Count("device certificates whose validity changes after the attestor was built: judged "+when, 1)
					r.Nontrivial("late:" + x.name + ":" + when + fmt.Sprint(ai))
				}
			}
		}
		if time.Since(now) < time.Second {
			lateLook("before", true, false)
		}

		type job func()
		jobs := make(chan job, 1024)
		var wk sync.WaitGroup
		for w := 0; w < runtime.NumCPU(); w++ {
			wk.Add(1)
			go func() {
				defer wk.Done()
				for j := range jobs {
					j()
				}
			}()
		}
		idx := 0
		next := func() *ev.Case { idx++; return r.CaseAlways("em", idx) }
		submit := func(d *devKey, f9 *x509.Certificate, ac attCase, emsg, sigOverride, tbs []byte) {
			c := next()
			ac.KeyBits = d.priv.N.BitLen()
			ac.Roots = rootsHex
			if emsg != nil {
				ac.EM = hex.EncodeToString(emsg)
			}
			jobs <- func() {
				sig := sigOverride
				if sig == nil {
					sig = d.signRaw(emsg)
				}
				att := p.attestor
				if fileAtt != nil && (int64(c.Index)+r.Seed)%2 == 1 {
					att = fileAtt
					ac.HostTrust = hex.EncodeToString(p.other.Raw)
				}
				runCase(r, c, att, f9, ac, sig, tbs)
				if swappedAtt != nil && (strings.HasPrefix(ac.What, "chain-other-ca:") || strings.HasPrefix(ac.What, "chain-root-issued:")) {
					// an attestor built from paths whose files held another CA when an EARLIER attestor was built from them
					r.Eval(1)
					attest := &x509.Certificate{SignatureAlgorithm: x509.SignatureAlgorithm(ac.Alg), RawTBSCertificate: tbs, Signature: sig}
					if ac.NotBefore != 0 {
						attest.NotBefore, attest.NotAfter = time.Unix(ac.NotBefore, 0), time.Unix(ac.NotAfter, 0)
					}
					var err error
					if !r.Guard(c, "Attest", ac.What, func() { err = swappedAtt.Attest(f9, attest) }) {
						if (err == nil) != (ac.Expect == "accept") {
							sigp := map[bool]string{true: "rejects-valid:", false: "accepts-invalid:"}[ac.Expect == "accept"]
							r.Violation(c, sigp+ac.What+":root-files-rewritten-before-construction", fmt.Sprintf("the root files held another CA when an earlier attestor was built from the same paths; this attestor was built after they were rewritten: err=%v", err), ac)
						}
					}
				}
				if goneAtt != nil && ac.Expect == "reject" && strings.HasPrefix(ac.What, "chain-") {
					// whatever became of its files, it does not start accepting what the configured roots do not cover
					ac2 := ac
					ac2.What, ac2.HostTrust = ac.What+":root-files-removed-after-construction", hex.EncodeToString(p.other.Raw)
					for k := 0; k < 2; k++ {
						r.Eval(1)
						attest := &x509.Certificate{SignatureAlgorithm: x509.SignatureAlgorithm(ac.Alg), RawTBSCertificate: tbs, Signature: sig}
						var err error
						if r.Guard(c, "Attest", ac2.What, func() { err = goneAtt.Attest(f9, attest) }) {
							break
						}
						if err == nil {
							r.Violation(c, "accepts-invalid:"+ac2.What, "an attestor whose root files were removed after it was built accepted a chain its configured roots do not cover", ac2)
							break
						}
					}
				}
			}
		}

		if hugeCases != nil {
			hugeCases(submit)
		}
		// the device certificate presented in both roles (as itself and as "slot certificate"): it was signed by the
		// root, not by the device key, so it attests nothing — the same object, a separately parsed copy, for every key
		for ki, d := range keys {
			if ki > 3 {
				break
			}
			for vi, slot := range []*x509.Certificate{d.f9, func() *x509.Certificate { c, _ := x509.ParseCertificate(d.f9DER); return c }()} {
				if slot == nil {
					continue
				}
				c := next()
				r.Eval(1)
				var err error
				if !r.Guard(c, "Attest", "device certificate as slot certificate", func() { err = p.attestor.Attest(d.f9, slot) }) {
					if err == nil {
						r.Violation(c, "accepts-invalid:device-certificate-presented-as-its-own-slot-certificate", fmt.Sprintf("key %d (%d bits), variant %d (0: same object, 1: parsed copy): the device certificate is signed by the root, not by the device key", ki, d.priv.N.BitLen(), vi), attCase{What: "device-certificate-as-slot-certificate", Expect: "reject", KeyBits: d.priv.N.BitLen(), F9: hex.EncodeToString(d.f9.Raw)})
					} else {
						r.Count("device certificate presented as its own slot certificate -> rejected", 1)
					}
				}
			}
		}
		// one level down: a genuine slot certificate (issued by a device key whose certificate has just been attested
		// on this very attestor) presented as "device certificate" for a certificate made with the slot's key. The slot
		// certificate chains to the device certificate, not to the configured roots, however often that device
		// certificate has been seen before.
		for ki := 0; ki < 3 && ki+1 < len(keys); ki++ {
			d, sk := keys[ki], keys[ki+1]
			slot, _ := p.issue(&sk.priv.PublicKey, d.f9, d.priv, now.Add(-time.Hour), now.Add(4800*time.Hour))
			soft, _ := p.issue(&keys[(ki+2)%len(keys)].priv.PublicKey, slot, sk.priv, now.Add(-time.Hour), now.Add(4800*time.Hour))
			c := next()
			r.Eval(1)
			var e1, e2 error
			if r.Guard(c, "Attest", "slot certificate as device certificate after a genuine attestation", func() {
				for k := 0; k < 3; k++ {
					e1 = p.attestor.Attest(d.f9, slot)
				}
				e2 = p.attestor.Attest(slot, soft)
			}) {
				continue
			}
			switch {
			case e1 != nil:
				r.Violation(c, "rejects-valid:slot-certificate-issued-by-the-device-key", e1.Error(), nil)
			case e2 == nil:
				r.Violation(c, "accepts-invalid:slot-certificate-presented-as-device-certificate-after-its-device-was-attested", fmt.Sprintf("key %d: a certificate signed with a slot key was attested with the slot certificate in the device certificate's place; the slot certificate does not chain to the configured roots", ki), nil)
			default:
				r.Count("slot certificate presented as device certificate after its device had been attested -> rejected", 1)
				r.Nontrivial(fmt.Sprintf("slot-as-device:%d", ki))
			}
		}
		// a root with an RSA key of its own: the slot certificate is signed by the DEVICE key. A well-formed signature
		// made with the key of the root that issued the device certificate (or of any other certificate the chain
		// runs through) is a signature by somebody else.
		{
			rootK, dev := keys[1], keys[0]
			rsaRoot, _ := p.issue(&rootK.priv.PublicKey, nil, rootK.priv, now.Add(-480*time.Hour), now.Add(48000*time.Hour))
			pool2 := x509.NewCertPool()
			pool2.AddCert(rsaRoot)
			att2 := yubiattest.NewAttestorWithCAPool(pool2)
			f9b, _ := p.issue(&dev.priv.PublicKey, rsaRoot, rootK.priv, now.Add(-48*time.Hour), now.Add(4800*time.Hour))
			tbs := gen.Bytes(r.CaseAlways("rsa-root", 0).Rand, 300)
			for _, h := range hashes {
				for _, null := range []bool{true, false} {
					t := append(append([]byte{}, h.prefix(null)...), h.sum(tbs)...)
					form := fmt.Sprintf("%s/null=%v", h.name, null)
					c1 := next()
					runCase(r, c1, att2, f9b, attCase{What: "signed-by-the-device-key-under-an-rsa-root:" + form, Expect: "accept", Alg: int(h.alg), KeyBits: dev.priv.N.BitLen(), Roots: hex.EncodeToString(rsaRoot.Raw)}, dev.signRaw(em(dev.k, t)), tbs)
					c2 := next()
					runCase(r, c2, att2, f9b, attCase{What: "signed-by-the-issuing-root's-key-instead-of-the-device-key:" + form, Expect: "reject", Alg: int(h.alg), KeyBits: dev.priv.N.BitLen(), Roots: hex.EncodeToString(rsaRoot.Raw)}, rootK.signRaw(em(rootK.k, t)), tbs)
				}
			}
		}
		sampled := 0
		for ki, d := range keys {
			bits := d.priv.N.BitLen()
			kc := r.CaseAlways("key", ki)
			for _, h := range hashes {
				for _, null := range []bool{true, false} {
					tbs := gen.Bytes(kc.Rand, 200+kc.Rand.Intn(300))
					digest := h.sum(tbs)
					t := append(append([]byte{}, h.prefix(null)...), digest...)
					good := em(d.k, t)
					form := fmt.Sprintf("%s/null=%v", h.name, null)
					if good == nil {
						continue
					}
					// cross-check the reference EM with the standard library (with-NULL form)
					sig := d.signRaw(good)
					if null {
						hh := map[string]crypto.Hash{"SHA1": crypto.SHA1, "SHA256": crypto.SHA256, "SHA384": crypto.SHA384, "SHA512": crypto.SHA512}[h.name]
						if err := rsa.VerifyPKCS1v15(&d.priv.PublicKey, hh, digest, sig); err != nil {
							r.Inconclusive("reference EM disagrees with crypto/rsa: " + err.Error())
							continue
						}
						r.Count("reference EM cross-checked with crypto/rsa", 1)
					}
					submit(d, d.f9, attCase{What: "correct:" + form, Expect: "accept", Alg: int(h.alg)}, good, sig, tbs)
					// a DigestInfo with more in it than the algorithm and the digest: further elements at the end of the
				// outer sequence or of the algorithm identifier, lengths adjusted so that the structure is well formed
				for xi, extra := range [][]byte{{0x05, 0x00}, {0x04, 0x03, 1, 2, 3}, {0x02, 0x01, 0x00}, {0x30, 0x00}, {0x0c, 0x01, 'x'}} {
					if int(t[1])+len(extra) > 0x7f {
						continue
					}
					tail := append(append([]byte{}, t...), extra...)
					tail[1] += byte(len(extra))
					if e := em(d.k, tail); e != nil {
						submit(d, d.f9, attCase{What: "digestinfo-with-further-element-at-the-end:" + form, Expect: "reject", Alg: int(h.alg), Position: xi}, e, nil, tbs)
					}
					if !null && xi == 0 {
						continue // a NULL after the identifier of the form without one IS the other accepted form
					}
					algEnd := 4 + int(t[3])
					inner := append(append(append([]byte{}, t[:algEnd]...), extra...), t[algEnd:]...)
					inner[1] += byte(len(extra))
					inner[3] += byte(len(extra))
					if e := em(d.k, inner); e != nil {
						submit(d, d.f9, attCase{What: "digestinfo-with-further-element-in-the-algorithm-identifier:" + form, Expect: "reject", Alg: int(h.alg), Position: xi}, e, nil, tbs)
					}
				}
				// every byte position replaced by 3 other values
					positions := make([]int, 0, d.k)
					if exhaustive[bits] {
						for i := 0; i < d.k; i++ {
							positions = append(positions, i)
						}
					} else {
						psEnd := d.k - len(t) - 1
						for i := 0; i < d.k; i++ {
							if i < 6 || i >= psEnd-6 {
								positions = append(positions, i)
							}
						}
						for j := 0; j < 64; j++ {
							positions = append(positions, 6+kc.Rand.Intn(psEnd-12))
						}
						sampled++
					}
					for _, pos := range positions {
						for _, x := range []byte{0x01, 0xff, 0x80} {
							bad := append([]byte{}, good...)
							bad[pos] ^= x
							submit(d, d.f9, attCase{What: "byte-replaced:" + form, Expect: "reject", Alg: int(h.alg), Position: pos}, bad, nil, tbs)
						}
					}
					// padding shortened, tail shifted left with trailing garbage / right with leading zeros
					for j := 1; j <= 8; j++ {
						left := append([]byte{}, good[:2]...)
						left = append(left, good[2+j:]...)
						left = append(left, gen.Bytes(kc.Rand, j)...)
						submit(d, d.f9, attCase{What: "padding-short-trailing-garbage:" + form, Expect: "reject", Alg: int(h.alg), Position: j}, left, nil, tbs)
						right := append(make([]byte, j), good[:d.k-j]...)
						submit(d, d.f9, attCase{What: "shifted-right:" + form, Expect: "reject", Alg: int(h.alg), Position: j}, right, nil, tbs)
						// padding replaced by zeros at its end (00 separator moved earlier)
						z := append([]byte{}, good...)
						for q := 0; q < j; q++ {
							z[d.k-len(t)-2-q] = 0
						}
						submit(d, d.f9, attCase{What: "separator-early:" + form, Expect: "reject", Alg: int(h.alg), Position: j}, z, nil, tbs)
					}
					// the genuine signature with octets in front of it (a longer signature field whose extra leading octets
					// are not zero): not the signature any more
					for _, pre := range [][]byte{{0x01}, {0xde, 0xad, 0xbe, 0xef}, {0x7f, 0, 0, 0}, {0xff}} {
						sg := append(append([]byte{}, pre...), d.signRaw(good)...)
						submit(d, d.f9, attCase{What: "genuine-signature-with-nonzero-octets-prepended:" + form, Expect: "reject", Alg: int(h.alg), Position: len(pre)}, good, sg, tbs)
					}
					// the encoded message WITHOUT its leading 00 (01 FF..FF 00 T filling all k octets), carried by a signature
					// field that is one octet longer (leading zero): a verifier that sizes EM by the signature length accepts it
					{
						noLead := append([]byte{0x01}, bytes.Repeat([]byte{0xff}, d.k-len(t)-2)...)
						noLead = append(append(noLead, 0x00), t...)
						if len(noLead) == d.k && new(big.Int).SetBytes(noLead).Cmp(d.priv.N) < 0 {
							sg := append([]byte{0}, d.signRaw(noLead)...)
							submit(d, d.f9, attCase{What: "no-leading-zero-em-with-longer-signature:" + form, Expect: "reject", Alg: int(h.alg)}, noLead, sg, tbs)
							submit(d, d.f9, attCase{What: "no-leading-zero-em:" + form, Expect: "reject", Alg: int(h.alg)}, noLead, nil, tbs)
						}
					}
					// minimal padding with garbage in the middle (classic low-exponent forgery shape)
					if d.k > len(t)+40 {
						g := append([]byte{0, 1, 0xff, 0xff, 0xff, 0xff, 0xff, 0xff, 0xff, 0xff, 0}, t...)
						g = append(g, gen.Bytes(kc.Rand, d.k-len(g))...)
						submit(d, d.f9, attCase{What: "short-padding-garbage-tail:" + form, Expect: "reject", Alg: int(h.alg)}, g, nil, tbs)
					}
					// DigestInfo of another hash under this label
					for _, o := range hashes {
						if o.name == h.name {
							continue
						}
						t2 := append(append([]byte{}, o.prefix(null)...), o.sum(tbs)...)
						if e2 := em(d.k, t2); e2 != nil {
							submit(d, d.f9, attCase{What: "other-hash-digestinfo:" + form, Expect: "reject", Alg: int(h.alg)}, e2, nil, tbs)
						}
					}
					// digest without any DigestInfo, and empty-parameter variants
					submit(d, d.f9, attCase{What: "bare-digest:" + form, Expect: "reject", Alg: int(h.alg)}, em(d.k, digest), nil, tbs)
					// single-bit flips of the signature
					nflip := d.k * 8
					step := 1
					if !exhaustive[bits] || !r.Thorough() && bits > 1100 {
						step = 37
					}
					if !null {
						step *= 5 // the signature flips are independent of the DigestInfo form; thin out the second form
					}
					for b := 0; b < nflip; b += step {
						s2 := append([]byte{}, sig...)
						s2[b/8] ^= 1 << uint(b%8)
						submit(d, d.f9, attCase{What: "signature-bit-flip:" + form, Expect: "reject", Alg: int(h.alg), Position: b}, nil, s2, tbs)
					}
					// single-bit flips of the body
					for b := 0; b < len(tbs)*8; b += 1 + kc.Rand.Intn(r.Pick(40, 6)) {
						t3 := append([]byte{}, tbs...)
						t3[b/8] ^= 1 << uint(b%8)
						submit(d, d.f9, attCase{What: "body-bit-flip:" + form, Expect: "reject", Alg: int(h.alg), Position: b}, nil, sig, t3)
					}
					submit(d, d.f9, attCase{What: "body-truncated:" + form, Expect: "reject", Alg: int(h.alg)}, nil, sig, tbs[:len(tbs)-1])
					submit(d, d.f9, attCase{What: "body-empty:" + form, Expect: "reject", Alg: int(h.alg)}, nil, sig, nil)
					submit(d, d.f9, attCase{What: "signature-empty:" + form, Expect: "reject", Alg: int(h.alg)}, nil, []byte{}, tbs)
					submit(d, d.f9, attCase{What: "signature-with-leading-zero-byte:" + form, Expect: "dontcare", Alg: int(h.alg)}, nil, append([]byte{0}, sig...), tbs)
					// every signature-algorithm label with this (valid for h) signature
					for alg := 0; alg <= 17; alg++ {
						a := x509.SignatureAlgorithm(alg)
						exp := "reject"
						switch {
						case a == h.alg:
							exp = "accept"
						case a == x509.DSAWithSHA1 || a == x509.DSAWithSHA256 || a == x509.ECDSAWithSHA1 || a == x509.ECDSAWithSHA256 || a == x509.ECDSAWithSHA384 || a == x509.ECDSAWithSHA512:
							exp = "dontcare"
						}
						submit(d, d.f9, attCase{What: fmt.Sprintf("label:%s-under-%d", form, alg), Expect: exp, Alg: alg}, nil, sig, tbs)
					}
					// MD5 DigestInfo under the MD5 label must be refused as insecure
					md5t := append([]byte{0x30, 0x20, 0x30, 0x0c, 0x06, 0x08, 0x2a, 0x86, 0x48, 0x86, 0xf7, 0x0d, 0x02, 0x05, 0x05, 0x00, 0x04, 0x10}, gen.Bytes(kc.Rand, 16)...)
					submit(d, d.f9, attCase{What: "md5:" + form, Expect: "reject", Alg: int(x509.MD5WithRSA)}, em(d.k, md5t), nil, tbs)
					submit(d, d.f9, attCase{What: "md2-label:" + form, Expect: "reject", Alg: int(x509.MD2WithRSA)}, em(d.k, md5t), nil, tbs)
					// ... also when the signature is a genuine MD5 signature of the body by the device key, in either
					// DigestInfo form (a certificate an old tool chain really made)
					sum := md5.Sum(tbs)
					md5good := append([]byte{0x30, 0x20, 0x30, 0x0c, 0x06, 0x08, 0x2a, 0x86, 0x48, 0x86, 0xf7, 0x0d, 0x02, 0x05, 0x05, 0x00, 0x04, 0x10}, sum[:]...)
					md5goodNoNull := append([]byte{0x30, 0x1e, 0x30, 0x0a, 0x06, 0x08, 0x2a, 0x86, 0x48, 0x86, 0xf7, 0x0d, 0x02, 0x05, 0x04, 0x10}, sum[:]...)
					for _, lbl := range []x509.SignatureAlgorithm{x509.MD5WithRSA, x509.MD2WithRSA} {
						submit(d, d.f9, attCase{What: fmt.Sprintf("genuine-md5-signature-under-label-%d:", int(lbl)) + form, Expect: "reject", Alg: int(lbl)}, em(d.k, md5good), nil, tbs)
						submit(d, d.f9, attCase{What: fmt.Sprintf("genuine-md5-signature-no-null-under-label-%d:", int(lbl)) + form, Expect: "reject", Alg: int(lbl)}, em(d.k, md5goodNoNull), nil, tbs)
					}
					// chain relations, each with the CORRECT signature
					chains := []struct {
						what   string
						mk     func() *x509.Certificate
						expect string
					}{
						{"chain-root-issued", func() *x509.Certificate { return d.f9 }, "accept"},
						{"chain-other-ca", func() *x509.Certificate {
							c, _ := p.issue(&d.priv.PublicKey, p.other, p.otherKey, now.Add(-48*time.Hour), now.Add(4800*time.Hour))
							return c
						}, "reject"},
						{"chain-lookalike-ca-same-issuer-and-serial", func() *x509.Certificate {
							c, _ := p.issueSerial(&d.priv.PublicKey, look, lookKey, now.Add(-48*time.Hour), now.Add(4800*time.Hour), d.f9.SerialNumber)
							return c
						}, "reject"},
						{"chain-other-ca-with-unknown-critical-extension", func() *x509.Certificate {
							c, _ := p.issueExt(&d.priv.PublicKey, p.other, p.otherKey, now.Add(-48*time.Hour), now.Add(4800*time.Hour), big.NewInt(77), unknownCritical)
							return c
						}, "reject"},
						{"chain-self-signed-with-unknown-critical-extension", func() *x509.Certificate {
							c, _ := p.issueExt(&d.priv.PublicKey, nil, d.priv, now.Add(-48*time.Hour), now.Add(4800*time.Hour), big.NewInt(78), unknownCritical)
							return c
						}, "reject"},
						{"chain-root-issued-with-unknown-critical-extension", func() *x509.Certificate {
							c, _ := p.issueExt(&d.priv.PublicKey, p.root, p.rootKey, now.Add(-48*time.Hour), now.Add(4800*time.Hour), big.NewInt(79), unknownCritical)
							return c
						}, "dontcare"},
						{"chain-self-signed", func() *x509.Certificate {
							c, _ := p.issue(&d.priv.PublicKey, nil, d.priv, now.Add(-48*time.Hour), now.Add(4800*time.Hour))
							return c
						}, "reject"},
						{"chain-expired", func() *x509.Certificate {
							c, _ := p.issue(&d.priv.PublicKey, p.root, p.rootKey, now.Add(-4800*time.Hour), now.Add(-24*time.Hour))
							return c
						}, "reject"},
						{"chain-not-yet-valid", func() *x509.Certificate {
							c, _ := p.issue(&d.priv.PublicKey, p.root, p.rootKey, now.Add(24*time.Hour), now.Add(4800*time.Hour))
							return c
						}, "reject"},
					}
					for _, ch := range chains {
						// slot certificate dated now, inside the device certificate's own window, and undated
						for _, nb := range []time.Time{{}, now.Add(-time.Hour), now.Add(-2400 * time.Hour), now.Add(48 * time.Hour)} {
							ac := attCase{What: ch.what + ":" + form, Expect: ch.expect, Alg: int(h.alg)}
							if !nb.IsZero() {
								ac.NotBefore, ac.NotAfter = nb.Unix(), nb.Add(8760*time.Hour).Unix()
							}
							submit(d, ch.mk(), ac, nil, sig, tbs)
						}
					}
				}
			}
			// non-RSA device key
			ek, _ := ecdsa.GenerateKey(elliptic.P256(), rand.Reader)
			ecF9, _ := p.issue(&ek.PublicKey, p.root, p.rootKey, now.Add(-48*time.Hour), now.Add(4800*time.Hour))
			tbs := gen.Bytes(kc.Rand, 100)
			dg := sha256.Sum256(tbs)
			esig, _ := ecdsa.SignASN1(rand.Reader, ek, dg[:])
			for _, alg := range []x509.SignatureAlgorithm{x509.ECDSAWithSHA256, x509.SHA256WithRSA} {
				submit(d, ecF9, attCase{What: fmt.Sprintf("ecdsa-device-key:label-%d", alg), Expect: "reject", Alg: int(alg)}, nil, esig, tbs)
			}
		}
		close(jobs)
		wk.Wait()
		if d := time.Until(lapse.Add(1200 * time.Millisecond)); d > 0 {
			time.Sleep(d)
		}
		lateLook("after", false, true)
		// two device keys with different public exponents attested at the same time from many goroutines: every genuine
		// signature is accepted and every signature made for the other exponent's arithmetic is refused, each time
		if mc := r.Case("mixed-exponents", 0); mc != nil {
			type job struct {
				d    *devKey
				sig  []byte
				want bool
			}
			tbs := gen.Bytes(mc.Rand, 256)
			digest := hashes[1].sum(tbs)
			var jobsM []job
			for _, d := range []*devKey{keys[0], keys[len(keys)-1]} {
				good := em(d.k, append(append([]byte{}, hashes[1].prefix(true)...), digest...))
				jobsM = append(jobsM, job{d, d.signRaw(good), true})
				// a value that is not a signature at all (the integer square root of the encoded message): refused whichever
				// exponent it is raised to
				jobsM = append(jobsM, job{d, new(big.Int).Sqrt(new(big.Int).SetBytes(good)).FillBytes(make([]byte, d.k)), false})
			}
			var bad atomic.Int64
			var firstBad atomic.Value
			var wgm sync.WaitGroup
			for w := 0; w < 16; w++ {
				wgm.Add(1)
				go func(w int) {
					defer wgm.Done()
					for i := 0; i < r.Pick(1500, 20000); i++ {
						j := jobsM[(w+i)%len(jobsM)]
						att := &x509.Certificate{SignatureAlgorithm: x509.SignatureAlgorithm(hashes[1].alg), RawTBSCertificate: tbs, Signature: j.sig}
						if err := p.attestor.Attest(j.d.f9, att); (err == nil) != j.want {
							bad.Add(1)
							firstBad.CompareAndSwap(nil, fmt.Sprintf("device key with e=%d, genuine signature=%v: err=%v", j.d.priv.E, j.want, err))
						}
					}
				}(w)
			}
			wgm.Wait()
			r.Eval(16 * r.Pick(1500, 20000))
			if n := bad.Load(); n > 0 {
				r.Violation(mc, "result-changes-under-concurrent-evaluation:Attest:mixed-exponents", fmt.Sprintf("%d of %d concurrent attestations came out differently from the same attestation made alone; first: %v", n, 16*r.Pick(1500, 20000), firstBad.Load()), nil)
			} else {
				r.Count("concurrent attestations over device keys with exponents 65537 and 3, all as when made alone", 16*r.Pick(1500, 20000))
				r.Nontrivial("mixed-exponents")
			}
		}
		r.Extra("keys_with_sampled_padding_positions", sampled)
		r.Sample(map[string]any{"family": "byte-replaced", "note": "EM = 00 01 FF..FF 00 DigestInfo digest with one byte XORed; signature = EM^d mod N; expected: reject"})
		r.Sample(map[string]any{"family": "correct", "hashes": []string{"SHA1", "SHA256", "SHA384", "SHA512"}, "forms": []string{"with NULL", "without NULL"}, "expected": "accept"})
		if r.Replay == nil {
			ring.Stress(r, r.CaseAlways("stress", 0), 8, 2)
		}
		r.Floor(int64(r.Pick(15000, 100000)), 5000)
	})
}

func replay(r *ev.Run) {
	var ac attCase
	if err := json.Unmarshal(r.Replay.Case, &ac); err != nil {
		r.Inconclusive("replay file has no case data: " + err.Error())
		return
	}
	dec := func(s string) []byte { b, _ := hex.DecodeString(s); return b }
	f9, err := x509.ParseCertificate(dec(ac.F9))
	if err != nil {
		r.Inconclusive("replay: device certificate: " + err.Error())
		return
	}
	root, err := x509.ParseCertificate(dec(ac.Roots))
	if err != nil {
		r.Inconclusive("replay: root certificate: " + err.Error())
		return
	}
	pool := x509.NewCertPool()
	pool.AddCert(root)
	att := yubiattest.NewAttestorWithCAPool(pool)
	if ac.HostTrust != "" {
		if dir, derr := os.MkdirTemp("", "roots"); derr == nil {
			defer os.RemoveAll(dir)
			w := func(name, h string) string {
				f := filepath.Join(dir, name)
				os.WriteFile(f, pem.EncodeToMemory(&pem.Block{Type: "CERTIFICATE", Bytes: dec(h)}), 0o600)
				return f
			}
			os.Mkdir(filepath.Join(dir, "empty"), 0o700)
			os.Setenv("SSL_CERT_FILE", w("host-trust.pem", ac.HostTrust))
			os.Setenv("SSL_CERT_DIR", filepath.Join(dir, "empty"))
			if a, aerr := yubiattest.NewAttestor(w("piv.pem", ac.Roots), w("u2f.pem", ac.Roots)); aerr == nil {
				att = a
			}
		}
	}
	runCase(r, r.CaseAlways(r.Replay.Family, r.Replay.Index), att, f9, ac, dec(ac.Sig), dec(ac.TBS))
}
