// C17 — CA endpoints are tried in order until one signs; exhaustion is an error.
package main

import (
	"context"
	"crypto/tls"
	"fmt"
	"math"
	"os"
	"os/exec"
	"path/filepath"
	"reflect"
	"strings"
	"sync"
	"sync/atomic"
	"time"

	"github.com/theparanoids/crypki/proto"
	"golang.org/x/crypto/ssh"
	"google.golang.org/grpc/codes"
	"google.golang.org/grpc/status"
	gproto "google.golang.org/protobuf/proto"

	"github.com/theparanoids/ysshra/config"
	"github.com/theparanoids/ysshra/crypki"
	"github.com/theparanoids/ysshra/internal/backoff"
	"github.com/theparanoids/ysshra/verifharness/lib/caserver"
	"github.com/theparanoids/ysshra/verifharness/lib/ev"
	"github.com/theparanoids/ysshra/verifharness/lib/gen"
)

type caseRec struct {
	Endpoints []string `json:"endpoints"`
	Kinds     []string `json:"per_endpoint_behaviour"`
	Result    string   `json:"result"`
	Contacted []string `json:"endpoints_that_received_the_request"`
}

// reply builds the key text a CA returns: n certificates with the given comment shapes.
// heldResult is what an earlier Sign call returned, with what it must still read.
type heldResult struct {
	comments  []string
	want      []string
	certs     []ssh.PublicKey
	wantBlobs []string
}

var held []heldResult

func reply(rng interface{ Intn(int) int }, n int) (text string, certs []ssh.PublicKey, comments []string) {
	now := uint64(time.Now().Unix())
	var sb strings.Builder
	for i := 0; i < n; i++ {
		k := gen.Pool()[rng.Intn(len(gen.Pool()))]
		spec := gen.CertSpec{Key: k, KeyID: fmt.Sprintf("kid-%d-%d", i, rng.Intn(1<<30)), ValidAfter: now - 10, ValidBefore: now + 100, Serial: uint64(rng.Intn(1 << 30))}
		switch rng.Intn(16) {
		case 0: // a certificate of any size: a long key id ...
			spec.KeyID += strings.Repeat("k", 50000+rng.Intn(150000))
		case 1: // ... or very many principals
			for p := 2000 + rng.Intn(6000); p > 0; p-- {
				spec.Principals = append(spec.Principals, fmt.Sprintf("host-%d.example.com", p))
			}
		}
		if i > 0 && rng.Intn(5) == 0 {
			// what a CA that does not number its certificates returns for one request: the same key, serial 0 and key id as the
			// previous certificate, other principals
			prev := certs[len(certs)-1].(*ssh.Certificate)
			for _, pk := range gen.Pool() {
				if string(pk.Pub.Marshal()) == string(prev.Key.Marshal()) {
					spec.Key = pk
				}
			}
			spec.KeyID, spec.Serial, spec.Principals = prev.KeyId, prev.Serial, []string{fmt.Sprintf("other-principal-%d", i)}
		}
		c := gen.MakeCert(spec)
		line := strings.TrimSuffix(string(ssh.MarshalAuthorizedKey(c)), "\n")
		comment := []string{"", "touch", "two words", "c" + fmt.Sprint(i), "ünï"}[rng.Intn(5)]
		if comment != "" {
			line += " " + comment
		}
		sb.WriteString(line + "\n")
		if rng.Intn(4) == 0 {
			sb.WriteString("\n# a comment line\n")
		}
		certs = append(certs, c)
		comments = append(comments, comment)
	}
	text = sb.String()
	// a reply need not end in a line feed (nor in exactly one)
	switch rng.Intn(5) {
	case 0:
		text = strings.TrimRight(text, "\n")
	case 1:
		text += "\n\n"
	}
	return text, certs, comments
}

func main() {
	ev.MainIsolated("C17", "fault_enumeration", 60*time.Minute, func(r *ev.Run) {
		r.Rule("four real gRPC/TLS signing servers on 127.0.0.2..5 share one port; for every endpoint list of length 0..4 (in natural and permuted order, empty given as nil and as []string{}) and every success/failure vector over it, each failing position takes one failure kind from {RPC status code (quick: Unavailable, Internal, DeadlineExceeded, Canceled; thorough: all 16 codes), empty key text, unparsable key text, server hangs until the per-try deadline, nobody listening}; successful positions return 1..4 certificates with comment shapes {none, word, two words, non-ASCII} and stray comment lines. Oracle from the servers' logs: the endpoints that received the request form a prefix of the configured order ending at the first success; the request each received is proto.Equal to the one passed; the result is that server's certificates in order with one comment per certificate; no success -> error (never nil certificates with a nil error). Retries (Retries 2..3, own servers, real backoff delays): a transient status (Unavailable, ResourceExhausted) is retried on the same endpoint, a non-retryable one is not; every attempt carries the unmodified request; later endpoints stay untouched when an earlier one finally answers; the observed delay between attempts stays below the configured maximum (with slack for load). Backoff: (*backoff.Config).Backoff sampled over attempts {0..70, 600..700, 2^16, 2^31, 2^32-1} x base {0, 1ns, 1ms, 2s, max} x multiplier {1, 1.0001, 1.6, 3, 1e6} x max {base..24h} x jitter {0, 0.2, 1}, 20 samples each: 0 <= d <= max*(1+jitter)+1ns. distinct_nontrivial = distinct (endpoint list, behaviour vector) signing calls judged + distinct backoff configurations x attempts within bounds")
		r.Assume("Retries: 1 (one attempt per endpoint) in the enumeration so that failures are instant; the sign-retries family uses 2..3", "loopback servers stand in for crypki")
		gen.Pool()
		func() {
			defer func() {
				if p := recover(); p != nil {
					if _, ok := p.(stopRun); !ok {
						panic(p)
					}
				}
			}()
			signing(r)
		}()
		if signHangs.Load() > 0 {
			return // the verdict is decided, and the evidence says what was observed until then
		}
		backoffs(r)
		r.Floor(int64(r.Pick(400, 5000)), int64(r.Pick(300, 1500)))
	})
}

func signing(r *ev.Run) {
	if !r.Want("sign") {
		return
	}
	dir, err := os.MkdirTemp("", "ca")
	if err != nil {
		r.Inconclusive(err.Error())
		return
	}
	defer os.RemoveAll(dir)
	ca := caserver.NewCA("verif crypki CA")
	caPath := filepath.Join(dir, "ca.pem")
	os.WriteFile(caPath, ca.PEM, 0o600)
	clientCert, clientKey := caserver.WritePEM(dir, "client", ca.Issue(caserver.Leaf{CN: "ra-client", Client: true}))
	ips := []string{"127.0.0.2", "127.0.0.3", "127.0.0.4", "127.0.0.5"}
	var confs []*tls.Config
	for _, ip := range ips {
		confs = append(confs, &tls.Config{Certificates: []tls.Certificate{ca.Issue(caserver.Leaf{CN: "crypki", IPs: []string{ip}})}, MinVersion: tls.VersionTLS12})
	}
	servers, port, err := caserver.StartGroup(ips, confs)
	if err != nil {
		r.Inconclusive("cannot start CA servers: " + err.Error())
		return
	}
	// the retry family waits out real backoff delays (~6 s each): it runs beside everything else, on servers of its own
	var rwg sync.WaitGroup
	rwg.Add(1)
	go func() { defer rwg.Done(); retries(r, ca, caPath, clientCert, clientKey) }()
	defer rwg.Wait()
	defer func() {
		for _, s := range servers {
			s.Stop()
		}
	}()
	byIP := map[string]*caserver.Server{}
	for _, s := range servers {
		byIP[s.IP] = s
	}
	failKinds := []string{"code:Unavailable", "code:Internal", "code:DeadlineExceeded", "code:Canceled", "empty-key", "unparsable-key"}
	if r.Thorough() {
		failKinds = nil
		for c := 1; c <= 16; c++ {
			failKinds = append(failKinds, "code:"+codes.Code(c).String())
		}
		failKinds = append(failKinds, "empty-key", "unparsable-key", "whitespace-key")
	}
	idx := 0
	one := func(list []string, kinds []string, nilList bool) {
		c := r.Case("sign", idx)
		idx++
		if c == nil {
			return
		}
		rec := caseRec{Endpoints: list, Kinds: kinds}
		type exp struct {
			certs    []ssh.PublicKey
			comments []string
		}
		expect := map[string]exp{}
		for _, s := range servers {
			s.Set(func(ctx context.Context, req *proto.SSHCertificateSigningRequest) (*proto.SSHKey, error) {
				return nil, status.Error(codes.FailedPrecondition, "endpoint not part of this case")
			})
		}
		for i, ip := range list {
			s := byIP[ip]
			k := kinds[i]
			switch {
			case k == "ok":
				text, certs, comments := reply(c.Rand, 1+c.Rand.Intn(4))
				expect[ip] = exp{certs, comments}
				s.Set(func(context.Context, *proto.SSHCertificateSigningRequest) (*proto.SSHKey, error) {
					return &proto.SSHKey{Key: text}, nil
				})
			case strings.HasPrefix(k, "code:"):
				var code codes.Code
				for cc := codes.Code(1); cc <= 16; cc++ {
					if cc.String() == k[5:] {
						code = cc
					}
				}
				s.Set(func(context.Context, *proto.SSHCertificateSigningRequest) (*proto.SSHKey, error) {
					return nil, status.Error(code, "scripted failure")
				})
			case k == "empty-key":
				s.Set(func(context.Context, *proto.SSHCertificateSigningRequest) (*proto.SSHKey, error) {
					return &proto.SSHKey{Key: ""}, nil
				})
			case k == "whitespace-key":
				s.Set(func(context.Context, *proto.SSHCertificateSigningRequest) (*proto.SSHKey, error) {
					return &proto.SSHKey{Key: " \n\t\n"}, nil
				})
			case k == "unparsable-key":
				s.Set(func(context.Context, *proto.SSHCertificateSigningRequest) (*proto.SSHKey, error) {
					if idx%2 == 1 {
						return &proto.SSHKey{Key: "ssh-ed25519-cert-v01@openssh.com AAAAnot-base64!!! x"}, nil // cut off: no line end
					}
					return &proto.SSHKey{Key: "ssh-ed25519-cert-v01@openssh.com AAAAnot-base64!!! x\nrubbish\n"}, nil
				})
			case k == "hang":
				s.Set(func(ctx context.Context, _ *proto.SSHCertificateSigningRequest) (*proto.SSHKey, error) {
					<-ctx.Done()
					return nil, ctx.Err()
				})
			}
		}
		eps := append([]string(nil), list...) // the configuration owns its endpoint list
		if len(list) == 0 && !nilList {
			eps = []string{}
		} else if len(list) == 0 {
			eps = nil
		}
		// "nobody listening": the endpoint is an address without a server
		for i, k := range kinds {
			if k == "refused" {
				eps = append([]string{}, eps...)
				eps[i] = "127.0.0.77"
			}
		}
		// generous per-try deadline so that a loaded machine cannot make a healthy server look dead; only the
		// cases with a hanging server pay for a (shorter) deadline
		perTry := 10 * time.Second
		for _, k := range kinds {
			if k == "hang" {
				perTry = 1500 * time.Millisecond
			}
		}
		conf := crypki.SignerConfig{TLSClientKeyFile: clientKey, TLSClientCertFile: clientCert, TLSCACertFiles: []string{caPath}, CrypkiEndpoints: eps, CrypkiPort: uint(port), Retries: 1, PerTryTimeout: perTry}
		r.Eval(1)
		epsBefore := append([]string(nil), eps...)
		if eps != nil && epsBefore == nil {
			epsBefore = []string{}
		}
		builtTwice := false
		var certs []ssh.PublicKey
		var comments []string
		var serr error
		var cerr error
		req := &proto.SSHCertificateSigningRequest{KeyMeta: &proto.KeyMeta{Identifier: "id-" + gen.Ident(c.Rand, 4)}, Principals: []string{"alice"}, PublicKey: "ssh-ed25519 AAAA", Validity: uint64(1 + c.Rand.Intn(100000)), KeyId: gen.Str(c.Rand, 30), Extensions: map[string]string{"permit-pty": ""}}
		// every member of the message, the rarely used ones included: the request is the caller's, whole
		switch idx % 4 {
		case 1:
			req.CriticalOptions = map[string]string{"force-command": "/usr/bin/true", "source-address": "10.0.0.0/8," + gen.IP(c.Rand) + "/32"}
			req.Principals = []string{"alice", "alice:touch", gen.Str(c.Rand, 12)}
		case 2:
			req.CriticalOptions = map[string]string{"touchless-sudo-hosts": "h1,h2"}
			req.Priority = proto.Priority(1 + c.Rand.Intn(3))
			req.KeyMeta = nil
		case 3:
			req.Extensions, req.Principals = nil, nil
			req.Priority = proto.Priority(c.Rand.Intn(4))
		}
		sent := gproto.Clone(req).(*proto.SSHCertificateSigningRequest)
		if guardSign(r, c, "Signer", rec, 60*time.Second, true, func() {
			var signer *crypki.Signer
			if idx%3 == 0 {
				// through the configuration map, as the gensign binary does
				var epl []any
				for _, e := range eps {
					epl = append(epl, e)
				}
				m := map[string]any{"tls_client_key_file": clientKey, "tls_client_cert_file": clientCert, "tls_ca_cert_files": []any{caPath}, "crypki_port": port, "retries": 1, "per_try_timeout": perTry.String()}
				if eps != nil {
					if epl == nil {
						epl = []any{}
					}
					m["crypki_endpoints"] = epl
				}
				signer, cerr = crypki.NewSignerWithGensignConf(config.GensignConfig{SignerConfig: m})
			} else {
				signer, cerr = crypki.NewSigner(conf)
				if cerr == nil && idx%4 == 1 {
					// a configuration value is good for any number of signers: the one used is the second built from it
					builtTwice = true
					signer, cerr = crypki.NewSigner(conf)
				}
			}
			if cerr != nil {
				return
			}
			ctx, cancel := context.WithTimeout(context.Background(), 60*time.Second)
			defer cancel()
			certs, comments, serr = signer.Sign(ctx, req)
		}) {
			return
		}
		firstOK := -1
		for i, k := range kinds {
			if k == "ok" {
				firstOK = i
				break
			}
		}
		sig := fmt.Sprintf("n=%d:%s", len(list), strings.Join(kinds, ","))
		if !reflect.DeepEqual(epsBefore, conf.CrypkiEndpoints) {
			// not a violation by itself (the property speaks of which endpoints are contacted); what it does
			// to a second signer built from the same value is judged by that signer's behaviour
			r.Count("NewSigner modified the endpoint list of the configuration value it was handed", 1)
		}
		if builtTwice {
			r.Count("signers built as the second one from the same configuration value", 1)
		}
		if cerr != nil {
			// refusing the configuration is an error result; acceptable only when no endpoint is configured
			if len(list) != 0 {
				r.Violation(c, "signer-construction-fails:"+sig, cerr.Error(), rec)
			} else {
				r.Count("empty endpoint list refused at construction", 1)
				r.Nontrivial(sig + fmt.Sprint(nilList))
			}
			return
		}
		rec.Result = fmt.Sprintf("certs=%d comments=%d err=%v", len(certs), len(comments), serr)
		// who was contacted
		for i, ip := range list {
			if kinds[i] == "refused" {
				continue
			}
			calls := byIP[ip].Calls()
			if len(calls) > 0 {
				rec.Contacted = append(rec.Contacted, ip)
			}
			for _, cl := range calls {
				if !gproto.Equal(cl.Req, sent) {
					r.Violation(c, "request-modified-in-transit", fmt.Sprintf("endpoint %s received %v, caller passed %v", ip, cl.Req, sent), rec)
					return
				}
			}
			// "without contacting later endpoints" holds below the RPC level too: no TLS handshake reaches an endpoint behind
			// the one that signed
			if firstOK >= 0 && i > firstOK && kinds[i] != "refused" {
				if hs := byIP[ip].Handshakes(); len(hs) > 0 {
					r.Violation(c, "later-endpoint-contacted:"+sig, fmt.Sprintf("endpoint #%d (%s) completed %d TLS handshake(s) although endpoint #%d had signed", i, ip, len(hs), firstOK), rec)
					return
				}
			}
			expectContact := firstOK < 0 || i <= firstOK
			if expectContact && len(calls) == 0 {
				r.Violation(c, "endpoint-skipped:"+sig, fmt.Sprintf("endpoint #%d (%s) never received the request although no earlier endpoint succeeded; %s", i, ip, rec.Result), rec)
				return
			}
			if !expectContact && len(calls) > 0 {
				r.Violation(c, "endpoint-contacted-after-success:"+sig, fmt.Sprintf("endpoint #%d (%s) received the request although endpoint #%d had succeeded", i, ip, firstOK), rec)
				return
			}
			if len(calls) > 1 {
				r.Violation(c, "endpoint-contacted-twice:"+sig, fmt.Sprintf("%s: %d calls with Retries=1", ip, len(calls)), rec)
				return
			}
		}
		// servers outside the list must never be contacted
		for _, s := range servers {
			in := false
			for _, ip := range list {
				if ip == s.IP {
					in = true
				}
			}
			if !in && len(s.Calls()) > 0 {
				r.Violation(c, "unconfigured-endpoint-contacted", s.IP, rec)
				return
			}
		}
		if firstOK < 0 {
			if serr == nil {
				r.Violation(c, fmt.Sprintf("empty-success:endpoints=%d", len(list)), fmt.Sprintf("no endpoint signed, yet Sign returned a nil error (%s)", rec.Result), rec)
				return
			}
			r.Count("exhaustion reported as an error", 1)
		} else {
			if serr != nil {
				r.Violation(c, "sign-fails-although-an-endpoint-signed:"+sig, serr.Error(), rec)
				return
			}
			e := expect[list[firstOK]]
			if len(certs) != len(e.certs) || len(comments) != len(certs) {
				r.Violation(c, "result-count-mismatch:"+sig, fmt.Sprintf("%d certificates, %d comments; the CA returned %d", len(certs), len(comments), len(e.certs)), rec)
				return
			}
			for i := range certs {
				if string(certs[i].Marshal()) != string(e.certs[i].Marshal()) {
					r.Violation(c, "result-not-the-first-successful-endpoints-certificates:"+sig, fmt.Sprintf("certificate %d differs", i), rec)
					return
				}
				if comments[i] != e.comments[i] {
					r.Violation(c, "comment-mismatch", fmt.Sprintf("%q vs %q", comments[i], e.comments[i]), rec)
					return
				}
			}
			r.Count("first successful endpoint's certificates returned in order", 1)
			// the caller keeps what it was handed; later signing calls (of this or another signer) leave it as it is
			h := heldResult{comments: comments, want: append([]string(nil), comments...), certs: certs}
			for _, pk := range certs {
				h.wantBlobs = append(h.wantBlobs, string(pk.Marshal()))
			}
			if len(held) < 6 {
				held = append(held, h)
			} else {
				held[idx%6] = h
			}
		}
		for _, h := range held {
			for i := range h.want {
				if h.comments[i] != h.want[i] || string(h.certs[i].Marshal()) != h.wantBlobs[i] {
					r.Violation(c, "result-changes-afterwards:sign", fmt.Sprintf("a result handed out by an earlier Sign call now reads comment %q / certificate changed=%v; it was %q", h.comments[i], string(h.certs[i].Marshal()) != h.wantBlobs[i], h.want[i]), rec)
					held = nil
					return
				}
			}
		}
		r.Nontrivial(sig + strings.Join(list, ","))
		if idx < 4 {
			r.Sample(rec)
		}
	}
	// empty lists
	one(nil, nil, true)
	one(nil, nil, false)
	// every vector over lists of length 1..4
	perms := [][]string{ips, {ips[3], ips[2], ips[1], ips[0]}, {ips[1], ips[3], ips[0], ips[2]}}
	for n := 1; n <= 4; n++ {
		for vec := 0; vec < 1<<uint(n); vec++ {
			for pi, perm := range perms {
				list := perm[:n]
				for rep := 0; rep < len(failKinds); rep++ {
					kinds := make([]string, n)
					hasFail := false
					for i := 0; i < n; i++ {
						if vec&(1<<uint(i)) != 0 {
							kinds[i] = "ok"
						} else {
							kinds[i] = failKinds[(rep+i*3+pi)%len(failKinds)]
							hasFail = true
						}
					}
					one(list, kinds, false)
					if !hasFail {
						break // all succeed: one case is enough
					}
					if !r.Thorough() && rep >= 1 && n >= 3 {
						break
					}
				}
			}
		}
	}
	// deadline and refused endpoints
	for _, k := range []string{"hang", "refused"} {
		one([]string{ips[0], ips[1]}, []string{k, "ok"}, false)
		one([]string{ips[0], ips[1], ips[2]}, []string{"code:Internal", k, "ok"}, false)
		if k == "refused" || r.Thorough() {
			one([]string{ips[0]}, []string{k}, false)
			one([]string{ips[2], ips[0]}, []string{k, k}, false)
		}
	}
	// the same Signer is used for several calls while the endpoints' health changes: every call starts from the first endpoint again
	for k := 0; k < r.Pick(12, 120); k++ {
		c := r.Case("sign-seq", k)
		if c == nil {
			continue
		}
		n := 2 + c.Rand.Intn(3)
		list := append([]string{}, perms[k%len(perms)][:n]...)
		conf := crypki.SignerConfig{TLSClientKeyFile: clientKey, TLSClientCertFile: clientCert, TLSCACertFiles: []string{caPath}, CrypkiEndpoints: list, CrypkiPort: uint(port), Retries: 1, PerTryTimeout: 10 * time.Second}
		signer, err := crypki.NewSigner(conf)
		if err != nil {
			r.Violation(c, "signer-construction-fails:sequence", err.Error(), nil)
			continue
		}
		var hist []string
		for call := 0; call < 4; call++ {
			vec := make([]bool, n)
			firstOK := -1
			for i := range vec {
				vec[i] = c.Rand.Intn(2) == 0
				if call == 0 {
					vec[i] = i > 0 // first call: the first endpoint is down, the rest healthy
				}
				if call == 1 {
					vec[i] = true // then everything recovers
				}
				if vec[i] && firstOK < 0 {
					firstOK = i
				}
			}
			texts := make([]string, n)
			for i, ip := range list {
				ok := vec[i]
				text, _, _ := reply(c.Rand, 1)
				texts[i] = text
				byIP[ip].Set(func(context.Context, *proto.SSHCertificateSigningRequest) (*proto.SSHKey, error) {
					if ok {
						return &proto.SSHKey{Key: text}, nil
					}
					return nil, status.Error(codes.Unavailable, "down")
				})
			}
			r.Eval(1)
			ctx, cancel := context.WithTimeout(context.Background(), 20*time.Second)
			certs, _, serr := signer.Sign(ctx, &proto.SSHCertificateSigningRequest{KeyMeta: &proto.KeyMeta{Identifier: "x"}, Principals: []string{"a"}, PublicKey: "k", Validity: 60})
			cancel()
			hist = append(hist, fmt.Sprintf("call %d health=%v -> certs=%d err=%v", call, vec, len(certs), serr))
			rec := map[string]any{"endpoints": list, "history": hist}
			bad := false
			for i, ip := range list {
				got := len(byIP[ip].Calls())
				want := 0
				if firstOK < 0 || i <= firstOK {
					want = 1
				}
				if got != want {
					r.Violation(c, fmt.Sprintf("order-not-restarted-on-later-call:call=%d", call), fmt.Sprintf("endpoint #%d received %d requests, expected %d; history: %v", i, got, want, hist), rec)
					bad = true
					break
				}
			}
			if bad {
				break
			}
			if firstOK >= 0 {
				want, _, _, _, _ := ssh.ParseAuthorizedKey([]byte(texts[firstOK]))
				if serr != nil || len(certs) != 1 || string(certs[0].Marshal()) != string(want.Marshal()) {
					r.Violation(c, "later-call-returns-wrong-endpoints-certificates", fmt.Sprintf("history: %v", hist), rec)
					break
				}
			} else if serr == nil {
				r.Violation(c, "empty-success:sequence", fmt.Sprintf("history: %v", hist), rec)
				break
			}
			r.Count("calls on a reused signer judged", 1)
		}
		r.Nontrivial(fmt.Sprintf("seq:%v:%v", list, hist))
	}
	// the same endpoint configured twice: every occurrence is tried in order
	if c := r.Case("sign-duplicate-endpoints", 0); c != nil {
		for variant, first := range []bool{false, true} {
			list := []string{ips[0], ips[0], ips[1]}
			calls := 0
			text0, _, _ := reply(c.Rand, 2)
			byIP[ips[0]].Set(func(context.Context, *proto.SSHCertificateSigningRequest) (*proto.SSHKey, error) {
				calls++
				if first || calls >= 2 {
					return &proto.SSHKey{Key: text0}, nil
				}
				return nil, status.Error(codes.Unavailable, "first attempt fails")
			})
			byIP[ips[1]].Set(func(context.Context, *proto.SSHCertificateSigningRequest) (*proto.SSHKey, error) {
				return nil, status.Error(codes.Internal, "must not be needed")
			})
			signer, err := crypki.NewSigner(crypki.SignerConfig{TLSClientKeyFile: clientKey, TLSClientCertFile: clientCert, TLSCACertFiles: []string{caPath}, CrypkiEndpoints: list, CrypkiPort: uint(port), Retries: 1, PerTryTimeout: 10 * time.Second})
			if err != nil {
				continue
			}
			ctx, cancel := context.WithTimeout(context.Background(), 60*time.Second)
			r.Eval(1)
			certs, comments, serr := signer.Sign(ctx, &proto.SSHCertificateSigningRequest{KeyMeta: &proto.KeyMeta{Identifier: "x"}, Principals: []string{"a"}, PublicKey: "k", Validity: 60})
			cancel()
			wantCalls := map[bool]int{true: 1, false: 2}[first]
			if serr != nil || len(certs) != 2 || len(comments) != 2 || len(byIP[ips[0]].Calls()) != wantCalls || len(byIP[ips[1]].Calls()) != 0 {
				r.Violation(c, fmt.Sprintf("duplicate-endpoint-list-mishandled:variant=%d", variant), fmt.Sprintf("endpoints %v: err=%v certs=%d; first address saw %d requests (expected %d), the other %d (expected 0)", list, serr, len(certs), len(byIP[ips[0]].Calls()), wantCalls, len(byIP[ips[1]].Calls())), nil)
			} else {
				r.Count("duplicate endpoint lists judged", 1)
			}
		}
	}
	// a caller context that is already cancelled / past its deadline when Sign is entered: an error, never an empty success
	for k, mode := range []string{"cancelled", "expired"} {
		c := r.Case("sign-finished-context", k)
		if c == nil {
			continue
		}
		for _, ip := range ips {
			text, _, _ := reply(c.Rand, 1)
			byIP[ip].Set(func(context.Context, *proto.SSHCertificateSigningRequest) (*proto.SSHKey, error) {
				return &proto.SSHKey{Key: text}, nil
			})
		}
		for n := 1; n <= 3; n++ {
			signer, err := crypki.NewSigner(crypki.SignerConfig{TLSClientKeyFile: clientKey, TLSClientCertFile: clientCert, TLSCACertFiles: []string{caPath}, CrypkiEndpoints: ips[:n], CrypkiPort: uint(port), Retries: 1, PerTryTimeout: 10 * time.Second})
			if err != nil {
				continue
			}
			ctx, cancel := context.WithCancel(context.Background())
			if mode == "expired" {
				cancel()
				ctx, cancel = context.WithDeadline(context.Background(), time.Now().Add(-time.Second))
			}
			cancel()
			r.Eval(1)
			certs, comments, serr := signer.Sign(ctx, &proto.SSHCertificateSigningRequest{KeyMeta: &proto.KeyMeta{Identifier: "x"}, Principals: []string{"a"}, PublicKey: "k", Validity: 60})
			if serr == nil && len(certs) == 0 {
				r.Violation(c, "empty-success:finished-context:"+mode, fmt.Sprintf("%d endpoints, context %s before the call: certs=%v comments=%v err=nil", n, mode, certs, comments), nil)
				break
			}
			r.Count("finished caller context -> error (or a genuine result)", 1)
			r.Nontrivial(fmt.Sprintf("finished-context:%s:%d", mode, n))
		}
	}
	// endpoints that cannot even be dialled (a zone-scoped IPv6 literal whose '%' makes an invalid URL escape, an empty
	// name, a name with a space): failed endpoints like any other, never a crash; the healthy one after them signs
	for bi, badEP := range []string{"fe80::1%eth0", "", "bad host", "[::1", "127.0.0.1:1:2", "%zz"} {
		c := r.Case("sign-undiallable-endpoint", bi)
		if c == nil {
			continue
		}
		text, want, _ := reply(c.Rand, 1)
		byIP[ips[0]].Set(func(context.Context, *proto.SSHCertificateSigningRequest) (*proto.SSHKey, error) {
			return &proto.SSHKey{Key: text}, nil
		})
		for _, list := range [][]string{{badEP, ips[0]}, {badEP}} {
			rec := map[string]any{"endpoints": list}
			r.Eval(1)
			var certs []ssh.PublicKey
			var serr, cerr error
			if guardSign(r, c, "Signer with an undiallable endpoint", rec, 60*time.Second, true, func() {
				var signer *crypki.Signer
				signer, cerr = crypki.NewSigner(crypki.SignerConfig{TLSClientKeyFile: clientKey, TLSClientCertFile: clientCert, TLSCACertFiles: []string{caPath}, CrypkiEndpoints: list, CrypkiPort: uint(port), Retries: 1, PerTryTimeout: 3 * time.Second})
				if cerr != nil {
					return
				}
				ctx, cancel := context.WithTimeout(context.Background(), 60*time.Second)
				defer cancel()
				certs, _, serr = signer.Sign(ctx, &proto.SSHCertificateSigningRequest{KeyMeta: &proto.KeyMeta{Identifier: "x"}, Principals: []string{"a"}, PublicKey: "k", Validity: 60})
			}) {
				break
			}
			switch {
			case cerr != nil:
				r.Count("undiallable endpoint refused at construction", 1)
			case len(list) == 2 && (serr != nil || len(certs) != len(want) || string(certs[0].Marshal()) != string(want[0].Marshal())):
				r.Violation(c, "sign-fails-although-an-endpoint-signed:undiallable-first-endpoint", fmt.Sprintf("endpoints %q: err=%v certs=%d", list, serr, len(certs)), rec)
			case len(list) == 1 && serr == nil:
				r.Violation(c, "empty-success:undiallable-endpoint", fmt.Sprintf("endpoints %q: certs=%d", list, len(certs)), rec)
			default:
				r.Count("undiallable endpoints treated as failed endpoints", 1)
				r.Nontrivial(fmt.Sprintf("undiallable:%q:%d", badEP, len(list)))
			}
		}
	}
	// a caller's deadline that leaves room for the second endpoint after the first used up its per-try time
	if c := r.Case("sign-tight-deadline", 0); c != nil {
		byIP[ips[0]].Set(func(ctx context.Context, _ *proto.SSHCertificateSigningRequest) (*proto.SSHKey, error) {
			<-ctx.Done()
			return nil, ctx.Err()
		})
		text, want, _ := reply(c.Rand, 1)
		byIP[ips[1]].Set(func(context.Context, *proto.SSHCertificateSigningRequest) (*proto.SSHKey, error) {
			return &proto.SSHKey{Key: text}, nil
		})
		r.Eval(1)
		signer, err := crypki.NewSigner(crypki.SignerConfig{TLSClientKeyFile: clientKey, TLSClientCertFile: clientCert, TLSCACertFiles: []string{caPath}, CrypkiEndpoints: []string{ips[0], ips[1]}, CrypkiPort: uint(port), Retries: 1, PerTryTimeout: 2500 * time.Millisecond})
		if err == nil {
			ctx, cancel := context.WithTimeout(context.Background(), 4*time.Second)
			t0 := time.Now()
			certs, _, serr := signer.Sign(ctx, &proto.SSHCertificateSigningRequest{KeyMeta: &proto.KeyMeta{Identifier: "x"}, Principals: []string{"a"}, PublicKey: "k", Validity: 60})
			took := time.Since(t0)
			cancel()
			switch {
			case took > 3700*time.Millisecond:
				r.Count("tight deadline: the machine was too slow to leave the second endpoint any time (not judged)", 1)
			case serr != nil || len(certs) != len(want):
				r.Violation(c, "sign-fails-although-an-endpoint-signed:tight-deadline", fmt.Sprintf("caller deadline 4 s, per-try time 2.5 s, first endpoint hangs, second is healthy: err=%v after %s; the second endpoint received %d requests", serr, took.Round(time.Millisecond), len(byIP[ips[1]].Calls())), nil)
			default:
				r.Count("failover within the caller's deadline after the first endpoint used up its per-try time", 1)
				r.Nontrivial("tight-deadline")
			}
		}
	}
	// an endpoint whose well-formed reply holds public keys but not a single certificate: whatever Sign makes of it
	// (the keys as they are, or the next endpoint's certificates, or an error), it is never a success without anything
	for pi, two := range []bool{false, true} {
		c := r.Case("sign-plain-keys", pi)
		if c == nil {
			continue
		}
		var lines []string
		for i := 0; i < 1+pi; i++ {
			lines = append(lines, strings.TrimSpace(string(ssh.MarshalAuthorizedKey(gen.Pool()[i].Pub)))+" plain"+fmt.Sprint(i))
		}
		plain := strings.Join(lines, "\n") + "\n"
		byIP[ips[0]].Set(func(context.Context, *proto.SSHCertificateSigningRequest) (*proto.SSHKey, error) {
			return &proto.SSHKey{Key: plain}, nil
		})
		text, want, _ := reply(c.Rand, 2)
		byIP[ips[1]].Set(func(context.Context, *proto.SSHCertificateSigningRequest) (*proto.SSHKey, error) {
			return &proto.SSHKey{Key: text}, nil
		})
		list := []string{ips[0]}
		if two {
			list = append(list, ips[1])
		}
		r.Eval(1)
		signer, err := crypki.NewSigner(crypki.SignerConfig{TLSClientKeyFile: clientKey, TLSClientCertFile: clientCert, TLSCACertFiles: []string{caPath}, CrypkiEndpoints: list, CrypkiPort: uint(port), Retries: 1, PerTryTimeout: 10 * time.Second})
		if err != nil {
			continue
		}
		ctx, cancel := context.WithTimeout(context.Background(), 60*time.Second)
		certs, comments, serr := signer.Sign(ctx, &proto.SSHCertificateSigningRequest{KeyMeta: &proto.KeyMeta{Identifier: "x"}, Principals: []string{"a"}, PublicKey: "k", Validity: 60})
		cancel()
		rec := map[string]any{"endpoints": len(list), "first_endpoint_reply": plain, "result": fmt.Sprintf("certs=%d comments=%d err=%v", len(certs), len(comments), serr)}
		switch {
		case serr == nil && len(certs) == 0:
			r.Violation(c, fmt.Sprintf("empty-success:reply-without-certificates:endpoints=%d", len(list)), fmt.Sprintf("the first endpoint answered with %d plain public keys and no certificate; Sign returned no error and nothing (the second endpoint received %d requests)", 1+pi, len(byIP[ips[1]].Calls())), rec)
			continue
		case serr == nil && len(certs) == len(want) && string(certs[0].Marshal()) == string(want[0].Marshal()):
			r.Count("reply without certificates -> next endpoint's certificates", 1)
		case serr == nil:
			r.Count("reply without certificates -> its keys returned as they are", 1)
		default:
			r.Count("reply without certificates -> error", 1)
		}
		r.Nontrivial(fmt.Sprintf("plain-keys:%v", two))
	}
	// default retry configuration (Retries and PerTryTimeout left unset or partly set): a hanging first endpoint must not
	// eat the caller's whole deadline. Costs ~10 s of retries and backoff (the only slow case of this check).
	{
		if c := r.Case("sign-defaults", 0); c != nil {
			list := []string{ips[0], ips[1]}
			byIP[ips[0]].Set(func(ctx context.Context, _ *proto.SSHCertificateSigningRequest) (*proto.SSHKey, error) {
				<-ctx.Done()
				return nil, ctx.Err()
			})
			text, _, _ := reply(c.Rand, 1)
			byIP[ips[1]].Set(func(context.Context, *proto.SSHCertificateSigningRequest) (*proto.SSHKey, error) {
				return &proto.SSHKey{Key: text}, nil
			})
			r.Eval(1)
			signer, err := crypki.NewSigner(crypki.SignerConfig{TLSClientKeyFile: clientKey, TLSClientCertFile: clientCert, TLSCACertFiles: []string{caPath}, CrypkiEndpoints: list, CrypkiPort: uint(port), PerTryTimeout: 400 * time.Millisecond})
			if err == nil {
				ctx, cancel := context.WithTimeout(context.Background(), 90*time.Second)
				certs, _, serr := signer.Sign(ctx, &proto.SSHCertificateSigningRequest{KeyMeta: &proto.KeyMeta{Identifier: "x"}, Principals: []string{"a"}, PublicKey: "k", Validity: 60})
				cancel()
				if serr != nil || len(certs) != 1 || len(byIP[ips[1]].Calls()) != 1 {
					r.Violation(c, "hanging-endpoint-blocks-failover-with-default-retries", fmt.Sprintf("err=%v certs=%d; second endpoint received %d requests", serr, len(certs), len(byIP[ips[1]].Calls())), nil)
				} else {
					r.Count("failover past a hanging endpoint with default retry settings", 1)
				}
			}
		}
	}
	// unusual but accepted per-try timeouts (negative = "not set"): healthy endpoints must still be asked, in order.
	// large but valid settings: years per try, hundreds of millions of retries (nothing is multiplied out of range)
	for vi, lg := range []struct {
		pt      time.Duration
		retries uint
	}{{876000 * time.Hour, 3}, {5 * time.Second, 700000000}, {1<<63 - 1, 2}, {time.Hour, 1 << 31}} {
		c := r.Case("sign-large-settings", vi)
		if c == nil {
			continue
		}
		text, want, _ := reply(c.Rand, 1)
		for _, ip := range ips {
			byIP[ip].Set(func(context.Context, *proto.SSHCertificateSigningRequest) (*proto.SSHKey, error) {
				return &proto.SSHKey{Key: text}, nil
			})
		}
		r.Eval(1)
		signer, err := crypki.NewSigner(crypki.SignerConfig{TLSClientKeyFile: clientKey, TLSClientCertFile: clientCert, TLSCACertFiles: []string{caPath}, CrypkiEndpoints: []string{ips[0], ips[1]}, CrypkiPort: uint(port), Retries: lg.retries, PerTryTimeout: lg.pt})
		if err != nil {
			r.Count("large settings refused by NewSigner", 1)
			continue
		}
		ctx, cancel := context.WithTimeout(context.Background(), 60*time.Second)
		certs, _, serr := signer.Sign(ctx, &proto.SSHCertificateSigningRequest{KeyMeta: &proto.KeyMeta{Identifier: "x"}, Principals: []string{"a"}, PublicKey: "k", Validity: 60})
		cancel()
		if serr != nil || len(certs) != 1 || string(certs[0].Marshal()) != string(want[0].Marshal()) || len(byIP[ips[0]].Calls()) != 1 || len(byIP[ips[1]].Calls()) != 0 {
			r.Violation(c, "healthy-first-endpoint-not-used:large-settings", fmt.Sprintf("per_try_timeout=%v retries=%d: err=%v certs=%d; endpoints received %d and %d requests", lg.pt, lg.retries, serr, len(certs), len(byIP[ips[0]].Calls()), len(byIP[ips[1]].Calls())), nil)
		} else {
			r.Count("large retry settings -> first healthy endpoint signs", 1)
		}
		r.Nontrivial(fmt.Sprintf("large-settings:%d", vi))
	}
	for vi, pt := range []time.Duration{-time.Second, -1, -1 << 62} {
		c := r.Case("sign-odd-per-try", vi)
		if c == nil {
			continue
		}
		text, want, _ := reply(c.Rand, 1)
		for _, ip := range ips {
			byIP[ip].Set(func(context.Context, *proto.SSHCertificateSigningRequest) (*proto.SSHKey, error) {
				return &proto.SSHKey{Key: text}, nil
			})
		}
		r.Eval(1)
		signer, err := crypki.NewSigner(crypki.SignerConfig{TLSClientKeyFile: clientKey, TLSClientCertFile: clientCert, TLSCACertFiles: []string{caPath}, CrypkiEndpoints: []string{ips[0], ips[1]}, CrypkiPort: uint(port), Retries: 1, PerTryTimeout: pt})
		if err != nil {
			r.Count("odd per-try timeout refused by NewSigner", 1)
			continue
		}
		ctx, cancel := context.WithTimeout(context.Background(), 60*time.Second)
		certs, _, serr := signer.Sign(ctx, &proto.SSHCertificateSigningRequest{KeyMeta: &proto.KeyMeta{Identifier: "x"}, Principals: []string{"a"}, PublicKey: "k", Validity: 60})
		cancel()
		if serr != nil || len(certs) != 1 || string(certs[0].Marshal()) != string(want[0].Marshal()) || len(byIP[ips[0]].Calls()) != 1 || len(byIP[ips[1]].Calls()) != 0 {
			r.Violation(c, "healthy-first-endpoint-not-used", fmt.Sprintf("per_try_timeout=%v err=%v certs=%d; endpoints received %d and %d requests", pt, serr, len(certs), len(byIP[ips[0]].Calls()), len(byIP[ips[1]].Calls())), nil)
		} else {
			r.Count("negative per-try timeout -> first healthy endpoint signs", 1)
		}
		r.Nontrivial(fmt.Sprintf("odd-per-try:%v", pt))
	}
	// endpoints given as IPv6 literals (in brackets, the form a host:port target needs): alone, and as the endpoint to
	// fall back to
	if v6, verr := caserver.Start("[::1]", port, &tls.Config{Certificates: []tls.Certificate{ca.Issue(caserver.Leaf{CN: "crypki", IPs: []string{"::1"}})}, MinVersion: tls.VersionTLS12}); verr != nil {
		r.Count("IPv6 endpoint cases skipped: cannot listen on [::1]", 1)
	} else {
		defer v6.Stop()
		for vi, list := range [][]string{{"[::1]"}, {ips[0], "[::1]"}, {"[::1]", ips[1]}} {
			c := r.Case("sign-ipv6-endpoint", vi)
			if c == nil {
				continue
			}
			text, want, _ := reply(c.Rand, 2)
			v6.Set(func(context.Context, *proto.SSHCertificateSigningRequest) (*proto.SSHKey, error) {
				return &proto.SSHKey{Key: text}, nil
			})
			byIP[ips[0]].Set(func(context.Context, *proto.SSHCertificateSigningRequest) (*proto.SSHKey, error) {
				return nil, status.Error(codes.Unavailable, "scripted failure")
			})
			byIP[ips[1]].Set(func(context.Context, *proto.SSHCertificateSigningRequest) (*proto.SSHKey, error) {
				return nil, status.Error(codes.Internal, "must not be asked")
			})
			r.Eval(1)
			signer, err := crypki.NewSigner(crypki.SignerConfig{TLSClientKeyFile: clientKey, TLSClientCertFile: clientCert, TLSCACertFiles: []string{caPath}, CrypkiEndpoints: append([]string(nil), list...), CrypkiPort: uint(port), Retries: 1, PerTryTimeout: 10 * time.Second})
			if err != nil {
				r.Violation(c, "signer-construction-fails:ipv6-endpoint", err.Error(), list)
				continue
			}
			ctx, cancel := context.WithTimeout(context.Background(), 60*time.Second)
			certs, _, serr := signer.Sign(ctx, &proto.SSHCertificateSigningRequest{KeyMeta: &proto.KeyMeta{Identifier: "x"}, Principals: []string{"a"}, PublicKey: "k", Validity: 60})
			cancel()
			if serr != nil || len(certs) != len(want) || len(v6.Calls()) != 1 || len(byIP[ips[1]].Calls()) != 0 {
				r.Violation(c, "healthy-ipv6-endpoint-not-used", fmt.Sprintf("endpoints %v: err=%v certs=%d; the IPv6 endpoint received %d requests, the endpoint after it %d", list, serr, len(certs), len(v6.Calls()), len(byIP[ips[1]].Calls())), list)
			} else {
				r.Count("endpoint lists with a bracketed IPv6 literal: that endpoint signs", 1)
			}
			r.Nontrivial(fmt.Sprintf("ipv6:%d", vi))
		}
	}
	r.Extra("signing_cases", idx)
}

// retries: more than one attempt per endpoint. A transient failure of an endpoint is retried on THAT endpoint (after
// the backoff delay) before the next one is tried; the request is the same on every attempt; later endpoints stay
// untouched when an earlier one finally answers.
func retries(r *ev.Run, ca *caserver.CA, caPath, clientCert, clientKey string) {
	type rcase struct {
		name      string
		retries   uint
		failFirst []int      // per endpoint: how many leading calls fail
		code      codes.Code // with this status
		wantFrom  int        // index of the endpoint whose certificates are returned (-1: error)
		slow      time.Duration // the first endpoint thinks this long before it answers (inside the per-try time-out)
	}
	cases := []rcase{
		{"transient-then-ok", 2, []int{1, 0}, codes.Unavailable, 0, 0},
		{"exhausted-then-next", 2, []int{99, 0}, codes.Unavailable, 1, 0},
		{"resource-exhausted-then-ok", 3, []int{1, 0}, codes.ResourceExhausted, 0, 0},
		{"non-retryable-then-next", 3, []int{99, 0}, codes.Internal, 1, 0},
		{"all-exhausted", 2, []int{99, 99}, codes.Unavailable, -1, 0},
		// an endpoint that is slow but inside the per-try time-out has answered: nothing else is contacted
		{"slow-then-answers", 1, []int{0, 0}, codes.Unavailable, 0, 3500 * time.Millisecond},
		{"slower-then-answers", 2, []int{0, 0}, codes.Unavailable, 0, 9 * time.Second},
	}
	var wg sync.WaitGroup
	for ci, rc := range cases {
		c := r.Case("sign-retries", ci)
		if c == nil {
			continue
		}
		wg.Add(1)
		go func(ci int, rc rcase) {
			defer wg.Done()
			ips := []string{fmt.Sprintf("127.0.1.%d", 10+2*ci), fmt.Sprintf("127.0.1.%d", 11+2*ci)}
			var confs []*tls.Config
			for _, ip := range ips {
				confs = append(confs, &tls.Config{Certificates: []tls.Certificate{ca.Issue(caserver.Leaf{CN: "crypki", IPs: []string{ip}})}, MinVersion: tls.VersionTLS12})
			}
			servers, port, err := caserver.StartGroup(ips, confs)
			if err != nil {
				r.Count("retry cases skipped: cannot start servers", 1)
				return
			}
			defer func() {
				for _, s := range servers {
					s.Stop()
				}
			}()
			var expect [][]ssh.PublicKey
			for k, s := range servers {
				text, certs, _ := reply(c.Rand, 1+k)
				expect = append(expect, certs)
				var n atomic.Int32
				fails := int32(rc.failFirst[k])
				wait := time.Duration(0)
				if k == 0 {
					wait = rc.slow
				}
				s.Set(func(ctx context.Context, _ *proto.SSHCertificateSigningRequest) (*proto.SSHKey, error) {
					if n.Add(1) <= fails {
						return nil, status.Error(rc.code, "scripted transient failure")
					}
					if wait > 0 {
						select {
						case <-time.After(wait):
						case <-ctx.Done():
							return nil, ctx.Err()
						}
					}
					return &proto.SSHKey{Key: text}, nil
				})
			}
			req := &proto.SSHCertificateSigningRequest{KeyMeta: &proto.KeyMeta{Identifier: "id-retry"}, Principals: []string{"alice"}, PublicKey: "ssh-ed25519 AAAA", Validity: 77, KeyId: "retry " + rc.name, Extensions: map[string]string{"permit-pty": ""}}
			sent := gproto.Clone(req).(*proto.SSHCertificateSigningRequest)
			rec := map[string]any{"case": rc.name, "retries": rc.retries, "leading_failures_per_endpoint": rc.failFirst, "status": rc.code.String()}
			r.Eval(1)
			var certs []ssh.PublicKey
			var serr error
			if guardSign(r, c, "Signer with retries", rec, 4*time.Minute, false, func() {
				signer, err := crypki.NewSigner(crypki.SignerConfig{TLSClientKeyFile: clientKey, TLSClientCertFile: clientCert, TLSCACertFiles: []string{caPath}, CrypkiEndpoints: ips, CrypkiPort: uint(port), Retries: rc.retries, PerTryTimeout: 20 * time.Second})
				if err != nil {
					serr = err
					return
				}
				ctx, cancel := context.WithTimeout(context.Background(), 4*time.Minute)
				defer cancel()
				certs, _, serr = signer.Sign(ctx, req)
			}) {
				return
			}
			calls := [][]caserver.Call{servers[0].Calls(), servers[1].Calls()}
			rec["calls_per_endpoint"] = []int{len(calls[0]), len(calls[1])}
			rec["result"] = fmt.Sprintf("certs=%d err=%v", len(certs), serr)
			for k := range calls {
				for _, cl := range calls[k] {
					if !gproto.Equal(cl.Req, sent) {
						r.Violation(c, "request-modified-on-retry:"+rc.name, fmt.Sprintf("endpoint #%d received %v, caller passed %v", k, cl.Req, sent), rec)
						return
					}
				}
				for i := 1; i < len(calls[k]); i++ {
					gap := calls[k][i].At.Sub(calls[k][i-1].At)
					r.Count("retry delays observed", 1)
					// configured maximum 15 s enlarged by jitter 0.2 = 18 s; generous slack for a loaded machine
					if gap > 60*time.Second {
						r.Violation(c, "retry-delay-above-maximum:"+rc.name, fmt.Sprintf("endpoint #%d: %s between attempts %d and %d", k, gap, i, i+1), rec)
						return
					}
				}
			}
			if len(calls[0]) == 0 {
				r.Violation(c, "endpoint-skipped:retries:"+rc.name, "the first endpoint never received the request", rec)
				return
			}
			switch rc.wantFrom {
			case 0:
				if len(calls[1]) != 0 {
					r.Violation(c, "later-endpoint-contacted-although-earlier-one-answered:"+rc.name, fmt.Sprintf("second endpoint received %d requests", len(calls[1])), rec)
					return
				}
			case 1, -1:
				if len(calls[1]) == 0 {
					r.Violation(c, "endpoint-skipped:retries:"+rc.name, "the second endpoint never received the request although the first never answered successfully", rec)
					return
				}
			}
			if rc.wantFrom < 0 {
				if serr == nil {
					r.Violation(c, "success-although-every-endpoint-failed:"+rc.name, fmt.Sprintf("certs=%d", len(certs)), rec)
					return
				}
			} else {
				if serr != nil {
					r.Violation(c, "sign-fails-although-an-endpoint-signed:retries:"+rc.name, serr.Error(), rec)
					return
				}
				want := expect[rc.wantFrom]
				if len(certs) != len(want) {
					r.Violation(c, "result-not-from-first-successful-endpoint:"+rc.name, fmt.Sprintf("%d certificates, endpoint #%d returned %d", len(certs), rc.wantFrom, len(want)), rec)
					return
				}
				for i := range want {
					if string(certs[i].Marshal()) != string(want[i].Marshal()) {
						r.Violation(c, "result-not-from-first-successful-endpoint:"+rc.name, fmt.Sprintf("certificate %d differs", i), rec)
						return
					}
				}
			}
			r.Count("signing calls with several attempts per endpoint judged", 1)
			r.Nontrivial("retries:" + rc.name)
		}(ci, rc)
	}
	wg.Wait()
}

func backoffs(r *ev.Run) {
	if !r.Want("backoff") {
		return
	}
	attempts := []uint{}
	for a := uint(0); a <= 70; a++ {
		attempts = append(attempts, a)
	}
	for a := uint(600); a <= 700; a += 5 {
		attempts = append(attempts, a)
	}
	attempts = append(attempts, 1<<16, 1<<31, 1<<32-1, 1024, 1075, 2000)
	day := 24 * time.Hour
	type cfg struct {
		base, max time.Duration
		mult, jit float64
	}
	var cfgs []cfg
	cfgs = append(cfgs, cfg{backoff.DefaultConfig.BaseDelay, backoff.DefaultConfig.MaxDelay, backoff.DefaultConfig.Multiplier, backoff.DefaultConfig.Jitter})
	for _, mx := range []time.Duration{0, 1, time.Millisecond, 2 * time.Second, 15 * time.Second, day, 2500 * time.Microsecond, 700 * time.Microsecond, 10*time.Second + 600*time.Microsecond, 999999 * time.Nanosecond, 1500 * time.Nanosecond} {
		for _, base := range []time.Duration{0, 1, time.Millisecond, 2 * time.Second, mx} {
			if base > mx {
				continue
			}
			for _, m := range []float64{1, 1.0001, 1.6, 3, 1e6} {
				for _, j := range []float64{0, 0.2, 1} {
					cfgs = append(cfgs, cfg{base, mx, m, j})
				}
			}
		}
	}
	idx := 0
	for ci, cf := range cfgs {
		c := r.Case("backoff", ci)
		if c == nil {
			continue
		}
		bc := &backoff.Config{BaseDelay: cf.base, Multiplier: cf.mult, MaxDelay: cf.max, Jitter: cf.jit}
		limit := time.Duration(math.Ceil(float64(cf.max)*(1+cf.jit))) + 1
		okAll := true
		for _, a := range attempts {
			for s := 0; s < r.Pick(5, 20); s++ {
				r.Eval(1)
				idx++
				var d time.Duration
				if r.Guard(c, "Backoff", map[string]any{"config": fmt.Sprintf("%+v", *bc), "attempt": a}, func() { d = bc.Backoff(a) }) {
					okAll = false
					break
				}
				if d < 0 || d > limit {
					r.Violation(c, fmt.Sprintf("backoff-out-of-bounds:base=%d:mult=%g", cf.base, cf.mult), fmt.Sprintf("Backoff(%d) = %s with %+v; allowed [0, %s]", a, d, *bc, limit), map[string]any{"config": fmt.Sprintf("%+v", *bc), "attempt": a, "delay_ns": int64(d)})
					okAll = false
					break
				}
			}
			if !okAll {
				break
			}
		}
		if okAll {
			r.Nontrivial(fmt.Sprintf("backoff:%+v", cf))
			r.Count("backoff configurations within bounds over all attempts", 1)
		}
	}
	r.Extra("backoff_samples", idx)
	// every signer's retries share the default configuration: its delays are computed from several goroutines at once
	if c := r.Case("backoff-concurrent", 0); c != nil {
		r.Eval(1)
		var wg sync.WaitGroup
		var bad atomic.Int64
		shared := &backoff.Config{BaseDelay: time.Second, Multiplier: 1.6, MaxDelay: 30 * time.Second, Jitter: 0.2}
		n := r.Pick(150000, 1500000)
		for g := 0; g < 8; g++ {
			wg.Add(1)
			go func(g int) {
				defer wg.Done()
				defer func() {
					if p := recover(); p != nil {
						if bad.Add(1) == 1 {
							r.Violation(c, "panic:Backoff:concurrent-use", fmt.Sprintf("Backoff called from 8 goroutines at once panicked: %v", p), nil)
						}
					}
				}()
				for i := 0; i < n; i++ {
					for _, bc := range []*backoff.Config{&backoff.DefaultConfig, shared} {
						d := bc.Backoff(uint(i % 9))
						if lim := time.Duration(float64(bc.MaxDelay)*(1+bc.Jitter)) + 1; d < 0 || d > lim {
							if bad.Add(1) == 1 {
								r.Violation(c, "backoff-out-of-bounds:concurrent-use", fmt.Sprintf("Backoff(%d) = %s computed beside seven other goroutines; allowed [0, %s]", i%9, d, lim), nil)
							}
							return
						}
					}
				}
			}(g)
		}
		wg.Wait()
		if bad.Load() == 0 {
			r.Count("delays computed from eight goroutines at once, all within bounds", 16*n)
			r.Nontrivial("backoff-concurrent")
		}
		// the same under the race detector: a corrupted shared generator shows up above only when two
		// goroutines hit the same few instructions together, an unsynchronised access shows up here always
		if bin := os.Getenv("VERIF_C17_RACEBIN"); bin != "" {
			r.Eval(1)
			dir, err := os.MkdirTemp("", "c17race")
			if err != nil {
				r.Inconclusive("no scratch directory for the race-instrumented part of backoff-concurrent: " + err.Error())
			} else {
				defer os.RemoveAll(dir)
				ctx, cancel := context.WithTimeout(context.Background(), 10*time.Minute)
				cmd := exec.CommandContext(ctx, bin, fmt.Sprint(r.Pick(20000, 200000)))
				cmd.Env = append(os.Environ(), "GORACE=halt_on_error=0 log_path="+filepath.Join(dir, "race"))
				out, err := cmd.CombinedOutput()
				timedOut := ctx.Err() == context.DeadlineExceeded
				cancel()
				sigs, blocks := ev.RaceReports(dir)
				r.Extra("backoff_race_part", map[string]any{"output": strings.TrimSpace(string(out)), "race_report_blocks": blocks, "race_signatures_in_repository_code": sigs})
				switch {
				case len(sigs) > 0:
					for _, sg := range sigs {
						r.Violation(c, "race:"+sg, "Backoff called from eight goroutines at once (race-instrumented build):\n"+ev.RaceText(dir, sg), nil)
					}
				case timedOut:
					r.Inconclusive("the race-instrumented part of backoff-concurrent did not end within ten minutes")
				case err != nil && !strings.Contains(string(out), "calls="):
					r.Violation(c, "panic:Backoff:concurrent-use:race-build", fmt.Sprintf("the race-instrumented part died: %v\n%s", err, tailOf(string(out))), nil)
				case strings.Contains(string(out), "panics=0") && strings.Contains(string(out), "out_of_bounds=0"):
					r.Count("race-instrumented runs of the shared delay function without a report", 1)
					r.Nontrivial("backoff-concurrent:race-detector")
				default:
					r.Violation(c, "backoff-out-of-bounds:concurrent-use:race-build", "the race-instrumented part reports: "+tailOf(string(out)), nil)
				}
			}
		} else {
			r.Extra("backoff_race_part", "not run: VERIF_C17_RACEBIN is not set (bin/check sets it)")
		}
	}
}

func tailOf(s string) string {
	if len(s) > 3000 {
		return "…" + s[len(s)-3000:]
	}
	return s
}

// signHangs counts signing calls that did not return.
var signHangs atomic.Int32

// stopRun ends the run after a signing call that never returned: its goroutine stays behind and keeps a processor
// busy, which is no state to judge timing in, and one such call decides the verdict.
type stopRun struct{}

// guardSign is Guard with a bound: every signing call below carries a context with the given deadline, so a call that
// has not returned well after that deadline never will (bounded progress: deadline plus 30 s of slack).
func guardSign(r *ev.Run, c *ev.Case, what string, rec any, ctxDeadline time.Duration, mainGoroutine bool, f func()) bool {
	if signHangs.Load() > 0 {
		r.Count("signing cases skipped after a call that never returned", 1)
		return true
	}
	slack := 30 * time.Second
	if os.Getenv("VERIF_OP_TIMEOUT_S") != "" {
		slack = ev.OpTimeout()
	}
	panicked, hung := r.GuardWithin(c, what, rec, ctxDeadline+slack, f)
	if hung {
		signHangs.Add(1)
		r.Violation(c, "sign-never-returns:"+what, fmt.Sprintf("the call had not returned %s after it was made, its context's deadline being %s; goroutines inside the repository:\n%s", ctxDeadline+slack, ctxDeadline, ev.RepoStacks(3000)), rec)
		if mainGoroutine {
			panic(stopRun{})
		}
	}
	return panicked || hung
}
