package main

import (
	"bytes"
	"errors"
	"fmt"
	"io"
	"time"

	"golang.org/x/crypto/ssh"
	"golang.org/x/crypto/ssh/agent"

	"github.com/theparanoids/ysshra/agent/shimagent"
	"github.com/theparanoids/ysshra/verifharness/lib/ev"
	"github.com/theparanoids/ysshra/verifharness/lib/gen"
	sh "github.com/theparanoids/ysshra/verifharness/lib/shimhist"
	"github.com/theparanoids/ysshra/verifharness/lib/wire"
)

// opaqueKey is an identity of an algorithm the RA's SSH library does not implement: a type name and a blob.
type opaqueKey struct {
	typ  string
	blob []byte
}

func (k opaqueKey) Type() string                                 { return k.typ }
func (k opaqueKey) Marshal() []byte                              { return k.blob }
func (k opaqueKey) Verify(data []byte, sig *ssh.Signature) error { return errors.New("opaque key") }

type opaqueSigner struct{ k opaqueKey }

func (s opaqueSigner) PublicKey() ssh.PublicKey { return s.k }
func (s opaqueSigner) Sign(io.Reader, []byte) (*ssh.Signature, error) {
	return &ssh.Signature{Format: s.k.typ, Blob: []byte("opaque signature")}, nil
}

// exoticIdentities: the underlying agent holds identities of algorithms the RA's SSH library cannot parse — plain keys
// and certificates (their type name says "cert") of a post-quantum or future algorithm. The shim knows nothing about
// them and neither loses nor alters them: they are listed with unchanged blobs in both modes, beside everything else,
// and a sign request naming one reaches the underlying agent.
func exoticIdentities(r *ev.Run) {
	types := []string{"ssh-xmss-cert-v01@openssh.com", "ssh-xmss@openssh.com", "ssh-mldsa65-cert-v01@example.com", "webauthn-sk-ecdsa-sha2-nistp256@openssh.com", "cert", "x-cert-y"}
	idx := 0
	for _, noUp := range []bool{false, true} {
		for _, typ := range types {
			c := r.Case("exotic-identity", idx)
			idx++
			if c == nil {
				continue
			}
			rec := map[string]any{"no_upstream": noUp, "identity_type": typ}
			r.Eval(1)
			r.Guard(c, "exotic identity", rec, func() {
				ag := wire.New()
				defer ag.Close()
				sock, err := ag.Listen()
				if err != nil {
					r.Inconclusive(err.Error())
					return
				}
				pool := gen.Pool()
				k1 := pool[idx%len(pool)]
				blob := ssh.Marshal(struct {
					T string
					B []byte
				}{typ, gen.Bytes(c.Rand, 40+c.Rand.Intn(200))})
				ex := opaqueSigner{opaqueKey{typ, blob}}
				ag.Keyring.Add(agent.AddedKey{PrivateKey: k1.Priv, Comment: "k1"})
				ag.Keyring.Add(agent.AddedKey{PrivateKey: ex, Comment: "exotic"})
				inner, err := shimagent.New(shimagent.Option{Address: sock, NoUpstream: noUp})
				if err != nil {
					r.Violation(c, "shim-construction-fails-without-fault", err.Error(), rec)
					return
				}
				hung := false
				s := &sh.Guarded{Inner: inner, OnHang: func(op string) { hung = true; ag.Close() }}
				defer func() {
					if !hung {
						s.Close()
					}
				}()
				for round := 0; round < 2; round++ {
					l, err := s.List()
					if hung {
						r.Violation(c, "operation-does-not-return:list", "", rec)
						return
					}
					if err != nil {
						r.Violation(c, "list-fails-without-fault", err.Error(), rec)
						return
					}
					found := 0
					for _, x := range l {
						if bytes.Equal(x.Blob, blob) && x.Format == typ {
							found++
						}
					}
					if found != 1 || len(l) != 2 {
						r.Violation(c, "underlying-identity-not-listed:exotic", fmt.Sprintf("an identity of type %q held by the underlying agent is listed %d times (listing of %d identities, expected 2)", typ, found, len(l)), rec)
						return
					}
					sg, err := s.Signers()
					if err != nil || len(sg) != 2 {
						// x/crypto's client builds a signer per listed identity, whatever its type
						r.Violation(c, "signers-differ-from-listing:exotic", fmt.Sprintf("%d signers, err=%v", len(sg), err), rec)
						return
					}
				}
				n0 := ag.NumRequests()
				sig, err := s.Sign(ex.k, []byte("data"))
				if err != nil || sig == nil || string(sig.Blob) != "opaque signature" || ag.NumRequests() == n0 {
					r.Violation(c, "sign-with-held-identity-fails:exotic", fmt.Sprintf("err=%v; %d requests reached the underlying agent", err, ag.NumRequests()-n0), rec)
					return
				}
				if err := s.Remove(ex.k); err != nil {
					r.Violation(c, "remove-of-held-identity-fails:exotic", err.Error(), rec)
					return
				}
				if l, err := s.List(); err != nil || len(l) != 1 {
					r.Violation(c, "removed-identity-still-listed:exotic", fmt.Sprintf("%d identities, err=%v", len(l), err), rec)
					return
				}
				r.Count("identities of algorithms unknown to the RA listed, signed with and removed like any other", 1)
				r.Nontrivial(fmt.Sprintf("exotic:%v:%s", noUp, typ))
			})
		}
	}
}

// idleAfterForward: a relayed request (one that takes the underlying agent a few seconds to answer, and an ordinary one),
// then nothing for longer than any sensible exchange time-out, then ordinary use. The relayed replies come back whole,
// and nothing armed for them outlives them: listing, signing, adding and removing work as on the first day.
func idleAfterForward(r *ev.Run) {
	c := r.Case("idle-after-forward", 0)
	if c == nil {
		return
	}
	r.Eval(1)
	r.Guard(c, "forward, idle, use", nil, func() {
		ag := wire.New()
		defer ag.Close()
		sock, err := ag.Listen()
		if err != nil {
			r.Inconclusive(err.Error())
			return
		}
		k := gen.Pool()[3]
		ag.Keyring.Add(agent.AddedKey{PrivateKey: k.Priv, Comment: "k"})
		inner, err := shimagent.New(shimagent.Option{Address: sock})
		if err != nil {
			r.Violation(c, "shim-construction-fails-without-fault", err.Error(), nil)
			return
		}
		hung := false
		s := &sh.Guarded{Inner: inner, OnHang: func(op string) { hung = true; ag.Close() }}
		slow := append([]byte{200}, []byte("answered-after-3.6-seconds")...)
		ag.SetPlan(func(_ int, req []byte) wire.Action {
			if bytes.Equal(req, slow) {
				return wire.Action{Kind: wire.Honest, Delay: 3600 * time.Millisecond}
			}
			return wire.Action{Kind: wire.Honest}
		})
		bad := func(sig, detail string) { r.Violation(c, sig+":idle-after-forward", detail, nil) }
		if resp, err := s.Forward(slow); err != nil || !bytes.Equal(resp, slow) {
			bad("forward-fails-without-fault", fmt.Sprintf("a relayed request answered after 3.6 s: err=%v, %d reply bytes", err, len(resp)))
			return
		}
		quick := append([]byte{200}, []byte("answered-at-once")...)
		if resp, err := s.Forward(quick); err != nil || !bytes.Equal(resp, quick) {
			bad("forward-reply-bytes-altered", fmt.Sprintf("the relayed request after the slow one: err=%v, reply %q", err, resp))
			return
		}
		// identities added through the shim with certificates of very long (finite) validity: added as they are, they
		// are still there after the pause
		now := uint64(time.Now().Unix())
		longLived := 0
		for i, vb := range []uint64{now + 1<<32 + 2, now + 1<<33, now + 1<<40, 1<<63 - 1} {
			kk := gen.Pool()[5+i]
			crt := gen.MakeCert(gen.CertSpec{Key: kk, KeyID: fmt.Sprintf("valid-until-%d", vb), ValidAfter: now - 600, ValidBefore: vb, Principals: []string{"u"}})
			if err := s.Add(agent.AddedKey{PrivateKey: kk.Priv, Certificate: crt, Comment: "long-lived"}); err != nil {
				bad("add-fails-without-fault", err.Error())
				return
			}
			longLived++
		}
		time.Sleep(5600 * time.Millisecond)
		if hung {
			bad("operation-does-not-return", "")
			return
		}
		l, err := s.List()
		if err != nil || len(l) != 1+longLived {
			bad("list-fails-without-fault", fmt.Sprintf("5.6 s after the last relayed request and after %d identities with certificates valid for 2^32 s and more were added: %d identities listed (expected %d), err=%v", longLived, len(l), 1+longLived, err))
			return
		}
		data := []byte("after the idle period")
		if sig, err := s.Sign(k.Pub, data); err != nil || k.Pub.Verify(data, sig) != nil {
			bad("sign-with-held-identity-fails", fmt.Sprintf("err=%v", err))
			return
		}
		k2 := gen.Pool()[4]
		if err := s.Add(agent.AddedKey{PrivateKey: k2.Priv, Comment: "k2"}); err != nil {
			bad("add-fails-without-fault", err.Error())
			return
		}
		if err := s.Remove(k2.Pub); err != nil {
			bad("remove-of-held-identity-fails", err.Error())
			return
		}
		s.Close()
		r.Count("shims used again 5.6 s after relayed requests (one of them answered after 3.6 s)", 1)
		r.Nontrivial("idle-after-forward")
	})
}
