// C10 — hardware certificates are bound to a held key; everything else passes through intact.
package main

import (
	"bytes"
	"fmt"
	"net"
	"os"
	"path/filepath"
	"sync"
	"time"

	"golang.org/x/crypto/ssh"
	"golang.org/x/crypto/ssh/agent"

	"github.com/theparanoids/ysshra/agent/shimagent"
	"github.com/theparanoids/ysshra/verifharness/lib/ev"
	"github.com/theparanoids/ysshra/verifharness/lib/gen"
	sh "github.com/theparanoids/ysshra/verifharness/lib/shimhist"
	"github.com/theparanoids/ysshra/verifharness/lib/wire"
)

func main() {
	ev.MainIsolated("C10", "exploration", 40*time.Minute, func(r *ev.Run) {
		r.Rule("(1) seeded model-checked histories over plain keys (RSA, ECDSA P-256/384/521, Ed25519), certificates and hardware certificates with raw forwards, a quarter of them with the underlying agent writing its replies in fragments; (2) fault enumeration: for scripted pilot histories, every fault kind {failure reply, garbage reply, well-formed reply of the wrong message type, oversized frame, truncated frame, connection closed} at every upstream request index, in both modes; (3) construction against agents that close, fail, answer garbage/oversized/truncated, and a missing socket, in both modes; (4) raw forwards of every code 0..255 x body lengths {1, 2, 64, 64 KiB} and 16 MiB / 16 MiB+1 for three codes. distinct_nontrivial = distinct histories with a hardware certificate accepted or a raw relay compared + distinct (pilot, request index, fault kind) runs + distinct raw (code, length) relays")
		r.Assume("a fault is a reply the x/crypto client cannot take for a success; raw forwards relay failure/garbage replies verbatim (not faults)", "after an oversized or truncated frame the scripted agent closes the connection (the stream is out of sync)")
		gen.Pool()
		// waits of several seconds: beside everything else
		var iwg sync.WaitGroup
		iwg.Add(1)
		go func() { defer iwg.Done(); idleAfterForward(r) }()
		defer iwg.Wait()
		n := r.Pick(500, 8000)
		st := sh.Batch(r, "C10", "hist", n, 8, func(c *ev.Case, i int) sh.Config {
			cfg := sh.Config{NoUpstream: i%2 == 1, Steps: 8 + c.Rand.Intn(30), Windows: []int{sh.WCurrent, sh.WCurrent, sh.WForever, sh.WCurrent, sh.WPast}, KIDs: []string{"touch", "text", "touchless", "touch-extreme", "inagent"}, Preload: i%2 == 0, Forward: true, DirectLock: i%11 == 0, LockOps: i%5 == 2, // a fifth of the histories lock and unlock too: raw requests are relayed whatever the lock state
				Weights: map[string]int{"add-hard-cert": 14, "sign": 12, "forward": 6, "direct-add": 8, "remove": 6, "nil-keys": 1, "signers": 9}}
			if i%4 == 0 {
				cfg.FragmentPct = 50
			}
			return cfg
		}, func(e *sh.Engine, _ sh.Stats, st sh.Stats) bool {
			return st.Forwarded > 0 || st.Ops["add-hard-cert"] > 0
		})
		sh.Report(r, st)
		faults(r)
		construction(r)
		rawBodies(r)
		exoticIdentities(r)
		r.Floor(int64(r.Pick(1000, 10000)), int64(r.Pick(300, 5000)))
	})
}

// ---------------------------------------------------------------------------

type step struct {
	name string
	// run performs the operation; it returns the error of the operation and
	// whether a nil error is acceptable although one of its upstream exchanges was faulted.
	run func(s shimagent.ShimAgent) error
}

type pilot struct {
	keys  []*gen.Key
	hard  *ssh.Certificate // hardware certificate over keys[0]
	hard2 *ssh.Certificate
	cert  *ssh.Certificate // ordinary certificate over keys[1]
	steps []step
}

func mkPilot(c *ev.Case, variant int) *pilot {
	pool := gen.Pool()
	perm := c.Rand.Perm(len(pool))
	p := &pilot{keys: []*gen.Key{pool[perm[0]], pool[perm[1]], pool[perm[2]]}}
	now := uint64(time.Now().Unix())
	mk := func(k *gen.Key, kid string) *ssh.Certificate {
		return gen.MakeCert(gen.CertSpec{Key: k, KeyID: kid, ValidAfter: now - 3600, ValidBefore: now + 3600, Principals: []string{"u"}, Serial: uint64(c.Rand.Int63())})
	}
	p.hard = mk(p.keys[0], gen.YSSHCAKeyID(gen.KeyIDSpec{HW: true, Touch: 3, TransID: "t1", Prins: []string{"u"}}))
	p.hard2 = mk(p.keys[0], gen.YSSHCAKeyID(gen.KeyIDSpec{HW: true, Touch: 1, TransID: "t2", Prins: []string{"u"}}))
	p.cert = mk(p.keys[1], "user@host")
	add := func(name string, k *gen.Key, cert *ssh.Certificate) step {
		return step{name, func(s shimagent.ShimAgent) error {
			return s.Add(agent.AddedKey{PrivateKey: k.Priv, Certificate: cert, Comment: name})
		}}
	}
	sign := func(name string, key ssh.PublicKey) step {
		return step{name, func(s shimagent.ShimAgent) error { _, err := s.Sign(key, []byte("data-"+name)); return err }}
	}
	list := step{"list", func(s shimagent.ShimAgent) error { _, err := s.List(); return err }}
	signers := step{"signers", func(s shimagent.ShimAgent) error { _, err := s.Signers(); return err }}
	hc := func(name string, c *ssh.Certificate) step {
		return step{name, func(s shimagent.ShimAgent) error { return s.AddHardCert(c, "x") }}
	}
	fwd := step{"forward", func(s shimagent.ShimAgent) error { _, err := s.Forward([]byte{200, 1, 2, 3}); return err }}
	ext := step{"extension", func(s shimagent.ShimAgent) error { _, err := s.Extension("echo@verif", []byte("Tag")); return err }}
	lock := step{"lock", func(s shimagent.ShimAgent) error { return s.Lock([]byte("pw")) }}
	unlock := step{"unlock", func(s shimagent.ShimAgent) error { return s.Unlock([]byte("pw")) }}
	rm := func(name string, key ssh.PublicKey) step {
		return step{name, func(s shimagent.ShimAgent) error { return s.Remove(key) }}
	}
	rmAll := step{"remove-all", func(s shimagent.ShimAgent) error { return s.RemoveAll() }}
	expired := gen.MakeCert(gen.CertSpec{Key: p.keys[1], KeyID: "expired@x", ValidAfter: now - 7200, ValidBefore: now - 3600, Principals: []string{"u"}, Serial: uint64(c.Rand.Int63())})
	switch variant % 6 {
	case 5:
		// a certificate the RA issued for a key that is not on a hardware token sits in the underlying agent (hidden
		// in the mode without upstream certificates, and noted as such by the listing); it is removed through the shim
		issued := mk(p.keys[1], gen.YSSHCAKeyID(gen.KeyIDSpec{Touch: 1, TransID: "t3", Prins: []string{"u"}}))
		p.steps = []step{add("add-key0", p.keys[0], nil), add("add-issued-cert1", p.keys[1], issued), list, signers, rm("remove-issued-cert1", issued), list, add("add-issued-cert1-again", p.keys[1], issued), rm("remove-issued-cert1-unlisted", issued), list}
	case 4:
		// an out-of-window certificate reaches the underlying agent; every later listing has to purge it (an extra remove request to fault)
		p.steps = []step{add("add-key0", p.keys[0], nil), hc("add-hard-cert", p.hard), add("add-expired-cert1", p.keys[1], expired), list, add("add-expired-cert1-again", p.keys[1], expired), signers, add("add-expired-cert1-third", p.keys[1], expired), sign("sign-hard", p.hard), list}
	case 0:
		p.steps = []step{add("add-key0", p.keys[0], nil), hc("add-hard-cert", p.hard), list, sign("sign-hard", p.hard), signers, add("add-cert1", p.keys[1], p.cert), sign("sign-cert1", p.cert), fwd, ext, list}
	case 1:
		p.steps = []step{add("add-key0", p.keys[0], nil), add("add-key2", p.keys[2], nil), hc("add-hard-cert", p.hard), hc("add-hard-cert-2", p.hard2), lock, unlock, list, rm("remove-key2", p.keys[2].Pub), sign("sign-hard2", p.hard2), signers, fwd}
	case 2:
		p.steps = []step{add("add-key0", p.keys[0], nil), hc("add-hard-cert", p.hard), sign("sign-key0", p.keys[0].Pub), add("add-cert1", p.keys[1], p.cert), signers, list, rm("remove-cert1", p.cert), list, ext, fwd, sign("sign-hard", p.hard)}
	default:
		p.steps = []step{add("add-key0", p.keys[0], nil), hc("add-hard-cert", p.hard), list, add("add-key1", p.keys[1], nil), rmAll, add("add-key0-again", p.keys[0], nil), hc("add-hard-cert-again", p.hard), signers, sign("sign-hard", p.hard)}
	}
	return p
}

type faultRec struct {
	Pilot   int      `json:"pilot"`
	Mode    string   `json:"mode"`
	ReqIdx  int      `json:"upstream_request_index"`
	Kind    string   `json:"fault"`
	Step    string   `json:"faulted_step"`
	Results []string `json:"results"`
}

func runPilot(r *ev.Run, c *ev.Case, p *pilot, noUp bool, plan wire.Plan) (results []error, reqAt []int, ag *wire.Agent, s shimagent.ShimAgent, ok bool) {
	ag = wire.New()
	sock, err := ag.Listen()
	if err != nil {
		r.Inconclusive("listen: " + err.Error())
		return nil, nil, nil, nil, false
	}
	inner, err := shimagent.New(shimagent.Option{Address: sock, NoUpstream: noUp})
	if err != nil {
		ag.Close()
		r.Violation(c, "shim-construction-fails-without-fault", err.Error(), nil)
		return nil, nil, nil, nil, false
	}
	s = &sh.Guarded{Inner: inner, OnHang: func(op string) {
		r.Violation(c, "operation-does-not-return:"+op, "a shim operation never returned during a scripted pilot history", nil)
		ag.Close()
	}}
	ag.ResetLog()
	ag.SetPlan(plan)
	for _, st := range p.steps {
		reqAt = append(reqAt, ag.NumRequests())
		results = append(results, st.run(s))
	}
	reqAt = append(reqAt, ag.NumRequests())
	return results, reqAt, ag, s, true
}

func faults(r *ev.Run) {
	if !r.Want("fault") {
		return
	}
	npil := r.Pick(6, 25)
	idx := 0
	kinds := []int{wire.Failure, wire.Garbage, wire.WrongType, wire.Oversized, wire.Oversized2G, wire.Oversized4G, wire.Truncated, wire.Close}
	for pi := 0; pi < npil; pi++ {
		pc := r.CaseAlways("pilot", pi)
		p := mkPilot(pc, pi)
		for _, noUp := range []bool{false, true} {
			mode := map[bool]string{false: "upstream", true: "no-upstream"}[noUp]
			// fault-free pilot: counts requests and must succeed throughout
			res, reqAt, ag, s, ok := runPilot(r, pc, p, noUp, nil)
			if !ok {
				continue
			}
			N := ag.NumRequests()
			for i, e := range res {
				if e != nil {
					r.Violation(pc, "pilot-step-fails-without-fault:"+p.steps[i].name, e.Error(), nil)
				}
			}
			s.Close()
			ag.Close()
			_ = reqAt
			for i := 0; i < N; i++ {
				for _, kind := range kinds {
					c := r.Case("fault", idx)
					idx++
					if c == nil {
						continue
					}
					if r.NumViolations() > 12 {
						r.Count("fault cases skipped after more than 12 violations had been recorded", 1)
						continue
					}
					kind, i := kind, i
					rec := faultRec{Pilot: pi, Mode: mode, ReqIdx: i, Kind: wire.KindName[kind]}
					r.Eval(1)
					r.Guard(c, "shim-under-fault", rec, func() {
						var faulted []byte
						plan := func(n int, req []byte) wire.Action {
							if n == i {
								faulted = append([]byte{}, req...)
								return wire.Action{Kind: kind}
							}
							return wire.Action{Kind: wire.Honest}
						}
						res, reqAt, ag, s, ok := runPilot(r, c, p, noUp, plan)
						if !ok {
							return
						}
						defer ag.Close()
						defer s.Close()
						// which step issued request i
						fs := -1
						for k := 0; k < len(p.steps); k++ {
							if reqAt[k] <= i && i < reqAt[k+1] {
								fs = k
							}
						}
						for _, e := range res {
							rec.Results = append(rec.Results, errText(e))
						}
						if fs < 0 {
							// the history changed shape before reaching request i (an earlier consequence); nothing to judge
							r.Count("fault index not reached (history shorter under this plan)", 1)
							return
						}
						rec.Step = p.steps[fs].name
						code := byte(0)
						if len(faulted) > 0 {
							code = faulted[0]
						}
						exempt := false
						// a raw forward relays failure/garbage replies verbatim
						if code == 200 && (kind == wire.Failure || kind == wire.Garbage || kind == wire.WrongType) {
							exempt = true
						}
						// an extension reply is opaque to the client: only the failure codes are errors
						if code == 27 && (kind == wire.Garbage || kind == wire.WrongType) {
							exempt = true
						}
						// removal of a blob that is an in-memory hardware certificate: the underlying reply is ignored by design
						if code == 18 && (bytes.Contains(faulted, p.hard.Marshal()) || bytes.Contains(faulted, p.hard2.Marshal())) {
							exempt = true
						}
						if res[fs] == nil && !exempt {
							r.Violation(c, fmt.Sprintf("fault-swallowed:%s:%s:code%d", p.steps[fs].name, wire.KindName[kind], code), fmt.Sprintf("step %q returned nil although the underlying agent answered its request (code %d) with %s; results=%v", p.steps[fs].name, code, wire.KindName[kind], rec.Results), rec)
							return
						}
						r.Count("faulted step returned an error ("+wire.KindName[kind]+")", 1)
						r.Nontrivial(fmt.Sprintf("fault:%d:%s:%d:%s", pi, mode, i, wire.KindName[kind]))
						// after the fault: with the connection intact, the first fault-free listing must still
						// show every accepted, valid, backed hardware certificate (unless the faulted step was a removal)
						if kind == wire.Failure || kind == wire.Garbage || kind == wire.WrongType {
							name := p.steps[fs].name
							// (a faulted unlock legitimately leaves the shim locked; a faulted LOCK must leave it unlocked — the
							// underlying agent never took the passphrase — so its hardware certificates are still reachable)
							if name == "remove-all" || name[:3] == "rem" || name == "unlock" {
								return
							}
							ag.SetPlan(nil)
							// is the shim still locked by the pilot's own lock/unlock pair? (a faulted lock is excluded above)
							keys, lerr := s.List()
							if lerr != nil {
								r.Violation(c, "list-fails-after-faults-stopped:"+name, lerr.Error(), rec)
								return
							}
							under, _ := ag.Keyring.List()
							held := map[string]bool{}
							for _, k := range under {
								held[string(k.Blob)] = true
							}
							listed := map[string]bool{}
							for _, k := range keys {
								listed[string(k.Blob)] = true
							}
							// which hardware certificates were accepted (their step returned nil) and not removed afterwards
							accepted := map[string]*ssh.Certificate{}
							for k, st := range p.steps {
								switch {
								case st.name == "add-hard-cert" || st.name == "add-hard-cert-again":
									if res[k] == nil {
										accepted[string(p.hard.Marshal())] = p.hard
									}
								case st.name == "add-hard-cert-2":
									if res[k] == nil {
										accepted[string(p.hard2.Marshal())] = p.hard2
									}
								case st.name == "remove-all":
									accepted = map[string]*ssh.Certificate{}
								}
							}
							for blob, hc := range accepted {
								if held[string(hc.Key.Marshal())] && !listed[blob] {
									r.Violation(c, "valid-hardware-cert-discarded-by-fault:"+name+":"+wire.KindName[kind], fmt.Sprintf("after a %s reply to request %d (step %q) the accepted hardware certificate is missing from the first fault-free listing; results=%v", wire.KindName[kind], i, name, rec.Results), rec)
								}
							}
							r.Count("post-fault listings checked for surviving hardware certificates", 1)
						}
					})
					if idx == 3 {
						r.Sample(rec)
					}
				}
			}
		}
	}
	r.Extra("fault_enumeration_runs", idx)
}

func errText(e error) string {
	if e == nil {
		return "ok"
	}
	s := e.Error()
	if len(s) > 50 {
		s = s[:50]
	}
	return "error: " + s
}

// construction drives shimagent.New against misbehaving agents.
func construction(r *ev.Run) {
	if !r.Want("construct") {
		return
	}
	kinds := []int{wire.Close, wire.Failure, wire.Garbage, wire.WrongType, wire.Oversized, wire.Oversized2G, wire.Oversized4G, wire.Truncated}
	idx := 0
	for _, noUp := range []bool{false, true} {
		for _, kind := range kinds {
			for preload := 0; preload < 2; preload++ {
				c := r.Case("construct", idx)
				idx++
				if c == nil {
					continue
				}
				kind := kind
				rec := map[string]any{"no_upstream": noUp, "fault": wire.KindName[kind], "preloaded": preload == 1}
				r.Eval(1)
				if _, hung := r.GuardWithin(c, "shimagent.New", rec, ev.CaseBudget(), func() {
					ag := wire.New()
					defer ag.Close()
					if preload == 1 {
						k := gen.PickKey(c.Rand)
						ag.Keyring.Add(agent.AddedKey{PrivateKey: k.Priv})
					}
					sock, _ := ag.Listen()
					ag.SetPlan(func(int, []byte) wire.Action { return wire.Action{Kind: kind} })
					s, err := shimagent.New(shimagent.Option{Address: sock, NoUpstream: noUp})
					if noUp {
						// the construction-time listing was faulted: must be an error, never a usable-looking agent
						if err == nil {
							r.Violation(c, "construction-swallows-fault:"+wire.KindName[kind], "shimagent.New returned nil error although the initial listing was answered with "+wire.KindName[kind], rec)
						} else {
							r.Count("construction fault surfaced as an error", 1)
						}
						if err != nil && s != nil {
							// a non-nil interface holding a nil pointer would crash the caller later
							r.Guard(c, "use-of-agent-returned-with-error", rec, func() { s.List() })
						}
					} else {
						if err != nil {
							r.Count("construction (upstream mode) failed", 1)
						} else {
							// every later operation must fail cleanly
							_, e1 := s.List()
							e2 := s.Add(agent.AddedKey{PrivateKey: gen.PickKey(c.Rand).Priv})
							if e1 == nil && kind != wire.Garbage && kind != wire.Failure && kind != wire.WrongType {
								r.Violation(c, "operation-swallows-fault-after-construction:"+wire.KindName[kind], "", rec)
							}
							if e1 == nil || e2 == nil {
								if kind == wire.Failure || kind == wire.Garbage || kind == wire.WrongType {
									r.Violation(c, "operation-swallows-fault-after-construction:"+wire.KindName[kind], fmt.Sprintf("list err=%v add err=%v", e1, e2), rec)
								}
							}
							s.Close()
							r.Count("construction (upstream mode) ok, operations failed cleanly", 1)
						}
					}
					r.Nontrivial(fmt.Sprintf("construct:%v:%s:%d", noUp, wire.KindName[kind], preload))
				}); hung {
					r.Violation(c, "operation-does-not-return:after-faulted-construction:"+wire.KindName[kind], "an operation on a shim built over a faulty underlying agent never returned; goroutines inside the repository:\n"+ev.RepoStacks(2000), rec)
				}
			}
		}
		// a socket that does not exist, and one that accepts and closes at once
		c := r.Case("construct", idx)
		idx++
		if c != nil {
			r.Eval(2)
			r.Guard(c, "shimagent.New(missing socket)", nil, func() {
				dir, _ := os.MkdirTemp("", "v")
				defer os.RemoveAll(dir)
				if s, err := shimagent.New(shimagent.Option{Address: filepath.Join(dir, "nope"), NoUpstream: noUp}); err == nil {
					r.Violation(c, "construction-against-missing-socket-succeeds", "", nil)
					s.Close()
				}
				p := filepath.Join(dir, "s")
				l, _ := net.Listen("unix", p)
				go func() {
					for {
						cn, e := l.Accept()
						if e != nil {
							return
						}
						cn.Close()
					}
				}()
				s, err := shimagent.New(shimagent.Option{Address: p, NoUpstream: noUp})
				if noUp && err == nil {
					r.Violation(c, "construction-swallows-fault:accept-and-close", "", nil)
				}
				if err == nil {
					if _, e := s.List(); e == nil {
						r.Violation(c, "operation-swallows-fault-after-construction:accept-and-close", "", nil)
					}
				}
				l.Close()
				r.Count("construction against missing / closing sockets", 2)
			})
		}
	}
}

// rawBodies relays raw requests of every code and several sizes.
func rawBodies(r *ev.Run) {
	if !r.Want("raw") {
		return
	}
	ag := wire.New()
	defer ag.Close()
	sock, _ := ag.Listen()
	inner, err := shimagent.New(shimagent.Option{Address: sock})
	if err != nil {
		r.Violation(r.CaseAlways("raw", 0), "shim-construction-fails-without-fault", err.Error(), nil)
		return
	}
	s := &sh.Guarded{Inner: inner, OnHang: func(op string) {
		r.Violation(r.CaseAlways("raw", 0), "operation-does-not-return:"+op, "a raw forward never returned (request or reply bytes lost or mis-framed)", nil)
		ag.Close()
	}}
	defer s.Close()
	idx := 0
	one := func(code int, n int, frag bool) {
		c := r.Case("raw", idx)
		idx++
		if c == nil {
			return
		}
		req := gen.Bytes(c.Rand, n)
		req[0] = byte(code)
		rec := map[string]any{"code": code, "length": n, "fragmented_reply": frag}
		r.Eval(1)
		r.Guard(c, "Forward", rec, func() {
			ag.ResetLog()
			switch {
			case code%7 == 3 && n <= 64:
				// the underlying agent answers with an empty frame, resp. a long arbitrary one
				rep := []byte{}
				if n == 64 {
					rep = gen.Bytes(c.Rand, 70000)
				}
				ag.SetPlan(func(int, []byte) wire.Action { return wire.Action{Kind: wire.Custom, Reply: rep, Fragment: frag} })
			case frag:
				ag.SetPlan(func(int, []byte) wire.Action { return wire.Action{Kind: wire.Honest, Fragment: true} })
			default:
				ag.SetPlan(nil)
			}
			resp, err := s.Forward(req)
			if s.Hung.Load() {
				return
			}
			evs := ag.Events()
			if n > 16<<20 {
				if err == nil && (len(evs) != 1 || !bytes.Equal(evs[0].Req, req)) {
					r.Violation(c, "oversized-forward-neither-relayed-nor-refused", "", rec)
				}
				r.Count("raw request above 16 MiB: refused or relayed", 1)
				return
			}
			if err != nil {
				r.Violation(c, fmt.Sprintf("forward-fails-without-fault:len=%d", n), err.Error(), rec)
				return
			}
			if len(evs) != 1 || !bytes.Equal(evs[0].Req, req) {
				r.Violation(c, "forward-request-bytes-altered", fmt.Sprintf("code %d length %d: %d upstream requests", code, n, len(evs)), rec)
				return
			}
			if !bytes.Equal(evs[0].Reply, resp) {
				r.Violation(c, "forward-reply-bytes-altered", fmt.Sprintf("code %d length %d: agent sent %d bytes, caller got %d", code, n, len(evs[0].Reply), len(resp)), rec)
				return
			}
			r.Nontrivial(fmt.Sprintf("raw:%d:%d:%v", code, n, frag))
			r.Count("raw requests relayed byte for byte", 1)
		})
	}
	for code := 0; code < 256; code++ {
		if code == 22 {
			continue // a raw lock request with a random body could lock the disposable keyring; exercised in C12
		}
		for _, n := range []int{1, 2, 64, 64 << 10} {
			one(code, n, code%5 == 0)
		}
	}
	for _, code := range []int{200, 201, 99} {
		one(code, 16<<20, false)
		one(code, 16<<20+1, false)
	}
	// large echoed replies (the reply is the request): exercises multi-read replies
	for _, n := range []int{4096, 65536, 1 << 20, 4 << 20} {
		one(200, n, false)
		one(200, n, true)
	}
}
