// C03 — provisioned credentials are usable, key-bound, ephemeral and non-destructive.
package main

import (
	"bytes"
	"context"
	"fmt"
	"strings"
	"sync"
	"time"

	"github.com/theparanoids/crypki/proto"
	"golang.org/x/crypto/ssh"
	"golang.org/x/crypto/ssh/agent"

	"github.com/theparanoids/ysshra/csr"
	"github.com/theparanoids/ysshra/gensign"
	"github.com/theparanoids/ysshra/verifharness/lib/ev"
	"github.com/theparanoids/ysshra/verifharness/lib/gen"
	"github.com/theparanoids/ysshra/verifharness/lib/gsrig"
	"github.com/theparanoids/ysshra/verifharness/lib/wire"
)

const handlerLabel = "paranoids.regular" // the label the regular handler attaches (pinned)

type ident struct {
	Blob    string
	Comment string
	IsCert  bool
}

func snapshot(ag *wire.Agent) map[string]ident {
	keys, _ := ag.Keyring.List()
	m := map[string]ident{}
	for _, k := range keys {
		m[string(k.Blob)] = ident{string(k.Blob), k.Comment, strings.Contains(k.Format, "cert")}
	}
	return m
}

// nestSigner runs hook once, just before the first signing request is passed on.
type nestSigner struct {
	inner *gsrig.Signer
	hook  func()
	done  bool
}

func (n *nestSigner) Sign(ctx context.Context, req *proto.SSHCertificateSigningRequest) ([]ssh.PublicKey, []string, error) {
	if !n.done {
		n.done = true
		n.hook()
	}
	return n.inner.Sign(ctx, req)
}

type runRec struct {
	Run       int      `json:"run"`
	Outcome   string   `json:"planned"`
	NCerts    int      `json:"certificates_per_request"`
	Comments  []string `json:"ca_comments"`
	Validity  uint64   `json:"validity"`
	Result    string   `json:"result"`
	Before    int      `json:"identities_before"`
	After     int      `json:"identities_after"`
	Lifetimes []uint32 `json:"lifetimes_sent"`
}

func main() {
	ev.MainIsolated("C03", "exploration", 40*time.Minute, func(r *ev.Run) {
		r.Rule("histories of 1..8 runs of gensign.Run (real regular handler) against ONE forwarded agent whose keyring the harness reads directly; pre-existing identities: plain keys of all types, foreign certificates, comments that are near-misses of the handler label (different case, truncation, other separator), empty; per run the CA returns 1..4 certificates (plus optionally a non-certificate key) and 0..5 comments; validity in {1 s, 59 s, 1 h, 12 h, 30 d, 90 d, 1 y, 10 y}; runs succeed or fail at a seeded point (CA error, CA panic, agent failure/close at a request index). After each run: identity set before/after compared, AddedKey constraints recorded by the agent checked, a signature made through the agent protocol with every listed certificate of the newest generation. Plus handlers whose agent keys carry 1..3 signing requests each (1..2 keys, 1..2 certificates per request, real agent/ssh AgentKeys), three successful runs in a row: every certificate returned for every request is held and usable, the previous generation is gone. distinct_nontrivial = distinct histories (by outcome pattern, certificate counts and validity) whose every run satisfied the oracle")
		r.Assume("'ephemeral' is checked as the lifetime constraint sent to the agent (non-zero, >= validity)", "identities whose comment contains the handler label are the handler's own")
		gen.Pool()
		n := r.Pick(300, 6000)
		var wg sync.WaitGroup
		sem := make(chan struct{}, 8)
		// a CA that takes seconds to answer (well inside the request timeout): the same post-conditions. Beside the rest.
		for i, d := range []time.Duration{4200 * time.Millisecond, 6500 * time.Millisecond, 3700 * time.Millisecond, 3900 * time.Millisecond} {
			c := r.Case("slow-ca", i)
			if c == nil {
				continue
			}
			wg.Add(1)
			go func(c *ev.Case, i int, d time.Duration) {
				defer wg.Done()
				r.Guard(c, "provisioning history with a slow CA", nil, func() { history(r, c, i, d) })
			}(c, i, d)
		}
		for i := 0; i < n; i++ {
			c := r.Case("hist", i)
			if c == nil {
				continue
			}
			wg.Add(1)
			sem <- struct{}{}
			go func(c *ev.Case, i int) {
				defer wg.Done()
				defer func() { <-sem }()
				r.Guard(c, "provisioning history", nil, func() { history(r, c, i) })
			}(c, i)
		}
		wg.Wait()
		if r.Want("multi") {
			multi(r)
		}
		if r.Replay == nil && r.Counter("successful runs satisfying every post-condition") < int64(r.Pick(200, 4000)) {
			r.Inconclusive("too few successful runs were observed")
		}
		r.Floor(int64(r.Pick(600, 12000)), int64(r.Pick(100, 2000)))
	})
}

func history(r *ev.Run, c *ev.Case, hi int, slowCA ...time.Duration) {
	rng := c.Rand
	slowLeft := len(slowCA) // the CA takes its time over the first successful run of a slow-CA history
	// lapse: every other slow history has a validity of a second or two, and the next run starts only after the
	// certificates of a successful run have run out (the agent still holds them: their lifetime there is longer)
	lapse, lapsesLeft := len(slowCA) > 0 && hi%2 == 0, 2
	kd, err := gsrig.NewKeyDir()
	if err != nil {
		r.Inconclusive(err.Error())
		return
	}
	defer kd.Remove()
	pool := gen.Pool()
	user := pool[rng.Intn(len(pool))]
	kd.Write("alice.pub", gsrig.AuthorizedLine(user.Pub, ""))
	// one requester may hold several accounts (a personal and a role account) with the same registered key: every
	// third history alternates between two login names on the one agent
	kd.Write("svc-deploy.pub", gsrig.AuthorizedLine(user.Pub, ""))
	logins := []string{"alice"}
	if hi%3 == 1 {
		logins = []string{"alice", "svc-deploy"}
	}
	validity := []uint64{1, 59, 3600, 43200, 30 * 86400, 90 * 86400, 365 * 86400, 3650 * 86400}[rng.Intn(8)]
	if lapse {
		validity = uint64(1 + hi/2%2)
	}
	// every handler configuration: a third of the histories set the key_label option
	label := []string{"", "", "", "", "corp-sso", "regular", "paranoids.regular", "x y"}[rng.Intn(8)]
	gc, _, err := gsrig.GensignConfig(gsrig.Conf{PubKeyDir: kd.Path, Identifiers: map[string]string{"default": "d"}, ValiditySec: validity, KeyLabel: label})
	if err != nil {
		r.Inconclusive(err.Error())
		return
	}
	ag := wire.New()
	defer ag.Close()
	ag.Keyring.Add(agent.AddedKey{PrivateKey: user.Priv, Comment: "user-key"})
	// pre-existing identities
	foreign := map[string]ident{}
	nearMiss := []string{"PARANOIDS.REGULAR-cert", "paranoids.regula", "paranoids-regular-cert", "", "work laptop", "Paranoids.Regular", "regular-cert", "paranoids .regular"}
	for k := rng.Intn(6); k > 0; k-- {
		key := pool[rng.Intn(len(pool))]
		if key == user {
			continue
		}
		ak := agent.AddedKey{PrivateKey: key.Priv, Comment: nearMiss[rng.Intn(len(nearMiss))]}
		if rng.Intn(2) == 0 {
			kid := "foreign-" + gen.Ident(rng, 4)
			if rng.Intn(2) == 0 {
				// issued by another RA of the same kind (or by this one, for somebody else): a key ID of the RA's own format
				kid = gen.YSSHCAKeyID(gen.KeyIDSpec{Touch: 1, TransID: gen.Ident(rng, 10), Prins: []string{[]string{"bob", "alice"}[rng.Intn(2)]}})
			}
			ak.Certificate = gen.MakeCert(gen.CertSpec{Key: key, KeyID: kid, ValidAfter: 1, ValidBefore: ssh.CertTimeInfinity})
		}
		ag.Keyring.Add(ak)
	}
	if label == "" && rng.Intn(4) == 0 {
		// a labelled certificate from an earlier generation over a key that the requester ALSO holds as a plain identity of
		// his own: the certificate is the handler's to replace, the plain key is not
		for _, key := range []*gen.Key{pool[(hi+3)%len(pool)], user} {
			old := gen.MakeCert(gen.CertSpec{Key: key, KeyID: "earlier generation", ValidAfter: 1, ValidBefore: ssh.CertTimeInfinity})
			ag.Keyring.Add(agent.AddedKey{PrivateKey: key.Priv, Certificate: old, Comment: handlerLabel + "-cert"})
			if key != user {
				ag.Keyring.Add(agent.AddedKey{PrivateKey: key.Priv, Comment: "my own key"})
			}
		}
	}
	for b, id := range snapshot(ag) {
		if strings.Contains(id.Comment, handlerLabel) {
			continue // carries the handler's label: the handler's own to replace
		}
		foreign[b] = id
	}
	rig, err := gsrig.NewRig(ag, gc)
	if err != nil {
		r.Violation(c, "handler-construction-fails", err.Error(), nil)
		return
	}
	defer rig.Close()
	nruns := 1 + rng.Intn(8)
	if lapse {
		nruns, slowLeft = 4+rng.Intn(3), 0
	}
	var trace []runRec
	var otherAdded *gen.Key
	prevGen := map[string]bool{} // certificate blobs of the latest successful generation
	sigParts := []string{fmt.Sprint(validity)}
	for run := 0; run < nruns; run++ {
		outcome := []string{"ok", "ok", "ok", "ca-error", "ca-panic", "agent-failure", "agent-close", "unconfigured-ca-algorithm", "ok", "delivery-refused-beside-another-client"}[rng.Intn(10)]
		if lapse && run < 3 {
			outcome = "ok"
		}
		signer := &gsrig.Signer{Agent: ag, NCerts: 1 + rng.Intn(4), NonCert: rng.Intn(6) == 0, NonCertPos: rng.Intn(4), ShortFirst: rng.Intn(4) == 0, AsAgentKey: hi%5 == 3}
		for k := rng.Intn(6); k > 0; k-- {
			signer.Comments = append(signer.Comments, []string{"", "touch", "c-" + gen.Ident(rng, 3)}[rng.Intn(3)])
		}
		rec := runRec{Run: run, Outcome: outcome, NCerts: signer.NCerts, Comments: signer.Comments, Validity: validity}
		ag.ResetLog()
		ag.SetPlan(nil)
		faultIdx := -1
		switch outcome {
		case "ca-error":
			signer.Fault = map[int]string{0: "error"}
		case "ca-panic":
			signer.Fault = map[int]string{0: "panic"}
		case "delivery-refused-beside-another-client":
			// the agent takes the first certificate and refuses the second; in between, another client of the same agent
			// (the requester's own ssh-add) adds an identity of its own. Whatever the RA does about the failed hand-over,
			// that identity is not the RA's.
			if signer.NCerts < 2 {
				signer.NCerts = 2
			}
			signer.NonCert = false
			seenCertAdds := 0
			other := gen.FreshKey(rng)
			ag.SetPlan(func(idx int, req []byte) wire.Action {
				if len(req) > 5 && (req[0] == 17 || req[0] == 25) && bytes.Contains(req[:min(len(req), 80)], []byte("-cert-v01@openssh.com")) {
					seenCertAdds++
					if seenCertAdds == 1 {
						ag.Keyring.Add(agent.AddedKey{PrivateKey: other.Priv, Comment: "added by the requester meanwhile"})
						otherAdded = other
					}
					if seenCertAdds == 2 {
						return wire.Action{Kind: wire.Failure}
					}
				}
				return wire.Action{Kind: wire.Honest}
			})
		case "agent-failure", "agent-close":
			// a fault before or during signing: request indices 0 (challenge) and 1 (new private key)
			faultIdx = rng.Intn(2)
			kind := wire.Failure
			if outcome == "agent-close" {
				kind = wire.Close
			}
			fi := faultIdx
			ag.SetPlan(func(idx int, req []byte) wire.Action {
				if idx == fi {
					return wire.Action{Kind: kind}
				}
				return wire.Action{Kind: wire.Honest}
			})
		}
		before := snapshot(ag)
		rec.Before = len(before)
		r.Eval(1)
		// now and then another complete run for the same user finishes while this run is waiting for the CA:
		// it is an earlier run by the time this one delivers, so its certificates must be gone afterwards
		var useSigner csr.Signer = signer
		var nestedCerts map[string]bool
		if outcome == "ok" && rng.Intn(5) == 0 {
			rec.Outcome = "ok+nested-run"
			useSigner = &nestSigner{inner: signer, hook: func() {
				rig2, e2 := gsrig.NewRig(ag, gc)
				if e2 != nil {
					return
				}
				defer rig2.Close()
				s2 := &gsrig.Signer{Agent: ag, NCerts: 1 + rng.Intn(3)}
				if e, esc := gsrig.Run(gsrig.Param(gsrig.ParamSpec{LogName: "alice", ReqUser: "u", ReqHost: "h", ClientIP: "10.1.1.1", TransID: gen.Ident(rng, 10), Policy: "NONS"}), []gensign.Handler{rig2.Handler}, s2); e == nil && esc == "" && len(s2.Calls) == 1 {
					nestedCerts = map[string]bool{}
					for _, pk := range s2.Calls[0].Certs {
						nestedCerts[string(pk.Marshal())] = true
					}
				}
			}}
		}
		if outcome == "ok" && slowLeft > 0 && useSigner == csr.Signer(signer) {
			slowLeft = 0
			rec.Outcome = fmt.Sprintf("ok+ca-takes-%s", slowCA[0])
			useSigner = &nestSigner{inner: signer, hook: func() { time.Sleep(slowCA[0]) }}
			r.Count("runs whose CA took several seconds to answer", 1)
		}
		pspec := gsrig.ParamSpec{LogName: logins[run%len(logins)], ReqUser: "u", ReqHost: "h", ClientIP: "10.1.1.1", TransID: gen.Ident(rng, 10), Policy: "NONS"}
		if outcome == "unconfigured-ca-algorithm" {
			pspec.CAAlgo = 3 // only "default" (0) has a key identifier in this configuration
		}
		var scripted time.Duration
		if len(slowCA) > 0 {
			scripted = slowCA[0]
		}
		rctx, rcancel := context.WithTimeout(context.Background(), 30*time.Second)
		runErr, escaped := gsrig.RunSlow(rctx, gsrig.Param(pspec), []gensign.Handler{rig.Handler}, useSigner, scripted)
		rcancel()
		ag.SetPlan(nil)
		after := snapshot(ag)
		rec.After, rec.Result = len(after), gsrig.Kind(runErr)
		adds, _ := ag.Rec.Snapshot()
		for _, a := range adds {
			rec.Lifetimes = append(rec.Lifetimes, a.LifetimeSecs)
		}
		trace = append(trace, rec)
		bad := func(sig, detail string) {
			r.Violation(c, sig, detail+fmt.Sprintf("\nhistory: %+v", trace), map[string]any{"history": trace})
		}
		if escaped != "" {
			bad(gsrig.EscapeSig(escaped), escaped)
			return
		}
		if otherAdded != nil {
			foreign[string(otherAdded.Pub.Marshal())] = ident{Comment: "added by the requester meanwhile"}
			otherAdded = nil
		}
		// foreign identities are never removed or altered
		for b, id := range foreign {
			a, ok := after[b]
			if !ok {
				bad(fmt.Sprintf("foreign-identity-removed:comment=%q", id.Comment), fmt.Sprintf("run %d (%s)", run, outcome))
				return
			}
			if a.Comment != id.Comment {
				bad("foreign-identity-altered", fmt.Sprintf("%q -> %q", id.Comment, a.Comment))
				return
			}
		}
		// every identity the RA added carries a finite lifetime >= validity
		for _, a := range adds {
			if a.LifetimeSecs == 0 {
				bad("identity-added-without-lifetime", fmt.Sprintf("comment %q", a.Comment))
				return
			}
			// the validity that counts: what was configured, or — for a certificate the CA granted less to — its own
			need := validity
			if a.Certificate != nil && a.Certificate.ValidBefore != ssh.CertTimeInfinity {
				if own := a.Certificate.ValidBefore - (a.Certificate.ValidAfter + gsrig.IssueSkew); own < need {
					need = own
				}
			}
			if uint64(a.LifetimeSecs) < need {
				bad(fmt.Sprintf("lifetime-shorter-than-validity:validity=%d", validity), fmt.Sprintf("lifetime %d s < validity %d s (comment %q; configured validity %d s)", a.LifetimeSecs, need, a.Comment, validity))
				return
			}
			if a.Certificate != nil && a.PrivateKey == nil {
				bad("certificate-added-without-private-key", "")
				return
			}
		}
		if outcome == "delivery-refused-beside-another-client" {
			r.Count("hand-overs refused half way while another client added an identity of its own: that identity stays", 1)
			sigParts = append(sigParts, "delivery-refused")
			r.Nontrivial(strings.Join(sigParts, ","))
			return // what is left of the handler's own generations after a refused hand-over is not this check's business
		}
		if outcome != "ok" {
			if runErr == nil {
				bad("failed-run-reports-success:"+outcome, "")
				return
			}
			// all previously provisioned certificates stay in place
			for b := range prevGen {
				if _, ok := after[b]; !ok {
					bad("failed-run-removes-previous-certificates:"+outcome, fmt.Sprintf("run %d failed (%s, %s) and a certificate of the previous generation is gone", run, outcome, rec.Result))
					return
				}
			}
			r.Count("failed runs that left earlier certificates in place ("+outcome+")", 1)
			if outcome == "unconfigured-ca-algorithm" && (hi+run)%2 == 0 {
				// the requester tidies up: the plain key the refused run left in his agent is deleted (ssh-add -d).
				// Whatever the handler remembers of that run, the next one provisions a key the agent holds.
				for _, a := range adds {
					if a.Certificate != nil || a.PrivateKey == nil {
						continue
					}
					if sg, e := ssh.NewSignerFromKey(a.PrivateKey); e == nil && ag.Keyring.Remove(sg.PublicKey()) == nil {
						r.Count("plain keys left behind by a refused run and then deleted by the requester", 1)
					}
				}
			}
			sigParts = append(sigParts, outcome)
			if outcome == "agent-close" {
				rig.Close()
				rig, err = gsrig.NewRig(ag, gc)
				if err != nil {
					return
				}
			}
			continue
		}
		if runErr != nil {
			// the post-conditions are conditional on a successful run
			r.Count("planned successes that failed (not a violation; history abandoned)", 1)
			return
		}
		if len(signer.Calls) != 1 || signer.Calls[0].Certs == nil {
			bad("signer-not-called-once", fmt.Sprint(len(signer.Calls)))
			return
		}
		// the new private key and every returned certificate are held, each certificate can sign
		csrKey, _, _, _, _ := ssh.ParseAuthorizedKey([]byte(signer.Calls[0].Req.PublicKey))
		if _, ok := after[string(csrKey.Marshal())]; !ok {
			bad("new-private-key-not-in-agent", "")
			return
		}
		newGen := map[string]bool{}
		cl, cerr := ag.Pair()
		if cerr != nil {
			r.Inconclusive(cerr.Error())
			return
		}
		client := agent.NewClient(cl)
		for _, pk := range signer.Calls[0].Certs {
			cert, isCert := pk.(*ssh.Certificate)
			if !isCert {
				continue
			}
			b := string(cert.Marshal())
			newGen[b] = true
			id, ok := after[b]
			if !ok {
				bad(fmt.Sprintf("returned-certificate-not-in-agent:ncerts=%d", signer.NCerts), fmt.Sprintf("serial %d", cert.Serial))
				cl.Close()
				return
			}
			if !strings.Contains(id.Comment, handlerLabel) {
				bad("certificate-without-handler-label", id.Comment)
				cl.Close()
				return
			}
			nonce := gen.Bytes(rng, 32)
			sig, serr := client.Sign(cert, nonce)
			if serr != nil || cert.Key.Verify(nonce, sig) != nil {
				bad("listed-certificate-cannot-sign", fmt.Sprint(serr))
				cl.Close()
				return
			}
			r.Count("certificates that signed through the agent protocol", 1)
		}
		cl.Close()
		for b := range nestedCerts {
			if _, still := after[b]; still && !newGen[b] {
				bad("earlier-generation-certificate-survives:run-completed-during-signing", fmt.Sprintf("run %d: a run that completed while this one was waiting for the CA left a certificate behind", run))
				return
			}
		}
		if nestedCerts != nil {
			r.Count("runs during which another run for the same user completed", 1)
		}
		// at most one generation: certificates of earlier generations are gone
		for b := range prevGen {
			if _, still := after[b]; still && !newGen[b] {
				bad("earlier-generation-certificate-survives", fmt.Sprintf("run %d", run))
				return
			}
		}
		for b, id := range after {
			if id.IsCert && strings.Contains(id.Comment, handlerLabel) && !newGen[b] {
				bad("stale-handler-certificate-listed", id.Comment)
				return
			}
		}
		prevGen = newGen
		sigParts = append(sigParts, fmt.Sprintf("ok%d", signer.NCerts))
		r.Count("successful runs satisfying every post-condition", 1)
		if lapse && lapsesLeft > 0 && run+1 < nruns {
			lapsesLeft--
			time.Sleep(time.Duration(validity)*time.Second + 1300*time.Millisecond)
			r.Count("runs started after the previous generation's certificates had run out", 1)
		}
	}
	r.Nontrivial(strings.Join(sigParts, ","))
	if hi < 2 {
		r.Sample(map[string]any{"history": trace})
	}
}
