package main

import (
	"fmt"
	"strings"

	"golang.org/x/crypto/ssh"
	"golang.org/x/crypto/ssh/agent"

	"github.com/theparanoids/crypki/proto"
	agssh "github.com/theparanoids/ysshra/agent/ssh"
	"github.com/theparanoids/ysshra/csr"
	"github.com/theparanoids/ysshra/gensign"
	"github.com/theparanoids/ysshra/sshutils/key"
	"github.com/theparanoids/ysshra/verifharness/lib/ev"
	"github.com/theparanoids/ysshra/verifharness/lib/gen"
	"github.com/theparanoids/ysshra/verifharness/lib/gsrig"
	"github.com/theparanoids/ysshra/verifharness/lib/wire"
)

// multiHandler: a handler whose agent keys carry several signing requests each (the regular handler issues one); the
// keys are real agent/ssh AgentKeys, so provisioning and refreshing are the project's own.
type multiHandler struct {
	ag    agent.Agent
	nKeys int
	nCSRs int
	gen   int
}

func (m *multiHandler) Name() string                     { return "multi" }
func (m *multiHandler) Authenticate(*csr.ReqParam) error { return nil }
func (m *multiHandler) Generate(*csr.ReqParam) ([]csr.AgentKey, error) {
	m.gen++
	var out []csr.AgentKey
	for i := 0; i < m.nKeys; i++ {
		opt := agssh.DefaultKeyOpt
		opt.PrivateKeyValiditySec = 7200
		opt.CertLabel = fmt.Sprintf("multi-cert-%d", i)
		opt.PublicKeyAlgo = []key.PublicKeyAlgo{key.ECDSAsecp256r1, key.ED25519, key.ECDSAsecp384r1}[i%3]
		lbl := opt.CertLabel
		opt.KeyRefreshFilter = func(k *agent.Key) bool { return strings.Contains(k.Comment, lbl) }
		ak, err := agssh.NewSSHAgentKeyWithOpt(m.ag, opt)
		if err != nil {
			return nil, gensign.NewError(gensign.HandlerGenCSRErr, "multi", err)
		}
		mk := &multiKey{AgentKey: ak}
		for j := 0; j < m.nCSRs; j++ {
			mk.csrs = append(mk.csrs, &proto.SSHCertificateSigningRequest{KeyId: fmt.Sprintf("gen%d-k%d-c%d", m.gen, i, j), Principals: []string{"p"}, Validity: 3600, PublicKey: string(ssh.MarshalAuthorizedKey(ak.PublicKey()))})
		}
		out = append(out, mk)
	}
	return out, nil
}

type multiKey struct {
	*agssh.AgentKey
	csrs []*proto.SSHCertificateSigningRequest
}

func (k *multiKey) CSRs() []*proto.SSHCertificateSigningRequest { return k.csrs }

// multi: after a successful run EVERY certificate the CA returned — for every request of every key — is held together
// with its private key; after the next successful run all of those are gone and the new ones are held.
func multi(r *ev.Run) {
	idx := 0
	for nk := 1; nk <= 2; nk++ {
		for nc := 1; nc <= 3; nc++ {
			for ncert := 1; ncert <= 2; ncert++ {
				c := r.Case("multi", idx)
				idx++
				if c == nil {
					continue
				}
				lenient := (nk+nc+ncert)%2 == 0
				rec := map[string]any{"agent_keys": nk, "requests_per_key": nc, "certificates_per_request": ncert, "agent_cross_checks_certificate_and_key": !lenient}
				r.Eval(1)
				r.Guard(c, "multi-request run", rec, func() {
					ag := wire.New()
					defer ag.Close()
					ag.SetLenient(lenient) // half the agents store whatever they are handed, like OpenSSH's
					conn, err := ag.Pair()
					if err != nil {
						r.Inconclusive(err.Error())
						return
					}
					defer conn.Close()
					foreignKey := gen.Pool()[3]
					ag.Keyring.Add(agent.AddedKey{PrivateKey: foreignKey.Priv, Comment: "multi-cer"}) // near-miss comment
					h := &multiHandler{ag: agent.NewClient(conn), nKeys: nk, nCSRs: nc}
					if lenient {
						// an agent.Agent that is not x/crypto's client (which refuses a mismatched pair before sending it):
						// the recording keyring itself, in process
						h.ag = ag.Rec
					}
					var prev map[string]bool
					for run := 0; run < 3; run++ {
						signer := &gsrig.Signer{Agent: ag, NCerts: ncert}
						ag.ResetLog()
						runErr, esc := gsrig.Run(gsrig.Param(gsrig.ParamSpec{LogName: "alice", ReqUser: "u", ReqHost: "h", ClientIP: "10.1.1.1", TransID: gen.Ident(c.Rand, 10), Policy: "NONS"}), []gensign.Handler{h}, signer)
						if esc != "" {
							r.Violation(c, gsrig.EscapeSig(esc)+":multi", esc, rec)
							return
						}
						if runErr != nil {
							r.Count("multi-request runs that failed (not a violation; case abandoned)", 1)
							return
						}
						held := map[string]bool{}
						keys, _ := ag.Keyring.List()
						for _, k := range keys {
							held[string(k.Blob)] = true
						}
						if !held[string(foreignKey.Pub.Marshal())] {
							r.Violation(c, "foreign-identity-removed:multi", "", rec)
							return
						}
						if len(signer.Calls) != nk*nc {
							r.Violation(c, "success-without-signing-every-request", fmt.Sprintf("%d signer calls for %d requests", len(signer.Calls), nk*nc), rec)
							return
						}
						now := map[string]bool{}
						for _, cl := range signer.Calls {
							for _, pk := range cl.Certs {
								cert, ok := pk.(*ssh.Certificate)
								if !ok {
									continue
								}
								b := string(cert.Marshal())
								now[b] = true
								if !held[b] {
									r.Violation(c, fmt.Sprintf("returned-certificate-not-in-agent:requests-per-key=%d", nc), fmt.Sprintf("run %d: a certificate returned for request %q is not held by the agent after the successful run (%d identities held)", run, cl.Req.KeyId, len(keys)), rec)
									return
								}
								sig, serr := ag.Keyring.Sign(cert, []byte("usable"))
								if serr != nil || cert.Verify([]byte("usable"), sig) != nil {
									r.Violation(c, "certificate-stored-without-usable-private-key:multi", fmt.Sprint(serr), rec)
									return
								}
							}
						}
						for b := range prev {
							if held[b] {
								r.Violation(c, "earlier-generation-certificate-survives:multi", fmt.Sprintf("run %d", run), rec)
								return
							}
						}
						adds, _ := ag.Rec.Snapshot()
						for _, a := range adds {
							if a.LifetimeSecs == 0 || a.LifetimeSecs < 3600 {
								r.Violation(c, "identity-added-without-lifetime", fmt.Sprintf("multi: lifetime %d (comment %q)", a.LifetimeSecs, a.Comment), rec)
								return
							}
						}
						prev = now
					}
					r.Count("multi-request histories (3 successful runs) judged", 1)
					r.Count(fmt.Sprintf("multi-request histories judged with %d agent keys", nk), 1)
					r.Nontrivial(fmt.Sprintf("multi:%d:%d:%d", nk, nc, ncert))
				})
			}
		}
	}
	if r.Replay == nil && r.Want("multi") {
		for nk := 1; nk <= 2; nk++ {
			if r.Counter(fmt.Sprintf("multi-request histories judged with %d agent keys", nk)) == 0 {
				r.Inconclusive(fmt.Sprintf("no history of a handler with %d agent keys ran to a successful end: nothing was observed about them", nk))
			}
		}
	}
}
