package wire

import (
	"bytes"
	crand "crypto/rand"
	"errors"
	"io"
	"sync"

	"golang.org/x/crypto/ssh"
	"golang.org/x/crypto/ssh/agent"
)

// extRing is x/crypto's keyring extended with identities whose private half is
// not in the process at all (security keys, smart cards): a direct Add whose
// PrivateKey is an ssh.Signer is held here and listed, signed with, removed and
// locked away like any other identity. Everything else goes to the keyring.
type extRing struct {
	agent.ExtendedAgent
	mu     sync.Mutex
	ext    []extIdent
	locked bool
	// lenient: a certificate added with a private key it was not issued for is accepted (see mismatched)
	lenient bool
}

type extIdent struct {
	signer  ssh.Signer
	comment string
}

func newExtRing() *extRing { return &extRing{ExtendedAgent: agent.NewKeyring().(agent.ExtendedAgent)} }

// mismatched holds a certificate together with a private key it was not issued for, the way an agent that does not
// cross-check the two (OpenSSH's ssh-agent) ends up holding it: listed under the certificate, signing with the key.
type mismatched struct {
	cert *ssh.Certificate
	key  ssh.Signer
}

func (m mismatched) PublicKey() ssh.PublicKey { return m.cert }
func (m mismatched) Sign(rand io.Reader, data []byte) (*ssh.Signature, error) {
	return m.key.Sign(crand.Reader, data)
}

func (r *extRing) Add(k agent.AddedKey) error {
	sg, ok := k.PrivateKey.(ssh.Signer)
	if !ok && r.lenient && k.Certificate != nil {
		if ks, err := ssh.NewSignerFromKey(k.PrivateKey); err == nil && !bytes.Equal(ks.PublicKey().Marshal(), k.Certificate.Key.Marshal()) {
			r.mu.Lock()
			defer r.mu.Unlock()
			if r.locked {
				return errors.New("agent: locked")
			}
			r.ext = append(r.ext, extIdent{signer: mismatched{k.Certificate, ks}, comment: k.Comment})
			return nil
		}
	}
	if !ok {
		return r.ExtendedAgent.Add(k)
	}
	r.mu.Lock()
	defer r.mu.Unlock()
	if r.locked {
		return errors.New("agent: locked")
	}
	if k.Certificate != nil {
		cs, err := ssh.NewCertSigner(k.Certificate, sg)
		if err != nil {
			return err
		}
		sg = cs
	}
	id := extIdent{signer: sg, comment: k.Comment}
	for i := range r.ext {
		if bytes.Equal(r.ext[i].signer.PublicKey().Marshal(), sg.PublicKey().Marshal()) {
			r.ext[i] = id
			return nil
		}
	}
	r.ext = append(r.ext, id)
	return nil
}

func (r *extRing) List() ([]*agent.Key, error) {
	ks, err := r.ExtendedAgent.List()
	if err != nil {
		return ks, err
	}
	r.mu.Lock()
	defer r.mu.Unlock()
	if r.locked {
		return ks, nil
	}
	for _, id := range r.ext {
		pk := id.signer.PublicKey()
		ks = append(ks, &agent.Key{Format: pk.Type(), Blob: pk.Marshal(), Comment: id.comment})
	}
	return ks, nil
}

func (r *extRing) find(key ssh.PublicKey) ssh.Signer {
	r.mu.Lock()
	defer r.mu.Unlock()
	if r.locked {
		return nil
	}
	want := key.Marshal()
	for _, id := range r.ext {
		if bytes.Equal(id.signer.PublicKey().Marshal(), want) {
			return id.signer
		}
	}
	return nil
}

func (r *extRing) Sign(key ssh.PublicKey, data []byte) (*ssh.Signature, error) {
	return r.SignWithFlags(key, data, 0)
}

func (r *extRing) SignWithFlags(key ssh.PublicKey, data []byte, flags agent.SignatureFlags) (*ssh.Signature, error) {
	if sg := r.find(key); sg != nil {
		return sg.Sign(nil, data)
	}
	return r.ExtendedAgent.SignWithFlags(key, data, flags)
}

func (r *extRing) Remove(key ssh.PublicKey) error {
	r.mu.Lock()
	if !r.locked {
		want := key.Marshal()
		for i, id := range r.ext {
			if bytes.Equal(id.signer.PublicKey().Marshal(), want) {
				r.ext = append(r.ext[:i:i], r.ext[i+1:]...)
				r.mu.Unlock()
				return nil
			}
		}
	}
	r.mu.Unlock()
	return r.ExtendedAgent.Remove(key)
}

func (r *extRing) RemoveAll() error {
	err := r.ExtendedAgent.RemoveAll()
	if err == nil {
		r.mu.Lock()
		r.ext = nil
		r.mu.Unlock()
	}
	return err
}

func (r *extRing) Lock(p []byte) error {
	err := r.ExtendedAgent.Lock(p)
	if err == nil {
		r.mu.Lock()
		r.locked = true
		r.mu.Unlock()
	}
	return err
}

func (r *extRing) Unlock(p []byte) error {
	err := r.ExtendedAgent.Unlock(p)
	if err == nil {
		r.mu.Lock()
		r.locked = false
		r.mu.Unlock()
	}
	return err
}

func (r *extRing) Signers() ([]ssh.Signer, error) {
	ss, err := r.ExtendedAgent.Signers()
	if err != nil {
		return ss, err
	}
	r.mu.Lock()
	defer r.mu.Unlock()
	if r.locked {
		return ss, nil
	}
	for _, id := range r.ext {
		ss = append(ss, id.signer)
	}
	return ss, nil
}
