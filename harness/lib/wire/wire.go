// Package wire is the frame-level scripted ssh-agent the harness puts behind
// the code under test: every request frame is logged, a plan decides how it is
// answered (honestly by an inspectable x/crypto keyring, or with a fault), and
// request pipelining on one connection is detected.
package wire

import (
	"bufio"
	"bytes"
	"encoding/binary"
	"errors"
	"fmt"
	"io"
	"net"
	"os"
	"path/filepath"
	"sync"
	"sync/atomic"
	"time"

	"golang.org/x/crypto/ssh"
	"golang.org/x/crypto/ssh/agent"
)

// Kinds of reply.
const (
	Honest    = iota // answered by the keyring
	Failure          // SSH_AGENT_FAILURE
	Garbage          // well-framed nonsense
	Oversized        // length prefix > 16 MiB, nothing else
	Truncated        // a frame cut short, then close
	Close            // close the connection without replying
	Custom           // Action.Reply as the frame body
	Stall            // never reply (until the connection is closed)
	WrongType        // a well-formed agent message of a type that does not answer the request
	Oversized2G      // length prefix 0x80000000 (negative as a signed 32-bit number)
	Oversized4G      // length prefix 0xFFFFFFFF
)

var KindName = map[int]string{Honest: "honest", Failure: "failure", Garbage: "garbage", Oversized: "oversized", Truncated: "truncated", Close: "close", Custom: "custom", Stall: "stall", WrongType: "wrong-type", Oversized2G: "oversized-2g", Oversized4G: "oversized-4g"}

// Action says how to answer one request.
type Action struct {
	Kind     int
	Delay    time.Duration
	Reply    []byte // for Custom
	Fragment bool   // write the reply in several pieces with pauses
}

// Plan maps (request index on this agent, request bytes) to an action. A nil plan is honest.
type Plan func(idx int, req []byte) Action

// Event is one request/reply exchange as seen on the wire.
type Event struct {
	Idx       int
	Conn      int
	Code      byte
	Req       []byte
	Reply     []byte // body actually sent (nil if none)
	Kind      int
	Pipelined bool // more request bytes were already pending before this reply was written
	T0, T1    int64
}

// Agent is the scripted agent.
type Agent struct {
	Keyring agent.Agent // the real holder of identities; the harness may use it directly
	Rec     *Recorder

	mu       sync.Mutex
	events   []Event
	plan     Plan
	nreq     int
	nconn    int
	listener net.Listener
	dir      string
	conns    []net.Conn
	KeepReq  bool // keep full request bytes in events (default true)
	closed   atomic.Bool
	// Inflight counts requests received but not yet answered, across connections.
	pipelined atomic.Int64
}

// New returns an agent over a fresh keyring.
func New() *Agent {
	kr := newExtRing()
	a := &Agent{Keyring: kr, KeepReq: true}
	a.Rec = &Recorder{inner: kr}
	return a
}

// SetLenient makes the keyring accept a certificate together with a private key it was not issued for, as an agent
// that does not cross-check the two does.
func (a *Agent) SetLenient(v bool) {
	if r, ok := a.Keyring.(*extRing); ok {
		r.mu.Lock()
		r.lenient = v
		r.mu.Unlock()
	}
}

// SetPlan installs the fault plan (nil = honest).
func (a *Agent) SetPlan(p Plan) { a.mu.Lock(); a.plan = p; a.mu.Unlock() }

// Events returns a copy of the event log.
func (a *Agent) Events() []Event {
	a.mu.Lock()
	defer a.mu.Unlock()
	return append([]Event(nil), a.events...)
}

// NumRequests returns how many requests have been received.
func (a *Agent) NumRequests() int { a.mu.Lock(); defer a.mu.Unlock(); return a.nreq }

// ResetLog clears the event log and the request counter.
func (a *Agent) ResetLog() {
	a.mu.Lock()
	a.events, a.nreq = nil, 0
	a.mu.Unlock()
	a.Rec.Reset()
}

// Pipelined returns how many replies were written while further request bytes were already pending.
func (a *Agent) Pipelined() int64 { return a.pipelined.Load() }

// Listen starts serving on a unix socket in a fresh short temp dir and returns its path.
func (a *Agent) Listen() (string, error) {
	dir, err := os.MkdirTemp("", "v")
	if err != nil {
		return "", err
	}
	a.dir = dir
	p := filepath.Join(dir, "a")
	l, err := net.Listen("unix", p)
	if err != nil {
		return "", err
	}
	a.listener = l
	go func() {
		for {
			c, err := l.Accept()
			if err != nil {
				return
			}
			go a.ServeConn(c)
		}
	}()
	return p, nil
}

// Pair returns the client end of a connected unix-socket pair whose other end is served by the agent.
func (a *Agent) Pair() (net.Conn, error) {
	c1, c2, err := SocketPair()
	if err != nil {
		return nil, err
	}
	go a.ServeConn(c2)
	return c1, nil
}

// Close stops the listener, closes all served connections and removes the socket dir.
func (a *Agent) Close() {
	a.closed.Store(true)
	if a.listener != nil {
		a.listener.Close()
	}
	a.mu.Lock()
	for _, c := range a.conns {
		c.Close()
	}
	a.mu.Unlock()
	if a.dir != "" {
		os.RemoveAll(a.dir)
	}
}

// ServeConn serves one connection until it ends.
func (a *Agent) ServeConn(c net.Conn) {
	a.mu.Lock()
	a.nconn++
	connID := a.nconn
	a.conns = append(a.conns, c)
	a.mu.Unlock()
	defer c.Close()
	br := bufio.NewReader(c)
	for {
		req, err := ReadFrame(br)
		if err != nil {
			return
		}
		a.mu.Lock()
		idx := a.nreq
		a.nreq++
		plan := a.plan
		a.mu.Unlock()
		ev := Event{Idx: idx, Conn: connID, T0: time.Now().UnixNano()}
		if len(req) > 0 {
			ev.Code = req[0]
		}
		if a.KeepReq {
			ev.Req = req
		}
		act := Action{Kind: Honest}
		if plan != nil {
			act = plan(idx, req)
		}
		ev.Kind = act.Kind
		var reply []byte
		if act.Kind == Honest {
			reply = a.honest(req)
		}
		if act.Delay > 0 {
			time.Sleep(act.Delay)
		}
		// pipelining check: is another request already pending on this connection?
		if br.Buffered() > 0 {
			ev.Pipelined = true
		} else {
			c.SetReadDeadline(time.Now().Add(30 * time.Microsecond))
			if _, perr := br.Peek(1); perr == nil {
				ev.Pipelined = true
			}
			c.SetReadDeadline(time.Time{})
		}
		if ev.Pipelined {
			a.pipelined.Add(1)
		}
		stop := false
		var out []byte // raw bytes to write (already framed) when not a plain frame
		frame := true
		switch act.Kind {
		case Honest:
			ev.Reply = reply
		case Failure:
			ev.Reply = []byte{5}
		case Garbage:
			ev.Reply = []byte{0xde, 0xad, 0xbe, 0xef, 0x01, 0x02, 0xff, 0xff, 0xff, 0xff}
		case Custom:
			ev.Reply = act.Reply
		case WrongType:
			// SSH_AGENT_SUCCESS to requests that expect data, an empty identities answer to the others
			if ev.Code == 11 || ev.Code == 13 || ev.Code == 1 {
				ev.Reply = []byte{6}
			} else {
				ev.Reply = []byte{12, 0, 0, 0, 0}
			}
		case Oversized:
			// a declared length of 16 MiB + 1; the stream is out of sync afterwards, so the connection ends
			frame, out, stop = false, []byte{0x01, 0x00, 0x00, 0x01, 12, 0, 0, 0, 0}, true
		case Oversized2G:
			frame, out, stop = false, []byte{0x80, 0x00, 0x00, 0x00, 12, 0, 0, 0, 0}, true
		case Oversized4G:
			frame, out, stop = false, []byte{0xff, 0xff, 0xff, 0xff, 12, 0, 0, 0, 0}, true
		case Truncated:
			frame, out, stop = false, []byte{0x00, 0x00, 0x00, 0x40, 12, 0, 0}, true
		case Close:
			frame, stop = false, true
		case Stall:
			ev.T1 = time.Now().UnixNano()
			a.mu.Lock()
			a.events = append(a.events, ev)
			a.mu.Unlock()
			io.Copy(io.Discard, br)
			return
		}
		// the event is logged before the reply leaves, so that whoever receives the reply finds it in the log
		ev.T1 = time.Now().UnixNano()
		a.mu.Lock()
		a.events = append(a.events, ev)
		a.mu.Unlock()
		if frame {
			writeFrame(c, ev.Reply, act.Fragment)
		} else if out != nil {
			c.Write(out)
		}
		if stop {
			return
		}
	}
}

// honest answers one request frame with the recorded keyring. Code 200 is the
// harness's own echo request: the reply is the request itself.
func (a *Agent) honest(req []byte) []byte {
	if len(req) == 0 {
		return []byte{5}
	}
	if req[0] == 200 {
		return append([]byte{}, req...)
	}
	var in bytes.Buffer
	var l [4]byte
	binary.BigEndian.PutUint32(l[:], uint32(len(req)))
	in.Write(l[:])
	in.Write(req)
	var out bytes.Buffer
	agent.ServeAgent(a.Rec, struct {
		io.Reader
		io.Writer
	}{&in, &out})
	b := out.Bytes()
	if len(b) < 4 {
		return []byte{5}
	}
	return append([]byte{}, b[4:]...)
}

func writeFrame(c net.Conn, body []byte, fragment bool) {
	var l [4]byte
	binary.BigEndian.PutUint32(l[:], uint32(len(body)))
	if !fragment || len(body) < 2 {
		c.Write(append(l[:], body...))
		return
	}
	c.Write(l[:2])
	time.Sleep(300 * time.Microsecond)
	c.Write(l[2:])
	time.Sleep(300 * time.Microsecond)
	h := len(body) / 2
	c.Write(body[:h])
	time.Sleep(600 * time.Microsecond)
	c.Write(body[h:])
}

// ReadFrame reads one length-prefixed frame (any length up to 64 MiB; an empty frame is returned as an empty slice).
func ReadFrame(r io.Reader) ([]byte, error) {
	var l [4]byte
	if _, err := io.ReadFull(r, l[:]); err != nil {
		return nil, err
	}
	n := binary.BigEndian.Uint32(l[:])
	if n > 64<<20 {
		return nil, fmt.Errorf("frame too large: %d", n)
	}
	b := make([]byte, n)
	if _, err := io.ReadFull(r, b); err != nil {
		return nil, err
	}
	return b, nil
}

// Frame returns the length-prefixed encoding of body.
func Frame(body []byte) []byte {
	out := make([]byte, 4+len(body))
	binary.BigEndian.PutUint32(out, uint32(len(body)))
	copy(out[4:], body)
	return out
}

// SocketPair returns two connected unix stream sockets.
func SocketPair() (net.Conn, net.Conn, error) {
	dir, err := os.MkdirTemp("", "p")
	if err != nil {
		return nil, nil, err
	}
	defer os.RemoveAll(dir)
	p := filepath.Join(dir, "s")
	l, err := net.Listen("unix", p)
	if err != nil {
		return nil, nil, err
	}
	defer l.Close()
	type res struct {
		c   net.Conn
		err error
	}
	ch := make(chan res, 1)
	go func() { c, err := l.Accept(); ch <- res{c, err} }()
	c1, err := net.Dial("unix", p)
	if err != nil {
		return nil, nil, err
	}
	r := <-ch
	if r.err != nil {
		c1.Close()
		return nil, nil, r.err
	}
	return c1, r.c, nil
}

// ---------------------------------------------------------------------------

// Recorder wraps the keyring and records every call as Go values. Hooks allow
// an untruthful agent (C01).
type Recorder struct {
	inner agent.ExtendedAgent
	mu    sync.Mutex
	Adds  []agent.AddedKey
	Signs []SignCall
	Rem   [][]byte
	Locks [][]byte
	Unl   [][]byte
	Exts  []string
	NList int
	NRemA int
	// SignHook, if set, may answer a sign request instead of the keyring.
	SignHook func(key ssh.PublicKey, data []byte, flags agent.SignatureFlags) (sig *ssh.Signature, err error, handled bool)
}

type SignCall struct {
	KeyBlob []byte
	Data    []byte
	Flags   agent.SignatureFlags
	OK      bool
	Sig     *ssh.Signature // what the agent answered (nil on error)
	ReqIdx  int            // index of the last request seen when the call was made
}

func (r *Recorder) Reset() {
	r.mu.Lock()
	r.Adds, r.Signs, r.Rem, r.Locks, r.Unl, r.Exts, r.NList, r.NRemA = nil, nil, nil, nil, nil, nil, 0, 0
	r.mu.Unlock()
}

// Snapshot returns copies of the recorded calls.
func (r *Recorder) Snapshot() (adds []agent.AddedKey, signs []SignCall) {
	r.mu.Lock()
	defer r.mu.Unlock()
	return append([]agent.AddedKey(nil), r.Adds...), append([]SignCall(nil), r.Signs...)
}

func (r *Recorder) List() ([]*agent.Key, error) {
	r.mu.Lock()
	r.NList++
	r.mu.Unlock()
	return r.inner.List()
}
func (r *Recorder) Sign(key ssh.PublicKey, data []byte) (*ssh.Signature, error) {
	return r.SignWithFlags(key, data, 0)
}
func (r *Recorder) SignWithFlags(key ssh.PublicKey, data []byte, flags agent.SignatureFlags) (*ssh.Signature, error) {
	r.mu.Lock()
	hook := r.SignHook
	r.mu.Unlock()
	var sig *ssh.Signature
	var err error
	handled := false
	if hook != nil {
		sig, err, handled = hook(key, data, flags)
	}
	if !handled {
		sig, err = r.inner.SignWithFlags(key, data, flags)
	}
	r.mu.Lock()
	r.Signs = append(r.Signs, SignCall{KeyBlob: key.Marshal(), Data: append([]byte{}, data...), Flags: flags, OK: err == nil, Sig: sig})
	r.mu.Unlock()
	return sig, err
}
func (r *Recorder) Add(key agent.AddedKey) error {
	err := r.inner.Add(key)
	r.mu.Lock()
	r.Adds = append(r.Adds, key)
	r.mu.Unlock()
	return err
}
func (r *Recorder) Remove(key ssh.PublicKey) error {
	r.mu.Lock()
	r.Rem = append(r.Rem, key.Marshal())
	r.mu.Unlock()
	return r.inner.Remove(key)
}
func (r *Recorder) RemoveAll() error {
	r.mu.Lock()
	r.NRemA++
	r.mu.Unlock()
	return r.inner.RemoveAll()
}
func (r *Recorder) Lock(p []byte) error {
	r.mu.Lock()
	r.Locks = append(r.Locks, append([]byte{}, p...))
	r.mu.Unlock()
	return r.inner.Lock(p)
}
func (r *Recorder) Unlock(p []byte) error {
	r.mu.Lock()
	r.Unl = append(r.Unl, append([]byte{}, p...))
	r.mu.Unlock()
	return r.inner.Unlock(p)
}
func (r *Recorder) Signers() ([]ssh.Signer, error) { return r.inner.Signers() }

// Extension: "echo@verif" returns its contents; everything else is unsupported.
func (r *Recorder) Extension(t string, contents []byte) ([]byte, error) {
	r.mu.Lock()
	r.Exts = append(r.Exts, t)
	r.mu.Unlock()
	if t == "echo@verif" {
		return append([]byte{}, contents...), nil
	}
	return nil, agent.ErrExtensionUnsupported
}

var _ agent.ExtendedAgent = (*Recorder)(nil)
var ErrClosed = errors.New("closed")

// shortConn hands out at most max bytes per Read, as a TLS connection, an SSH channel or a socket under load may.
type shortConn struct {
	net.Conn
	max int
}

func (s *shortConn) Read(p []byte) (int, error) {
	if len(p) > s.max {
		p = p[:s.max]
	}
	return s.Conn.Read(p)
}

// ShortReads wraps a connection so that no Read returns more than max bytes.
func ShortReads(c net.Conn, max int) net.Conn { return &shortConn{Conn: c, max: max} }
