package gsrig

import crand_ "crypto/rand"

func crand(p []byte) (int, error) { return crand_.Read(p) }
