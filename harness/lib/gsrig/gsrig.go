// Package gsrig is the rig for the gensign properties (C01-C04): the real
// regular handler and gensign.Run over a scripted forwarded agent and a
// recording certificate signer.
package gsrig

import (
	"context"
	"crypto/x509"
	"encoding/json"
	"fmt"
	"golang.org/x/crypto/ssh/agent"
	"math/rand"
	"net"
	"os"
	"path/filepath"
	"strings"
	"sync"
	"time"

	"github.com/theparanoids/crypki/proto"
	"golang.org/x/crypto/ssh"
	gproto "google.golang.org/protobuf/proto"

	"github.com/theparanoids/ysshra/common"
	"github.com/theparanoids/ysshra/config"
	"github.com/theparanoids/ysshra/csr"
	"github.com/theparanoids/ysshra/gensign"
	"github.com/theparanoids/ysshra/gensign/regular"
	"github.com/theparanoids/ysshra/message"
	"github.com/theparanoids/ysshra/verifharness/lib/ev"
	"github.com/theparanoids/ysshra/verifharness/lib/gen"
	"github.com/theparanoids/ysshra/verifharness/lib/wire"
)

// Conf describes the handler configuration to write.
type Conf struct {
	PubKeyDir    string
	Identifiers  map[string]string // algorithm name (any case) or decimal number -> identifier
	ValiditySec  uint64
	OmitValidity bool
	KeyLabel     string // "key_label" of the handler configuration (omitted when empty)
	RawValidity  any    // if non-nil: the value of "cert_validity_sec" as it stands in the file (any JSON type)
	// Siblings: the configuration file also holds sections of other handlers, among them ones whose name differs from
	// the regular handler's in case only; none of them is the regular handler's section
	Siblings bool
}

// GensignConfig builds the real configuration object from JSON text, as the binary does.
func GensignConfig(c Conf) (*config.GensignConfig, string, error) {
	h := map[string]any{"enable": true, "pub_key_dir": c.PubKeyDir, "key_identifiers": c.Identifiers}
	if !c.OmitValidity {
		h["cert_validity_sec"] = c.ValiditySec
	}
	if c.RawValidity != nil {
		h["cert_validity_sec"] = c.RawValidity
	}
	if c.KeyLabel != "" {
		h["key_label"] = c.KeyLabel
	}
	hs := map[string]any{regular.HandlerName: h}
	if c.Siblings {
		wrong := func() map[string]any {
			return map[string]any{"enable": true, "pub_key_dir": c.PubKeyDir, "cert_validity_sec": 7, "key_identifiers": map[string]string{"default": "wrong-slot", "rsa": "wrong-slot", "ecdsa": "wrong-slot", "ed25519": "wrong-slot", "dsa": "wrong-slot", "unknown": "wrong-slot"}, "key_label": "wrong"}
		}
		for _, n := range []string{strings.ToUpper(regular.HandlerName), strings.ToLower(regular.HandlerName), strings.Title(regular.HandlerName), regular.HandlerName + "2", "Other.Handler"} {
			if n != regular.HandlerName {
				hs[n] = wrong()
			}
		}
	}
	doc := map[string]any{"handlers": hs}
	b, err := json.Marshal(doc)
	if err != nil {
		return nil, "", err
	}
	// through the same loader the gensign binary uses (file on disk)
	f, err := os.CreateTemp("", "gensign-*.json")
	if err != nil {
		return nil, string(b), err
	}
	defer os.Remove(f.Name())
	f.Write(b)
	f.Close()
	gc, err := config.NewGensignConfig(f.Name())
	if err != nil {
		return nil, string(b), err
	}
	return gc, string(b), nil
}

// AlgoOf is the harness's own mapping of configuration keys to algorithm numbers.
func AlgoOf(name string) (x509.PublicKeyAlgorithm, bool) {
	switch lower(name) {
	case "default", "unknown":
		return 0, true
	case "rsa":
		return 1, true
	case "dsa":
		return 2, true
	case "ecdsa":
		return 3, true
	case "ed25519":
		return 4, true
	}
	var n int
	if _, err := fmt.Sscanf(name, "%d", &n); err == nil && fmt.Sprint(n) == name && n >= 0 {
		return x509.PublicKeyAlgorithm(n), true
	}
	return 0, false
}

func lower(s string) string {
	b := []byte(s)
	for i, c := range b {
		if c >= 'A' && c <= 'Z' {
			b[i] = c + 32
		}
	}
	return string(b)
}

// SignReq is one request seen by the recording signer.
type SignReq struct {
	Req      *proto.SSHCertificateSigningRequest
	ReqIdxAt int // number of agent requests seen when the signer was called
	Err      error
	Certs    []ssh.PublicKey
}

// Signer is the recording csr.Signer; it issues real certificates with the pooled CA.
type Signer struct {
	mu       sync.Mutex
	Calls    []*SignReq
	NCerts   int      // certificates per request (default 1)
	Comments []string // comments returned (any length)
	// Fault: call index -> "error" | "panic" | "other-key" (the last certificate of the reply is issued for a key other than the requested one, no error)
	Fault map[int]string
	Agent *wire.Agent
	// NonCert adds a plain public key to the reply: at its end, or (NonCertPos = k > 0) before the k-th certificate
	NonCert    bool
	NonCertPos int
	// ShortFirst: in a reply of several certificates the earlier ones are issued for less than was asked (a CA may cap
	// what it grants): certificate i of n runs validity*(i+1)/n seconds. The harness CA sets ValidAfter to the time of
	// issue minus IssueSkew, so a certificate's own validity can be read back from it.
	ShortFirst bool
	// AsAgentKey: the certificates are handed back as *agent.Key (type + blob), as a signer that passes on what it read
	// from a wire may, instead of *ssh.Certificate. Calls[i].Certs still holds the certificates themselves.
	AsAgentKey bool
	// Scribble: after keeping its own copy, the signer edits the request it was handed (as a CA client
	// wrapper may do): later requests must not be affected
	Scribble bool
	// CtxAware: like a real CA client, a call whose context is already done fails with the context's error
	CtxAware bool
	// After is called with the call index just before a successful reply is returned
	After func(idx int)
}

func (s *Signer) Sign(ctx context.Context, req *proto.SSHCertificateSigningRequest) ([]ssh.PublicKey, []string, error) {
	s.mu.Lock()
	idx := len(s.Calls)
	rec := &SignReq{Req: gproto.Clone(req).(*proto.SSHCertificateSigningRequest)}
	if s.Scribble {
		if req.Extensions != nil {
			delete(req.Extensions, "permit-pty")
			req.Extensions["permit-everything"] = "yes"
		}
		if len(req.Principals) > 0 {
			req.Principals[0] = "scribbled-by-signer"
		}
		req.Validity = 1
	}
	if s.Agent != nil {
		rec.ReqIdxAt = s.Agent.NumRequests()
	}
	s.Calls = append(s.Calls, rec)
	fault := s.Fault[idx]
	n := s.NCerts
	if n == 0 {
		n = 1
	}
	comments := append([]string{}, s.Comments...)
	s.mu.Unlock()
	if s.CtxAware && ctx.Err() != nil {
		rec.Err = fmt.Errorf("CA unreachable: %w", ctx.Err())
		return nil, nil, rec.Err
	}
	switch fault {
	case "error":
		rec.Err = fmt.Errorf("scripted CA failure")
		return nil, nil, rec.Err
	case "panic":
		panic("scripted signer panic")
	}
	pk, _, _, _, err := ssh.ParseAuthorizedKey([]byte(req.PublicKey))
	if err != nil {
		rec.Err = fmt.Errorf("CA cannot parse the public key: %v", err)
		return nil, nil, rec.Err
	}
	now := uint64(time.Now().Unix())
	var out []ssh.PublicKey
	for i := 0; i < n; i++ {
		ck := pk
		if fault == "other-key" && i == n-1 {
			for _, k := range gen.Pool() {
				if string(k.Pub.Marshal()) != string(pk.Marshal()) {
					ck = k.Pub
					break
				}
			}
		}
		granted := req.Validity
		if s.ShortFirst && n > 1 {
			granted = req.Validity * uint64(i+1) / uint64(n)
			if granted == 0 {
				granted = 1
			}
		}
		c := &ssh.Certificate{Key: ck, Serial: uint64(idx*10 + i), CertType: ssh.UserCert, KeyId: req.KeyId, ValidPrincipals: req.Principals,
			ValidAfter: now - IssueSkew, ValidBefore: now + granted, Permissions: ssh.Permissions{Extensions: req.Extensions}}
		if i%2 == 1 {
			c.Permissions.CriticalOptions = map[string]string{"touchless-sudo-hosts": "h"}
		}
		if err := c.SignCert(cryptoRand{}, gen.CA().Sgn); err != nil {
			rec.Err = err
			return nil, nil, err
		}
		out = append(out, c)
	}
	if s.NonCert {
		if k := s.NonCertPos; k > 0 && k <= len(out) {
			out = append(out[:k-1], append([]ssh.PublicKey{pk}, out[k-1:]...)...)
		} else {
			out = append(out, pk)
		}
	}
	rec.Certs = out
	if s.After != nil {
		s.After(idx)
	}
	if s.AsAgentKey {
		wrapped := make([]ssh.PublicKey, len(out))
		for i, k := range out {
			wrapped[i] = &agent.Key{Format: k.Type(), Blob: k.Marshal()}
		}
		return wrapped, comments, nil
	}
	return out, comments, nil
}

// IssueSkew is how far before the time of issue the harness CA dates its certificates.
const IssueSkew = 60

// NumCalls returns the number of signer calls so far.
func (s *Signer) NumCalls() int { s.mu.Lock(); defer s.mu.Unlock(); return len(s.Calls) }

type cryptoRand struct{}

func (cryptoRand) Read(p []byte) (int, error) { return crand(p) }

// Param builds request parameters the way NewReqParam would.
type ParamSpec struct {
	LogName, ReqUser, ReqHost, ClientIP, TransID string
	Policy                                       string
	HardKey                                      bool
	CAAlgo                                       int
}

func Param(p ParamSpec) *csr.ReqParam {
	return &csr.ReqParam{
		NamespacePolicy: common.NamespacePolicy(p.Policy), HandlerName: "Regular", ClientIP: p.ClientIP, LogName: p.LogName, ReqUser: p.ReqUser, ReqHost: p.ReqHost, TransID: p.TransID,
		Attrs: &message.Attributes{IfVer: 7, Username: p.ReqUser, Hostname: p.ReqHost, SSHClientVersion: "8.1", HardKey: p.HardKey, CAPubKeyAlgo: x509.PublicKeyAlgorithm(p.CAAlgo), TouchlessSudo: &message.TouchlessSudo{}},
	}
}

// KeyDir manages the registered-key directory.
type KeyDir struct{ Path string }

func NewKeyDir() (*KeyDir, error) {
	d, err := os.MkdirTemp("", "kd")
	return &KeyDir{d}, err
}
func (k *KeyDir) Remove() { os.RemoveAll(k.Path) }
func (k *KeyDir) Write(name string, content []byte) error {
	return os.WriteFile(filepath.Join(k.Path, name), content, 0o600)
}
func (k *KeyDir) Delete(name string) { os.Remove(filepath.Join(k.Path, name)) }

// AuthorizedLine renders a key as an authorized_keys line.
func AuthorizedLine(pk ssh.PublicKey, comment string) []byte {
	b := ssh.MarshalAuthorizedKey(pk)
	if comment != "" {
		b = append(b[:len(b)-1], []byte(" "+comment+"\n")...)
	}
	return b
}

// Rig is one forwarded agent + handler + signer.
type Rig struct {
	Ag      *wire.Agent
	Conn    net.Conn
	Handler gensign.Handler
	Signer  *Signer
}

// NewRig builds the real handler over a fresh (or given) scripted agent.
func NewRig(ag *wire.Agent, gc *config.GensignConfig) (*Rig, error) {
	if ag == nil {
		ag = wire.New()
	}
	conn, err := ag.Pair()
	if err != nil {
		return nil, err
	}
	h, err := regular.NewHandler(gc, conn)
	if err != nil {
		conn.Close()
		return nil, err
	}
	return &Rig{Ag: ag, Conn: conn, Handler: h, Signer: &Signer{Agent: ag}}, nil
}

func (r *Rig) Close() { r.Conn.Close() }

// NewRigConn builds the regular handler over a connection the caller made (and closes) itself.
func NewRigConn(conn net.Conn, gc *config.GensignConfig) (*Rig, error) {
	h, err := regular.NewHandler(gc, conn)
	if err != nil {
		return nil, err
	}
	return &Rig{Conn: conn, Handler: h}, nil
}

// Run calls gensign.Run and converts an escaping panic into (nil, panicText).
func Run(param *csr.ReqParam, handlers []gensign.Handler, signer csr.Signer) (err error, escaped string) {
	ctx, cancel := context.WithTimeout(context.Background(), 30*time.Second)
	defer cancel()
	return RunCtx(ctx, param, handlers, signer)
}

// RunCtx is Run with the caller's request context.
func RunCtx(ctx context.Context, param *csr.ReqParam, handlers []gensign.Handler, signer csr.Signer) (err error, escaped string) {
	return RunSlow(ctx, param, handlers, signer, 0)
}

// RunSlow is RunCtx for runs in which the harness itself delays something by up to scripted: the watchdog waits that much longer.
func RunSlow(ctx context.Context, param *csr.ReqParam, handlers []gensign.Handler, signer csr.Signer, scripted time.Duration) (err error, escaped string) {
	type res struct {
		err     error
		escaped string
	}
	ch := make(chan res, 1)
	go func() {
		defer func() {
			if p := recover(); p != nil {
				ch <- res{nil, fmt.Sprint(p)}
			}
		}()
		e := gensign.Run(ctx, param, handlers, signer)
		if e != nil {
			// what every caller does with the error: render it (a panic in doing so escapes like any other)
			_ = e.Error()
			_ = fmt.Sprintf("%v %+v %s", e, e, e)
		}
		ch <- res{e, ""}
	}()
	select {
	case x := <-ch:
		return x.err, x.escaped
	case <-time.After(ev.OpTimeout() + scripted):
		return nil, Hung
	}
}

// EscapeSig names the violation for what Run reported as escaped.
func EscapeSig(escaped string) string {
	if escaped == Hung {
		return "run-never-returns"
	}
	return "panic-escapes-run"
}

// Hung is what Run reports as "escaped" when gensign.Run did not return within the watchdog.
const Hung = "gensign.Run did not return (neither an error nor success) within the watchdog"

// Kind returns the gensign error kind name of err ("" for nil, "plain" for other errors).
func Kind(err error) string {
	if err == nil {
		return ""
	}
	e, ok := gensign.IsError(err)
	if !ok {
		return "plain"
	}
	switch e.Type() {
	case gensign.AllAuthFailed:
		return "all-auth-failed"
	case gensign.HandlerGenCSRErr:
		return "csr-generation"
	case gensign.HandlerConfErr:
		return "configuration"
	case gensign.InvalidParams:
		return "invalid-params"
	case gensign.SignerSignErr:
		return "signer"
	case gensign.AgentOpCertErr:
		return "agent"
	case gensign.Panic:
		return "panic"
	case gensign.HandlerAuthN:
		return "authn"
	case gensign.HandlerDisabled:
		return "disabled"
	}
	return fmt.Sprintf("type-%d", e.Type())
}

// LogName returns a login name (no path separators).
func LogName(r *rand.Rand) string {
	if r.Intn(9) == 0 { // qualified names, as a directory service hands them out (one name all the same)
		return []string{gen.Ident(r, 5) + "@corp.example.com", "root@" + gen.Ident(r, 4), gen.Ident(r, 3) + "@" + gen.Ident(r, 2) + "@x", gen.Ident(r, 4) + "+" + gen.Ident(r, 2) + "%h", gen.Ident(r, 3) + ":" + gen.Ident(r, 3) + ",wheel"}[r.Intn(5)]
	}
	switch r.Intn(8) {
	case 5: // upper and mixed case (login names are case-sensitive)
		return "JSmith" + gen.Ident(r, 2)
	case 6:
		return "ÉMILE-" + strings.ToUpper(gen.Ident(r, 3))
	case 7: // long: 48..120 bytes
		return strings.Repeat(gen.Ident(r, 6)+".", 7+r.Intn(10)) + "x"
	case 0:
		return gen.Ident(r, 1+r.Intn(8))
	case 1:
		return gen.Ident(r, 4) + "." + gen.Ident(r, 3)
	case 2:
		return "ünï-" + gen.Ident(r, 3)
	case 3:
		return gen.Ident(r, 3) + " " + gen.Ident(r, 2) + `"\`
	}
	return gen.Ident(r, 5) + "-" + gen.Ident(r, 2) + "_"
}
