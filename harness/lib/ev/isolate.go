package ev

import (
	"bufio"
	"encoding/json"
	"flag"
	"fmt"
	"os"
	"os/exec"
	"path/filepath"
	"regexp"
	"sort"
	"strings"
	"syscall"
	"time"
)

var (
	childProgress = flag.String("child-progress", "", "internal: progress file of an isolated child")
	progressFile  *os.File
)

// noteCase records the case about to run so that the parent can name it if the process dies.
func noteCase(family string, idx int) {
	if progressFile == nil {
		return
	}
	var b [96]byte
	for i := range b {
		b[i] = ' '
	}
	s := fmt.Sprintf("%s\t%d\n", family, idx)
	copy(b[:], s)
	progressFile.WriteAt(b[:], 0)
}

// MainIsolated runs body in a child process (same binary). An abnormal death of
// the child (fatal error, unrecovered panic in a library goroutine, runaway
// allocation) is a violation of the "never crashes" clause whose witness is the
// last case the child had started. With VERIF_RACE=1 the child runs with
// GORACE=halt_on_error=0 and every race report that touches the repository is
// a violation.
func MainIsolated(id, level string, watchdog time.Duration, body func(r *Run)) {
	// flags are parsed in Main; peek at os.Args for the child marker
	for _, a := range os.Args[1:] {
		if strings.HasPrefix(a, "-child-progress") || strings.HasPrefix(a, "--child-progress") {
			Main(id, level, func(r *Run) {
				f, err := os.OpenFile(*childProgress, os.O_RDWR|os.O_CREATE, 0o644)
				if err == nil {
					progressFile = f
				}
				body(r)
			})
			return
		}
	}
	tmp, err := os.MkdirTemp("", "iso")
	if err != nil {
		fmt.Fprintln(os.Stderr, err)
		os.Exit(2)
	}
	// os.Exit skips deferred calls: every exit below goes through exit()
	exit := func(code int) { os.RemoveAll(tmp); os.Exit(code) }
	prog := filepath.Join(tmp, "progress")
	errPath := filepath.Join(tmp, "stderr")
	errF, _ := os.Create(errPath)
	args := append(append([]string{}, os.Args[1:]...), "-child-progress="+prog)
	cmd := exec.Command(os.Args[0], args...)
	cmd.Stdout = os.Stdout
	cmd.Stderr = errF
	cmd.Env = os.Environ()
	race := os.Getenv("VERIF_RACE") == "1"
	if race {
		cmd.Env = append(cmd.Env, "GORACE=halt_on_error=0 log_path="+filepath.Join(tmp, "race"))
	}
	start := time.Now()
	if err := cmd.Start(); err != nil {
		fmt.Fprintln(os.Stderr, err)
		exit(2)
	}
	done := make(chan error, 1)
	go func() { done <- cmd.Wait() }()
	timedOut := false
	var werr error
	select {
	case werr = <-done:
	case <-time.After(watchdog):
		timedOut = true
		cmd.Process.Signal(syscall.SIGQUIT)
		select {
		case werr = <-done:
		case <-time.After(20 * time.Second):
			cmd.Process.Kill()
			werr = <-done
		}
	}
	errF.Close()
	stderrTail := tail(errPath, 200)
	code := 0
	if werr != nil {
		if ee, ok := werr.(*exec.ExitError); ok {
			code = ee.ExitCode()
		} else {
			code = -1
		}
	}
	// pass the child's diagnostics through (bounded)
	os.Stderr.WriteString(tail(errPath, 400))
	seed, tier := envInt("VERIF_SEED", 1), envOr("VERIF_TIER", "quick")
	for i, a := range os.Args[1:] {
		if a == "-seed" && i+2 < len(os.Args) {
			fmt.Sscan(os.Args[i+2], &seed)
		}
		if a == "-tier" && i+2 < len(os.Args) {
			tier = os.Args[i+2]
		}
	}
	if timedOut {
		dump := filepath.Join(VerifDir, "replays", id, fmt.Sprintf("watchdog-%s-%d.txt", tier, seed))
		os.MkdirAll(filepath.Dir(dump), 0o755)
		os.WriteFile(dump, []byte(stderrTail), 0o644)
		fmt.Printf("INCONCLUSIVE property=%s watchdog of %s fired (goroutine dump: %s)\n", id, watchdog, dump)
		exit(2)
	}
	extraViol := 0
	if code >= 10 && code <= 12 {
		code -= 10
	} else {
		code = 99 // anything else (incl. the Go runtime's exit status 2) is an abnormal death
	}
	if code != 0 && code != 1 && code != 2 {
		// abnormal death
		fam, idx := "", 0
		if b, err := os.ReadFile(prog); err == nil {
			f := strings.Fields(strings.TrimSpace(string(b)))
			if len(f) >= 2 {
				fam = f[0]
				fmt.Sscan(f[1], &idx)
			}
		}
		sig := "process-died:" + fatalSite(stderrTail)
		known := false
		for _, f := range loadFindings(id) {
			if f == sig {
				known = true
				fmt.Printf("KNOWN-FINDING: property=%s %s\n", id, sig)
			}
		}
		if !known {
			rf := ReplayFile{Property: id, Tier: tier, Seed: seed, Family: fam, Index: idx, Signature: sig, Detail: "the checking process died (exit status " + fmt.Sprint(code) + ") while running this case\n" + stderrTail}
			dir := filepath.Join(VerifDir, "replays", id)
			os.MkdirAll(dir, 0o755)
			path := filepath.Join(dir, fmt.Sprintf("%s-%d-died.json", tier, seed))
			b, _ := json.MarshalIndent(rf, "", " ")
			os.WriteFile(path, b, 0o644)
			fmt.Printf("VIOLATION property=%s replay=%s\n", id, path)
			patchEvidence(id, level, tier, seed, time.Since(start).Seconds(), map[string]any{"process_died": sig}, 1)
			exit(1)
		}
		code = 0
	}
	if race {
		sigs, blocks := raceReports(tmp)
		var fresh []string
		for _, s := range sigs {
			known := false
			for _, f := range loadFindings(id) {
				if f == "race:"+s {
					known = true
					fmt.Printf("KNOWN-FINDING: property=%s race:%s\n", id, s)
				}
			}
			if !known {
				fresh = append(fresh, s)
			}
		}
		info := map[string]any{"race_report_blocks": blocks, "race_signatures_in_repository_code": sigs}
		if len(fresh) > 0 {
			dir := filepath.Join(VerifDir, "replays", id)
			os.MkdirAll(dir, 0o755)
			for i, s := range fresh {
				rf := ReplayFile{Property: id, Tier: tier, Seed: seed, Family: "race", Index: i, Signature: "race:" + s, Detail: raceText(tmp, s)}
				path := filepath.Join(dir, fmt.Sprintf("%s-%d-race%d.json", tier, seed, i))
				b, _ := json.MarshalIndent(rf, "", " ")
				os.WriteFile(path, b, 0o644)
				fmt.Printf("VIOLATION property=%s replay=%s\n", id, path)
			}
			extraViol = len(fresh)
		}
		patchEvidence(id, level, tier, seed, time.Since(start).Seconds(), info, extraViol)
		if extraViol > 0 {
			exit(1)
		}
	}
	exit(code)
}

func tail(path string, lines int) string {
	b, err := os.ReadFile(path)
	if err != nil {
		return ""
	}
	l := strings.Split(string(b), "\n")
	if len(l) > lines {
		// keep the head of a Go crash (the interesting part) and the very end
		head := l[:lines*2/3]
		l = append(append(head, "…"), l[len(l)-lines/3:]...)
	}
	return strings.Join(l, "\n")
}

var fatalRE = regexp.MustCompile(`(?m)^(fatal error: .*|panic: .*|runtime: .*out of memory.*)$`)

func fatalSite(stderr string) string {
	m := fatalRE.FindString(stderr)
	if m == "" {
		m = "unknown"
	}
	if len(m) > 80 {
		m = m[:80]
	}
	site := panicSite(stderr)
	return strings.ReplaceAll(m, " ", "_") + "@" + site
}

// patchEvidence merges parent-side observations into the evidence file the child wrote
// (or writes a minimal one if the child died before writing it).
func patchEvidence(id, level, tier string, seed int64, wall float64, extra map[string]any, addViol int) {
	path := filepath.Join(VerifDir, "evidence", id+".json")
	var evd map[string]any
	if b, err := os.ReadFile(path); err == nil {
		json.Unmarshal(b, &evd)
	}
	if evd == nil {
		evd = map[string]any{"property_id": id, "tier": tier, "seed": seed, "level": level, "wall_s": wall,
			"coverage": map[string]any{"evaluations": 0, "distinct_nontrivial": 0, "rule": "the child process died before writing its evidence", "samples": []any{}}}
	}
	cov, _ := evd["coverage"].(map[string]any)
	if cov == nil {
		cov = map[string]any{}
	}
	for k, v := range extra {
		cov[k] = v
	}
	if addViol > 0 {
		cov["verdict"] = "violated"
		v, _ := evd["violations"].(float64)
		evd["violations"] = int(v) + addViol
	}
	evd["coverage"] = cov
	evd["wall_s"] = wall
	b, _ := json.MarshalIndent(evd, "", " ")
	os.MkdirAll(filepath.Dir(path), 0o755)
	os.WriteFile(path, append(b, '\n'), 0o644)
}

// raceReports parses the race detector's log files and returns the distinct
// signatures (pairs of innermost repository functions, line numbers stripped)
// of reports that touch repository code, and the total number of report blocks.
func raceReports(dir string) ([]string, int) {
	files, _ := filepath.Glob(filepath.Join(dir, "race.*"))
	set := map[string]bool{}
	blocks := 0
	for _, f := range files {
		for _, blk := range splitRace(f) {
			blocks++
			if s := raceSig(blk); s != "" {
				set[s] = true
			}
		}
	}
	var out []string
	for s := range set {
		out = append(out, s)
	}
	sort.Strings(out)
	return out, blocks
}

func splitRace(path string) []string {
	f, err := os.Open(path)
	if err != nil {
		return nil
	}
	defer f.Close()
	var blocks []string
	var cur []string
	in := false
	sc := bufio.NewScanner(f)
	sc.Buffer(make([]byte, 1<<20), 1<<22)
	for sc.Scan() {
		l := sc.Text()
		if strings.HasPrefix(l, "WARNING: DATA RACE") {
			in = true
			cur = nil
		}
		if in {
			cur = append(cur, l)
			if strings.HasPrefix(l, "==================") && len(cur) > 1 {
				blocks = append(blocks, strings.Join(cur, "\n"))
				in = false
			}
		}
	}
	if in && len(cur) > 0 {
		blocks = append(blocks, strings.Join(cur, "\n"))
	}
	return blocks
}

// raceSig returns "f1|f2" for the two accessing stacks of a report, each the
// innermost function belonging to the repository module; "" if neither stack touches it.
func raceSig(block string) string {
	var fns []string
	sections := regexp.MustCompile(`(?m)^(Read|Write|Previous read|Previous write|Atomic|Previous atomic)[^\n]*\n`).Split(block, -1)
	for _, sec := range sections[1:] {
		// cut at the blank line ending this stack
		if i := strings.Index(sec, "\n\n"); i >= 0 {
			sec = sec[:i]
		}
		fn := ""
		for _, l := range strings.Split(sec, "\n") {
			l = strings.TrimSpace(l)
			if strings.HasPrefix(l, "github.com/theparanoids/ysshra/") && !strings.HasPrefix(l, "github.com/theparanoids/ysshra/verifharness") {
				if j := strings.LastIndex(l, "("); j > 0 {
					l = l[:j]
				}
				fn = strings.TrimPrefix(l, "github.com/theparanoids/ysshra/")
				break
			}
		}
		fns = append(fns, fn)
		if len(fns) == 2 {
			break
		}
	}
	if len(fns) < 2 || (fns[0] == "" && fns[1] == "") {
		return ""
	}
	sort.Strings(fns)
	return fns[0] + "|" + fns[1]
}

func raceText(dir, sig string) string {
	files, _ := filepath.Glob(filepath.Join(dir, "race.*"))
	for _, f := range files {
		for _, blk := range splitRace(f) {
			if raceSig(blk) == sig {
				return blk
			}
		}
	}
	return ""
}

// RaceReports is raceReports for drivers that run a race-instrumented helper
// of their own with GORACE=log_path=<dir>/race.
func RaceReports(dir string) ([]string, int) { return raceReports(dir) }

// RaceText returns the first report block with the given signature.
func RaceText(dir, sig string) string { return raceText(dir, sig) }
