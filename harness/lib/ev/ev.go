// Package ev is the verdict / evidence / replay plumbing shared by every
// property driver. A driver is a main package that calls ev.Main.
package ev

import (
	"crypto/sha256"
	"encoding/binary"
	"encoding/hex"
	"encoding/json"
	"flag"
	"fmt"
	"io"
	"log"
	"math/rand"
	"os"
	"path/filepath"
	"runtime"
	"runtime/debug"
	"sort"
	"strings"
	"sync"
	"time"

	"github.com/rs/zerolog"
	zlog "github.com/rs/zerolog/log"
)

// VerifDir is where evidence, replays and known findings live.
var VerifDir = func() string {
	if d := os.Getenv("VERIF_DIR"); d != "" {
		return d
	}
	return "/verif"
}()

// Run carries the state of one check execution.
type Run struct {
	ID    string
	Level string
	Tier  string
	Seed  int64
	// Replay is non-nil when the driver was started with -replay.
	Replay *ReplayFile

	mu          sync.Mutex
	evals       int64
	nontrivial  map[string]struct{}
	samples     []any
	counters    map[string]int64
	extra       map[string]any
	rule        string
	assumptions []string
	exhaustive  bool
	violations  []violation
	known       []string
	inconcl     []string
	findings    []string // "finding:" signatures for this property
	start       time.Time
	floorEvals  int64
	floorNT     int64
}

type violation struct {
	sig    string
	detail string
	replay string
}

// ReplayFile is what a VIOLATION line points to.
type ReplayFile struct {
	Property  string          `json:"property"`
	Tier      string          `json:"tier"`
	Seed      int64           `json:"seed"`
	Family    string          `json:"family"`
	Index     int             `json:"index"`
	Signature string          `json:"signature"`
	Detail    string          `json:"detail"`
	Case      json.RawMessage `json:"case,omitempty"`
}

// Case is one generated case with its own PRNG, so that it can be re-run alone.
type Case struct {
	R      *Run
	Family string
	Index  int
	Rand   *rand.Rand
}

func caseSeed(seed int64, family string, idx int) int64 {
	h := sha256.New()
	var b [16]byte
	binary.BigEndian.PutUint64(b[:8], uint64(seed))
	binary.BigEndian.PutUint64(b[8:], uint64(idx))
	h.Write(b[:])
	h.Write([]byte(family))
	return int64(binary.BigEndian.Uint64(h.Sum(nil)[:8]) >> 1)
}

// Case derives the per-case PRNG. In replay mode it returns nil for every case
// but the recorded one.
func (r *Run) Case(family string, idx int) *Case {
	if r.Replay != nil && (r.Replay.Family != family || r.Replay.Index != idx) {
		return nil
	}
	noteCase(family, idx)
	return &Case{R: r, Family: family, Index: idx, Rand: rand.New(rand.NewSource(caseSeed(r.Seed, family, idx)))}
}

// CaseAlways derives a per-case PRNG irrespective of the replay filter (for
// base material that several cases share).
func (r *Run) CaseAlways(family string, idx int) *Case {
	return &Case{R: r, Family: family, Index: idx, Rand: rand.New(rand.NewSource(caseSeed(r.Seed, family, idx)))}
}

// Want reports whether a family should be generated at all (replay filter).
func (r *Run) Want(family string) bool {
	return r.Replay == nil || r.Replay.Family == family
}

// Pick returns quick or thorough value by tier.
func (r *Run) Pick(quick, thorough int) int {
	if r.Tier == "thorough" {
		return thorough
	}
	return quick
}

// Eval counts n executions.
func (r *Run) Eval(n int) {
	r.mu.Lock()
	r.evals += int64(n)
	r.mu.Unlock()
}

// Nontrivial records a distinct non-trivial case signature.
func (r *Run) Nontrivial(sig string) {
	h := sha256.Sum256([]byte(sig))
	k := string(h[:12])
	r.mu.Lock()
	r.nontrivial[k] = struct{}{}
	r.mu.Unlock()
}

// Sample keeps up to max literal samples per run.
func (r *Run) Sample(v any) {
	// samples illustrate the workload; a huge one (cases with 100 KB attributes) is cut to its beginning
	if b, err := json.Marshal(v); err == nil && len(b) > 4096 {
		v = map[string]any{"sample_truncated_to_2000_of_bytes": len(b), "beginning": string(b[:2000])}
	}
	r.mu.Lock()
	if len(r.samples) < 12 {
		r.samples = append(r.samples, v)
	}
	r.mu.Unlock()
}

// Count bumps a named counter shown in the evidence file.
func (r *Run) Count(key string, n int) {
	r.mu.Lock()
	r.counters[key] += int64(n)
	r.mu.Unlock()
}

// Counter reads a named counter.
func (r *Run) Counter(key string) int64 {
	r.mu.Lock()
	defer r.mu.Unlock()
	return r.counters[key]
}

// Extra attaches an arbitrary value to coverage.
func (r *Run) Extra(key string, v any) {
	r.mu.Lock()
	r.extra[key] = v
	r.mu.Unlock()
}

func (r *Run) Rule(s string)         { r.rule = s }
func (r *Run) Assume(s ...string)    { r.assumptions = append(r.assumptions, s...) }
func (r *Run) Exhaustive(b bool)     { r.exhaustive = b }
func (r *Run) Floor(evals, nt int64) { r.floorEvals, r.floorNT = evals, nt }
func (r *Run) Thorough() bool        { return r.Tier == "thorough" }
func (r *Run) Inconclusive(why string) {
	r.mu.Lock()
	r.inconcl = append(r.inconcl, why)
	r.mu.Unlock()
}
func (r *Run) NumViolations() int { r.mu.Lock(); defer r.mu.Unlock(); return len(r.violations) }

// Violation records a violation. sig is the case signature matched against
// known_findings.txt; caseData is stored in the replay file.
func (r *Run) Violation(c *Case, sig, detail string, caseData any) {
	fam, idx := "", 0
	if c != nil {
		fam, idx = c.Family, c.Index
	}
	r.mu.Lock()
	defer r.mu.Unlock()
	for _, f := range r.findings {
		if f == sig {
			line := fmt.Sprintf("KNOWN-FINDING: property=%s %s", r.ID, sig)
			for _, k := range r.known {
				if k == line {
					return
				}
			}
			r.known = append(r.known, line)
			return
		}
	}
	if len(r.violations) >= 25 {
		r.violations = append(r.violations, violation{sig: sig})
		return
	}
	var raw json.RawMessage
	if caseData != nil {
		b, err := json.Marshal(caseData)
		if err == nil {
			raw = b
		} else {
			raw, _ = json.Marshal(fmt.Sprintf("%+v", caseData))
		}
	}
	rf := ReplayFile{Property: r.ID, Tier: r.Tier, Seed: r.Seed, Family: fam, Index: idx, Signature: sig, Detail: detail, Case: raw}
	dir := filepath.Join(VerifDir, "replays", r.ID)
	os.MkdirAll(dir, 0o755)
	h := sha256.Sum256([]byte(sig + detail))
	path := filepath.Join(dir, fmt.Sprintf("%s-%d-%s.json", r.Tier, r.Seed, hex.EncodeToString(h[:5])))
	b, _ := json.MarshalIndent(rf, "", " ")
	os.WriteFile(path, b, 0o644)
	r.violations = append(r.violations, violation{sig: sig, detail: detail, replay: path})
	fmt.Fprintf(os.Stderr, "violation: %s\n  %s\n", sig, trunc(detail, 2000))
}

func trunc(s string, n int) string {
	if len(s) > n {
		return s[:n] + "…"
	}
	return s
}

// CarriedPanic transports a panic (with its original stack) from a helper
// goroutine to the goroutine that is guarded.
type CarriedPanic struct {
	Val   any
	Stack string
}

// Guard runs f and converts a panic into a violation of the "never crashes" clause.
// It returns true if f panicked.
func (r *Run) Guard(c *Case, what string, caseData any, f func()) (panicked bool) {
	defer func() {
		if p := recover(); p != nil {
			panicked = true
			st := string(debug.Stack())
			if cp, ok := p.(*CarriedPanic); ok {
				p, st = cp.Val, cp.Stack
			}
			if site := panicSite(st); site == "outside-repo" {
				// no frame of the repository on the stack: the harness itself failed, which is not a verdict on the property
				fmt.Fprintf(os.Stderr, "HARNESS PANIC in %s: %v\n%s\n", what, p, st)
				r.Inconclusive(fmt.Sprintf("harness panic in %s: %v", what, p))
			} else {
				r.Violation(c, "panic:"+what+":"+site, fmt.Sprintf("panic: %v\n%s", p, st), caseData)
			}
		}
	}()
	f()
	return false
}

// GuardWithin is Guard with a bounded-progress watchdog: f runs in a goroutine of its own, and if it has not finished
// after budget the case is abandoned (the goroutine is left behind) and hung is true. The caller decides what an
// unfinished case means for its property (a violation where the statement promises completion, inconclusive elsewhere).
func (r *Run) GuardWithin(c *Case, what string, caseData any, budget time.Duration, f func()) (panicked, hung bool) {
	done := make(chan bool, 1)
	go func() { done <- r.Guard(c, what, caseData, f) }()
	select {
	case p := <-done:
		return p, false
	case <-time.After(budget):
		return false, true
	}
}

// CaseBudget is the watchdog of one scripted case: several operations, each of which may take an operation time-out.
func CaseBudget() time.Duration { return 6*OpTimeout() + 10*time.Second }

// Unfinished records that a case did not finish: inconclusive (for properties whose statement promises completion the
// caller reports a violation instead), with the stacks of the goroutines that are inside the repository's code.
func (r *Run) Unfinished(what string) {
	r.Inconclusive(fmt.Sprintf("%s did not finish within the watchdog (%s); goroutines inside the repository:\n%s", what, CaseBudget(), RepoStacks(3000)))
}

// RepoStacks returns the stacks of the goroutines that are inside the repository's code right now (at most max bytes).
func RepoStacks(max int) string {
	buf := make([]byte, 1<<20)
	buf = buf[:runtime.Stack(buf, true)]
	var out []string
	for _, g := range strings.Split(string(buf), "\n\n") {
		if strings.Contains(g, "github.com/theparanoids/ysshra/") && strings.Contains(strings.ReplaceAll(g, "github.com/theparanoids/ysshra/verifharness", ""), "github.com/theparanoids/ysshra/") {
			out = append(out, g)
		}
	}
	s := strings.Join(out, "\n\n")
	if len(s) > max {
		s = s[:max]
	}
	return s
}

// panicSite returns the innermost function of the repository on a stack
// (no line numbers), so that signatures are stable across edits.
func panicSite(st string) string {
	for _, l := range strings.Split(st, "\n") {
		l = strings.TrimSpace(l)
		if !strings.HasPrefix(l, "github.com/theparanoids/ysshra/") || strings.HasPrefix(l, "github.com/theparanoids/ysshra/verifharness") {
			continue
		}
		if j := strings.LastIndex(l, "("); j > 0 {
			l = l[:j]
		}
		return strings.TrimPrefix(l, "github.com/theparanoids/ysshra/")
	}
	return "outside-repo"
}

// PanicSite is exported for drivers that recover themselves.
func PanicSite(st string) string { return panicSite(st) }

func loadFindings(id string) []string {
	b, err := os.ReadFile(filepath.Join(VerifDir, "known_findings.txt"))
	if err != nil {
		return nil
	}
	var out []string
	for _, l := range strings.Split(string(b), "\n") {
		l = strings.TrimSpace(l)
		pre := "finding: property=" + id + " "
		if strings.HasPrefix(l, pre) {
			out = append(out, strings.TrimSpace(l[len(pre):]))
		}
	}
	return out
}

// Quiet sends library logging nowhere. The log statements still run as they do in production (every level is on, the
// events are rendered and then discarded): rendering an error or a value for a log line is part of what the code does.
func Quiet() {
	log.SetOutput(io.Discard)
	zerolog.SetGlobalLevel(zerolog.TraceLevel)
	zlog.Logger = zerolog.New(io.Discard).With().Timestamp().Logger()
}

// Main is the entry point of every driver.
func Main(id, level string, body func(r *Run)) {
	tier := flag.String("tier", envOr("VERIF_TIER", "quick"), "quick|thorough")
	seed := flag.Int64("seed", envInt("VERIF_SEED", 1), "PRNG seed")
	replay := flag.String("replay", "", "replay file")
	noev := flag.Bool("no-evidence", false, "do not write the evidence file")
	flag.Parse()
	Quiet()
	r := &Run{ID: id, Level: level, Tier: *tier, Seed: *seed, nontrivial: map[string]struct{}{}, counters: map[string]int64{}, extra: map[string]any{}, start: time.Now()}
	if r.Tier != "quick" && r.Tier != "thorough" {
		fmt.Fprintln(os.Stderr, "bad tier", r.Tier)
		os.Exit(2)
	}
	if *replay != "" {
		b, err := os.ReadFile(*replay)
		if err != nil {
			fmt.Fprintln(os.Stderr, err)
			os.Exit(2)
		}
		var rf ReplayFile
		if err := json.Unmarshal(b, &rf); err != nil {
			fmt.Fprintln(os.Stderr, err)
			os.Exit(2)
		}
		r.Replay = &rf
		r.Tier, r.Seed = rf.Tier, rf.Seed
		*noev = true
		fmt.Printf("replaying %s family=%s index=%d seed=%d tier=%s\n  recorded: %s\n", rf.Property, rf.Family, rf.Index, rf.Seed, rf.Tier, rf.Signature)
	}
	r.findings = loadFindings(id)
	func() {
		defer func() {
			if p := recover(); p != nil {
				st := string(debug.Stack())
				if cp, ok := p.(*CarriedPanic); ok {
					p, st = cp.Val, cp.Stack
				}
				if site := panicSite(st); site != "outside-repo" {
					// the repository's code panicked at a call site the driver had not wrapped: still a verdict
					r.Violation(r.CaseAlways("unguarded", 0), "panic:"+site, fmt.Sprintf("panic: %v\n%s", p, st), nil)
					return
				}
				// A panic of the driver itself is a harness failure, not a verdict.
				fmt.Fprintf(os.Stderr, "HARNESS PANIC: %v\n%s\n", p, st)
				r.Inconclusive(fmt.Sprintf("harness panic: %v", p))
			}
		}()
		body(r)
	}()
	code := r.finish(!*noev)
	if *childProgress != "" {
		// an isolated child reports its verdict with 10/11/12 so that the parent can tell it from a
		// crash of the Go runtime (exit status 2) or any other abnormal death
		code += 10
	}
	os.Exit(code)
}

func (r *Run) finish(writeEv bool) int {
	r.mu.Lock()
	defer r.mu.Unlock()
	wall := time.Since(r.start).Seconds()
	if r.Replay == nil {
		if r.evals < r.floorEvals || int64(len(r.nontrivial)) < r.floorNT {
			r.inconcl = append(r.inconcl, fmt.Sprintf("observed too little: evaluations=%d (floor %d) distinct_nontrivial=%d (floor %d)", r.evals, r.floorEvals, len(r.nontrivial), r.floorNT))
		}
	}
	cov := map[string]any{
		"evaluations":         r.evals,
		"distinct_nontrivial": len(r.nontrivial),
		"rule":                r.rule,
		"samples":             r.samples,
		"exhaustive":          r.exhaustive,
	}
	if len(r.samples) == 0 {
		cov["samples"] = []any{}
	}
	keys := make([]string, 0, len(r.counters))
	for k := range r.counters {
		keys = append(keys, k)
	}
	sort.Strings(keys)
	cnt := map[string]int64{}
	for _, k := range keys {
		cnt[k] = r.counters[k]
	}
	cov["observed"] = cnt
	for k, v := range r.extra {
		cov[k] = v
	}
	verdict := "held"
	if len(r.violations) > 0 {
		verdict = "violated"
	} else if len(r.inconcl) > 0 {
		verdict = "inconclusive"
	}
	cov["verdict"] = verdict
	if len(r.inconcl) > 0 {
		cov["inconclusive_reasons"] = r.inconcl
	}
	if len(r.known) > 0 {
		cov["known_findings_seen"] = r.known
	}
	if len(r.violations) > 0 {
		var vs []string
		for _, v := range r.violations {
			vs = append(vs, v.sig)
		}
		cov["violation_signatures"] = vs
	}
	evd := map[string]any{
		"property_id": r.ID,
		"tier":        r.Tier,
		"seed":        r.Seed,
		"level":       r.Level,
		"coverage":    cov,
		"assumptions": r.assumptions,
		"wall_s":      wall,
		"violations":  len(r.violations),
	}
	if writeEv {
		os.MkdirAll(filepath.Join(VerifDir, "evidence"), 0o755)
		b, err := json.MarshalIndent(evd, "", " ")
		if err != nil {
			fmt.Fprintln(os.Stderr, "evidence marshal:", err)
			return 2
		}
		if err := os.WriteFile(filepath.Join(VerifDir, "evidence", r.ID+".json"), append(b, '\n'), 0o644); err != nil {
			fmt.Fprintln(os.Stderr, "evidence write:", err)
			return 2
		}
	}
	for _, k := range r.known {
		fmt.Println(k)
	}
	fmt.Printf("%s %s seed=%d: verdict=%s evaluations=%d distinct_nontrivial=%d wall=%.1fs\n", r.ID, r.Tier, r.Seed, verdict, r.evals, len(r.nontrivial), wall)
	for _, k := range keys {
		fmt.Printf("  observed %-40s %d\n", k, r.counters[k])
	}
	if len(r.violations) > 0 {
		seen := map[string]bool{}
		for _, v := range r.violations {
			if v.replay == "" || seen[v.replay] {
				continue
			}
			seen[v.replay] = true
			fmt.Printf("VIOLATION property=%s replay=%s\n", r.ID, v.replay)
		}
		return 1
	}
	if len(r.inconcl) > 0 {
		for _, w := range r.inconcl {
			fmt.Printf("INCONCLUSIVE property=%s %s\n", r.ID, w)
		}
		return 2
	}
	return 0
}

// OpTimeout is the per-operation watchdog (default 60 s; VERIF_OP_TIMEOUT_S overrides it for self-validation runs).
func OpTimeout() time.Duration {
	if n := envInt("VERIF_OP_TIMEOUT_S", 0); n > 0 {
		return time.Duration(n) * time.Second
	}
	return 60 * time.Second
}

func envOr(k, d string) string {
	if v := os.Getenv(k); v != "" {
		return v
	}
	return d
}

func envInt(k string, d int64) int64 {
	if v := os.Getenv(k); v != "" {
		var x int64
		if _, err := fmt.Sscan(v, &x); err == nil {
			return x
		}
	}
	return d
}
