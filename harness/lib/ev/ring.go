package ev

import (
	"fmt"
	"math/rand"
	"sync"
)

// Ring re-evaluates earlier inputs later on: the functions under test are
// deterministic, so an input must give the same result whenever it is presented
// and whatever was evaluated in between (catches state leaking between calls:
// caches, memo tables, reused buffers, package-level variables).
type Ring struct {
	mu    sync.Mutex
	items []ringItem
	adds  int
	every int
	rng   *rand.Rand
	name  string
}

type ringItem struct {
	eval     func() string
	digest   string
	describe string
}

// NewRing re-checks one earlier item on every `every`-th Add.
func NewRing(name string, seed int64, every int) *Ring {
	return &Ring{name: name, every: every, rng: rand.New(rand.NewSource(seed))}
}

// Add records an evaluation (eval recomputes the digest from scratch) and now and then re-evaluates an earlier one.
func (g *Ring) Add(r *Run, c *Case, eval func() string, digest, describe string) {
	g.mu.Lock()
	g.adds++
	if len(g.items) < 512 {
		g.items = append(g.items, ringItem{eval, digest, describe})
	} else if g.rng.Intn(4) == 0 {
		g.items[g.rng.Intn(len(g.items))] = ringItem{eval, digest, describe}
	}
	var pick *ringItem
	if g.adds%g.every == 0 && len(g.items) > 1 {
		it := g.items[g.rng.Intn(len(g.items))]
		pick = &it
	}
	g.mu.Unlock()
	if pick == nil {
		return
	}
	var again string
	if r.Guard(c, g.name+"(re-evaluation)", pick.describe, func() { again = pick.eval() }) {
		return
	}
	r.Count(g.name+": earlier inputs re-evaluated", 1)
	if again != pick.digest {
		r.Violation(c, "result-changes-on-re-evaluation:"+g.name, fmt.Sprintf("the same input gave another result when presented again later\ninput: %s\nfirst:  %s\nagain:  %s", trunc(pick.describe, 600), trunc(pick.digest, 600), trunc(again, 600)), pick.describe)
	}
}
