package ev

import (
	"fmt"
	"math/rand"
	"sync"
)

// Ring re-evaluates earlier inputs later on: the functions under test are
// deterministic, so an input must give the same result whenever it is presented
// and whatever was evaluated in between (catches state leaking between calls:
// caches, memo tables, reused buffers, package-level variables).
type Ring struct {
	mu    sync.Mutex
	items []ringItem
	adds  int
	every int
	rng   *rand.Rand
	name  string
}

type ringItem struct {
	eval     func() string
	digest   string
	describe string
}

// NewRing re-checks one earlier item on every `every`-th Add.
func NewRing(name string, seed int64, every int) *Ring {
	return &Ring{name: name, every: every, rng: rand.New(rand.NewSource(seed))}
}

// Add records an evaluation (eval recomputes the digest from scratch) and now and then re-evaluates an earlier one.
func (g *Ring) Add(r *Run, c *Case, eval func() string, digest, describe string) {
	g.mu.Lock()
	g.adds++
	if len(g.items) < 512 {
		g.items = append(g.items, ringItem{eval, digest, describe})
	} else if g.rng.Intn(4) == 0 {
		g.items[g.rng.Intn(len(g.items))] = ringItem{eval, digest, describe}
	}
	var pick *ringItem
	if g.adds%g.every == 0 && len(g.items) > 1 {
		it := g.items[g.rng.Intn(len(g.items))]
		pick = &it
	}
	g.mu.Unlock()
	if pick == nil {
		return
	}
	var again string
	if r.Guard(c, g.name+"(re-evaluation)", pick.describe, func() { again = pick.eval() }) {
		return
	}
	r.Count(g.name+": earlier inputs re-evaluated", 1)
	if again != pick.digest {
		r.Violation(c, "result-changes-on-re-evaluation:"+g.name, fmt.Sprintf("the same input gave another result when presented again later\ninput: %s\nfirst:  %s\nagain:  %s", trunc(pick.describe, 600), trunc(pick.digest, 600), trunc(again, 600)), pick.describe)
	}
}

// Stress evaluates every remembered input again from several goroutines at once: deterministic functions give the
// results they gave alone. (Unsynchronised package-level state — memo tables, pools, shared slices — shows as a
// differing result here, or ends the process with the runtime's "concurrent map" fatal error, which the isolated
// parent reports.)
func (g *Ring) Stress(r *Run, c *Case, workers, rounds int) {
	g.mu.Lock()
	items := append([]ringItem(nil), g.items...)
	g.mu.Unlock()
	if len(items) == 0 || c == nil {
		return
	}
	type miss struct {
		it    ringItem
		again string
	}
	var mu sync.Mutex
	var misses []miss
	var wg sync.WaitGroup
	start := make(chan struct{})
	for w := 0; w < workers; w++ {
		wg.Add(1)
		go func(w int) {
			defer wg.Done()
			defer func() {
				if p := recover(); p != nil {
					mu.Lock()
					misses = append(misses, miss{ringItem{describe: "(panic during concurrent evaluation)"}, fmt.Sprint(p)})
					mu.Unlock()
				}
			}()
			<-start
			for k := 0; k < rounds; k++ {
				for i := range items {
					it := items[(i*7+w*13+k)%len(items)]
					if again := it.eval(); again != it.digest {
						mu.Lock()
						misses = append(misses, miss{it, again})
						mu.Unlock()
						return
					}
				}
			}
		}(w)
	}
	close(start)
	wg.Wait()
	r.Eval(len(items) * workers * rounds)
	if len(misses) > 0 {
		m := misses[0]
		r.Violation(c, "result-changes-under-concurrent-evaluation:"+g.name, fmt.Sprintf("%d goroutines evaluating %d earlier inputs at once: a result differs from the one obtained alone\ninput: %s\nalone:      %s\nconcurrent: %s", workers, len(items), trunc(m.it.describe, 600), trunc(m.it.digest, 600), trunc(m.again, 600)), m.it.describe)
		return
	}
	r.Count(g.name+": earlier inputs re-evaluated concurrently", len(items)*workers*rounds)
}

// Digest evaluates f; a panic becomes part of the result (the guarded first evaluation has reported it already).
func Digest(f func() string) (d string) {
	defer func() {
		if p := recover(); p != nil {
			d = fmt.Sprintf("panic: %v", p)
		}
	}()
	return f()
}
