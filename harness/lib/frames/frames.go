// Package frames builds well-formed ssh-agent / yubiagent request frames
// (bodies without the length prefix) for the stream workloads of C12, C13, C20.
package frames

import (
	"encoding/binary"
	"math/rand"

	"golang.org/x/crypto/ssh"
	"golang.org/x/crypto/ssh/agent"

	"github.com/theparanoids/ysshra/verifharness/lib/gen"
)

// capture is a fake connection: it records what the x/crypto client writes and
// answers every request with a canned reply of the right type.
type capture struct {
	frames [][]byte
	buf    []byte
	reply  []byte
}

func (c *capture) Write(p []byte) (int, error) {
	c.buf = append(c.buf, p...)
	for len(c.buf) >= 4 {
		n := int(binary.BigEndian.Uint32(c.buf))
		if len(c.buf) < 4+n {
			break
		}
		f := append([]byte{}, c.buf[4:4+n]...)
		c.buf = c.buf[4+n:]
		c.frames = append(c.frames, f)
		switch {
		case len(f) > 0 && f[0] == 11:
			c.reply = append(c.reply, 0, 0, 0, 5, 12, 0, 0, 0, 0)
		case len(f) > 0 && f[0] == 13:
			c.reply = append(c.reply, 0, 0, 0, 1, 5)
		default:
			c.reply = append(c.reply, 0, 0, 0, 1, 6)
		}
	}
	return len(p), nil
}

func (c *capture) Read(p []byte) (int, error) {
	n := copy(p, c.reply)
	c.reply = c.reply[n:]
	return n, nil
}

// Captured returns the request frames the x/crypto client emits for f.
func Captured(f func(a agent.ExtendedAgent)) [][]byte {
	c := &capture{}
	f(agent.NewClient(c))
	return c.frames
}

func str(b []byte) []byte {
	out := make([]byte, 4+len(b))
	binary.BigEndian.PutUint32(out, uint32(len(b)))
	copy(out[4:], b)
	return out
}

// Str is the SSH string encoding.
func Str(b []byte) []byte { return str(b) }

// Kind labels for the oracle.
const (
	KList = iota
	KListV1
	KSign
	KSimple // success/failure reply
	KAddHardCert
	KListSlots
	KReadSlot
	KAttestSlot
	KWait
	KRelayed
)

// Frame is a well-formed request with the kind of response it must receive.
type Frame struct {
	Body []byte
	Kind int
	Name string
	// WaitCode is the awaited code for KWait frames.
	WaitCode byte
}

// Gen produces one well-formed frame of the conservative grammar.
func Gen(r *rand.Rand, now uint64) Frame {
	k := gen.PickKey(r)
	switch r.Intn(20) {
	case 0:
		return Frame{[]byte{11}, KList, "list", 0}
	case 1:
		return Frame{[]byte{1}, KListV1, "list-v1", 0}
	case 2:
		return Frame{[]byte{19}, KSimple, "remove-all", 0}
	case 3:
		return Frame{append([]byte{22}, str([]byte(gen.Str(r, 12)))...), KSimple, "lock", 0}
	case 4:
		return Frame{append([]byte{23}, str([]byte(gen.Str(r, 12)))...), KSimple, "unlock", 0}
	case 5, 6:
		var fl agent.SignatureFlags
		if r.Intn(2) == 0 {
			fl = agent.SignatureFlags([]int{2, 4}[r.Intn(2)])
		}
		var key ssh.PublicKey = k.Pub
		if r.Intn(3) == 0 {
			key = gen.MakeCert(gen.CertSpec{Key: k, KeyID: "x", ValidAfter: now - 100, ValidBefore: now + 100})
		}
		fs := Captured(func(a agent.ExtendedAgent) { a.SignWithFlags(key, gen.Bytes(r, r.Intn(200)), fl) })
		return Frame{fs[0], KSign, "sign", 0}
	case 7, 8, 9:
		ak := agent.AddedKey{PrivateKey: k.Priv, Comment: gen.Str(r, 10)}
		if r.Intn(2) == 0 {
			ak.LifetimeSecs = uint32(r.Intn(100000))
		}
		if r.Intn(3) == 0 {
			ak.ConfirmBeforeUse = true
		}
		if r.Intn(3) == 0 {
			ak.Certificate = gen.MakeCert(gen.CertSpec{Key: k, KeyID: gen.Str(r, 20), ValidAfter: now - 100, ValidBefore: now + 100})
		}
		fs := Captured(func(a agent.ExtendedAgent) { a.Add(ak) })
		return Frame{fs[0], KSimple, "add", 0}
	case 10:
		fs := Captured(func(a agent.ExtendedAgent) { a.Remove(k.Pub) })
		return Frame{fs[0], KSimple, "remove", 0}
	case 11, 12:
		c := gen.MakeCert(gen.CertSpec{Key: k, KeyID: gen.YSSHCAKeyID(gen.KeyIDSpec{HW: true, Touch: 3, TransID: "t", Prins: []string{"u"}}), ValidAfter: now - 100, ValidBefore: now + 100})
		var key ssh.PublicKey = c
		if r.Intn(4) == 0 {
			key = k.Pub // not a certificate: answered with an error text
		}
		if r.Intn(2) == 0 {
			return Frame{append([]byte{31}, key.Marshal()...), KAddHardCert, "add-hard-cert-legacy", 0}
		}
		b := append([]byte{31}, str(key.Marshal())...)
		b = append(b, str([]byte(gen.Str(r, 8)))...)
		return Frame{b, KAddHardCert, "add-hard-cert", 0}
	case 13:
		return Frame{[]byte{32}, KListSlots, "list-slots", 0}
	case 14:
		return Frame{append([]byte{33}, []byte(gen.Str(r, 6))...), KReadSlot, "read-slot", 0}
	case 15:
		return Frame{append([]byte{34}, []byte(gen.Str(r, 6))...), KAttestSlot, "attest-slot", 0}
	case 16:
		c := byte(r.Intn(256))
		return Frame{[]byte{35, c}, KWait, "wait", c}
	}
	// any other code with any body is relayed
	for {
		c := byte(r.Intn(256))
		switch c {
		case 1, 11, 13, 17, 18, 19, 22, 23, 25, 31, 32, 33, 34, 35:
			continue
		}
		return Frame{append([]byte{c}, gen.Bytes(r, r.Intn(40))...), KRelayed, "relayed", 0}
	}
}
