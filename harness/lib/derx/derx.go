// Package derx holds small DER helpers shared by drivers.
package derx

import (
	"bytes"
	"encoding/asn1"
	"fmt"
)

func derTLV(tag byte, content []byte) []byte {
	var l []byte
	n := len(content)
	switch {
	case n < 0x80:
		l = []byte{byte(n)}
	case n < 0x100:
		l = []byte{0x81, byte(n)}
	case n < 0x10000:
		l = []byte{0x82, byte(n >> 8), byte(n)}
	default:
		l = []byte{0x83, byte(n >> 16), byte(n >> 8), byte(n)}
	}
	return append(append([]byte{tag}, l...), content...)
}

func children(seq []byte) ([]asn1.RawValue, error) {
	var outer asn1.RawValue
	rest, err := asn1.Unmarshal(seq, &outer)
	if err != nil || len(rest) != 0 {
		return nil, fmt.Errorf("outer: %v", err)
	}
	var out []asn1.RawValue
	b := outer.Bytes
	for len(b) > 0 {
		var v asn1.RawValue
		b, err = asn1.Unmarshal(b, &v)
		if err != nil {
			return nil, err
		}
		out = append(out, v)
	}
	return out, nil
}

// stripNULL re-encodes an RSA certificate so that the SubjectPublicKeyInfo
// AlgorithmIdentifier omits its NULL parameter. Returns the new DER, TBS and SPKI.
func stripNULL(der []byte) (newDER, newTBS, newSPKI []byte, err error) {
	top, err := children(der)
	if err != nil || len(top) != 3 {
		return nil, nil, nil, fmt.Errorf("top: %v", err)
	}
	tbs, err := children(top[0].FullBytes)
	if err != nil {
		return nil, nil, nil, err
	}
	idx := -1
	for i, e := range tbs {
		// the SPKI is the SEQUENCE right after the subject: version?, serial, sigalg, issuer, validity, subject, spki
		if e.Class == 0 && e.Tag == 16 {
			// count sequences: sigalg(1) issuer(2) validity(3) subject(4) spki(5)
			n := 0
			for _, p := range tbs[:i+1] {
				if p.Class == 0 && p.Tag == 16 {
					n++
				}
			}
			if n == 5 {
				idx = i
				break
			}
		}
	}
	if idx < 0 {
		return nil, nil, nil, fmt.Errorf("no spki")
	}
	sp, err := children(tbs[idx].FullBytes)
	if err != nil || len(sp) != 2 {
		return nil, nil, nil, fmt.Errorf("spki: %v", err)
	}
	ai, err := children(sp[0].FullBytes)
	if err != nil || len(ai) != 2 || !bytes.Equal(ai[1].FullBytes, []byte{5, 0}) {
		return nil, nil, nil, fmt.Errorf("algorithm identifier has no NULL")
	}
	newAI := derTLV(0x30, ai[0].FullBytes)
	newSPKI = derTLV(0x30, append(append([]byte{}, newAI...), sp[1].FullBytes...))
	var tb []byte
	for i, e := range tbs {
		if i == idx {
			tb = append(tb, newSPKI...)
		} else {
			tb = append(tb, e.FullBytes...)
		}
	}
	newTBS = derTLV(0x30, tb)
	newDER = derTLV(0x30, append(append(append([]byte{}, newTBS...), top[1].FullBytes...), top[2].FullBytes...))
	return
}

// StripNULL is stripNULL for other packages: the certificate re-encoded with the RSA key's algorithm identifier lacking its NULL parameter.
func StripNULL(der []byte) ([]byte, error) {
	d, _, _, err := stripNULL(der)
	return d, err
}
