// Package gen holds seeded generators shared by the drivers.
package gen

import (
	"math/rand"
	"strings"
	"unicode/utf8"
)

var hostileRunes = []rune{'"', '\\', '/', '{', '}', '[', ']', ',', ':', '\n', '\r', '\t', 0, 1, 0x7f, ' ', '=', '@', '\'', '`', '$', '%', 'é', 'ß', '日', '本', '😀', 0x2028, 0xfeff, 0x200b, 'a', 'Z', '0', '-', '_', '.'}

// Str returns a valid-UTF-8 string of up to max runes drawn from a hostile alphabet.
func Str(r *rand.Rand, max int) string {
	n := r.Intn(max + 1)
	switch r.Intn(8) {
	case 0:
		return ""
	case 1:
		return Ident(r, 1+r.Intn(12))
	}
	var b strings.Builder
	for i := 0; i < n; i++ {
		if r.Intn(24) == 0 {
			// text that LOOKS like an escape sequence but is literal characters
			b.WriteString([]string{`\u0026`, `\u003c`, `\u003e`, `\n`, `\"`, `\\`, `&amp;`, `%00`, `\x00`}[r.Intn(9)])
			continue
		}
		if r.Intn(3) == 0 {
			b.WriteRune(hostileRunes[r.Intn(len(hostileRunes))])
		} else if r.Intn(6) == 0 {
			ru := rune(r.Intn(0x10ffff))
			if !utf8.ValidRune(ru) {
				ru = 'x'
			}
			b.WriteRune(ru)
		} else {
			b.WriteByte(byte('a' + r.Intn(26)))
		}
	}
	return b.String()
}

// NonEmptyStr is Str that never returns "".
func NonEmptyStr(r *rand.Rand, max int) string {
	for {
		if s := Str(r, max); s != "" {
			return s
		}
	}
}

// Ident returns [a-z0-9]{n}.
func Ident(r *rand.Rand, n int) string {
	const al = "abcdefghijklmnopqrstuvwxyz0123456789"
	b := make([]byte, n)
	for i := range b {
		b[i] = al[r.Intn(len(al))]
	}
	return string(b)
}

// Bytes returns n random bytes.
func Bytes(r *rand.Rand, n int) []byte {
	b := make([]byte, n)
	r.Read(b)
	return b
}

// StrList returns a list (possibly nil or empty) of strings.
func StrList(r *rand.Rand, maxN, maxLen int) []string {
	switch r.Intn(6) {
	case 0:
		return nil
	case 1:
		return []string{}
	}
	n := 1 + r.Intn(maxN)
	out := make([]string, n)
	for i := range out {
		out[i] = Str(r, maxLen)
	}
	return out
}

// IP returns a textual IPv4 or IPv6 address.
func IP(r *rand.Rand) string {
	if r.Intn(2) == 0 {
		b := Bytes(r, 4)
		return itoa(int(b[0])) + "." + itoa(int(b[1])) + "." + itoa(int(b[2])) + "." + itoa(int(b[3]))
	}
	const hexd = "0123456789abcdef"
	var parts []string
	for i := 0; i < 8; i++ {
		n := 1 + r.Intn(4)
		p := make([]byte, n)
		for j := range p {
			p[j] = hexd[r.Intn(16)]
		}
		parts = append(parts, string(p))
	}
	return strings.Join(parts, ":")
}

func itoa(i int) string {
	if i == 0 {
		return "0"
	}
	var b []byte
	for i > 0 {
		b = append([]byte{byte('0' + i%10)}, b...)
		i /= 10
	}
	return string(b)
}
