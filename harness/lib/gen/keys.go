package gen

import (
	"crypto"
	"crypto/ecdsa"
	"crypto/ed25519"
	"crypto/elliptic"
	crand "crypto/rand"
	"crypto/rsa"
	"crypto/sha256"
	"encoding/binary"
	"encoding/json"
	"io"
	"math/rand"
	"sync"
	"sync/atomic"

	"golang.org/x/crypto/ssh"

	"fmt"
)

// Key is a pooled key pair.
type Key struct {
	Name string
	Priv crypto.PrivateKey // *rsa.PrivateKey, *ecdsa.PrivateKey or *ed25519.PrivateKey (as x/crypto's agent expects)
	Pub  ssh.PublicKey
	Sgn  ssh.Signer
	// SK: a security-key backed identity (sk-ssh-ed25519@openssh.com). Priv is then the
	// ssh.Signer itself: such an identity cannot be marshalled into an add-identity
	// request by x/crypto's client; wire.Agent's keyring accepts it on a direct Add.
	SK bool
}

// skSigner produces genuine sk-ssh-ed25519@openssh.com signatures (the harness
// plays the authenticator): Ed25519 over SHA256(application) || flags || counter || SHA256(data).
type skSigner struct {
	pub  ssh.PublicKey
	priv ed25519.PrivateKey
	app  string
	ctr  atomic.Uint32
}

func (s *skSigner) PublicKey() ssh.PublicKey { return s.pub }
func (s *skSigner) Sign(_ io.Reader, data []byte) (*ssh.Signature, error) {
	ad, dd := sha256.Sum256([]byte(s.app)), sha256.Sum256(data)
	rest := make([]byte, 5)
	rest[0] = 1 // user presence
	binary.BigEndian.PutUint32(rest[1:], s.ctr.Add(1))
	msg := append(append(append([]byte{}, ad[:]...), rest...), dd[:]...)
	return &ssh.Signature{Format: s.pub.Type(), Blob: ed25519.Sign(s.priv, msg), Rest: rest}, nil
}

var (
	skOnce sync.Once
	skPool []*Key
)

// SKPool returns two security-key backed identities (kept out of Pool: x/crypto's keyring cannot hold them).
func SKPool() []*Key {
	skOnce.Do(func() {
		for i := 0; i < 2; i++ {
			pub, priv, _ := ed25519.GenerateKey(crand.Reader)
			app := "ssh:"
			if i == 1 {
				app = "ssh:verif"
			}
			blob := ssh.Marshal(struct {
				Name string
				Key  []byte
				App  string
			}{ssh.KeyAlgoSKED25519, []byte(pub), app})
			pk, err := ssh.ParsePublicKey(blob)
			if err != nil {
				panic(err)
			}
			sg := &skSigner{pub: pk, priv: priv, app: app}
			skPool = append(skPool, &Key{Name: "sk-ed25519", Priv: sg, Pub: pk, Sgn: sg, SK: true})
		}
	})
	return skPool
}

var (
	poolOnce sync.Once
	pool     []*Key
	caKey    *Key
)

func mk(name string, priv crypto.PrivateKey) *Key {
	sgn, err := ssh.NewSignerFromKey(priv)
	if err != nil {
		panic(err)
	}
	return &Key{Name: name, Priv: priv, Pub: sgn.PublicKey(), Sgn: sgn}
}

func newEd() *Key {
	_, p, _ := ed25519.GenerateKey(crand.Reader)
	return mk("ed25519", &p)
}
func newEC(c elliptic.Curve, name string) *Key {
	k, _ := ecdsa.GenerateKey(c, crand.Reader)
	return mk(name, k)
}
func newRSA(bits int) *Key {
	k, err := rsa.GenerateKey(crand.Reader, bits)
	if err != nil {
		panic(err)
	}
	return mk("rsa", k)
}

// Pool returns the process-wide key pool (RSA keys are few because they are slow to make).
func Pool() []*Key {
	poolOnce.Do(func() {
		var wg sync.WaitGroup
		rs := make([]*Key, 3)
		for i := range rs {
			wg.Add(1)
			go func(i int) { defer wg.Done(); rs[i] = newRSA(2048) }(i)
		}
		for i := 0; i < 8; i++ {
			pool = append(pool, newEd())
		}
		for i := 0; i < 4; i++ {
			pool = append(pool, newEC(elliptic.P256(), "p256"), newEC(elliptic.P384(), "p384"))
		}
		pool = append(pool, newEC(elliptic.P521(), "p521"), newEC(elliptic.P521(), "p521"))
		caKey = newEd()
		wg.Wait()
		pool = append(pool, rs...)
	})
	return pool
}

// CA returns the pooled certificate-authority key.
func CA() *Key { Pool(); return caKey }

// FreshKey makes a new cheap key (Ed25519 or P-256) outside the pool.
func FreshKey(r *rand.Rand) *Key {
	if r.Intn(2) == 0 {
		return newEd()
	}
	return newEC(elliptic.P256(), "p256")
}

// PickKey picks a pooled key.
func PickKey(r *rand.Rand) *Key { p := Pool(); return p[r.Intn(len(p))] }

// CertSpec describes an SSH certificate to make.
type CertSpec struct {
	Key         *Key
	KeyID       string
	ValidAfter  uint64
	ValidBefore uint64
	Principals  []string
	CritOpts    map[string]string
	Serial      uint64
	Host        bool // a host certificate instead of a user certificate
}

// MakeCert signs a user certificate with the pooled CA.
func MakeCert(s CertSpec) *ssh.Certificate {
	c := &ssh.Certificate{
		Key: s.Key.Pub, Serial: s.Serial, CertType: map[bool]uint32{false: ssh.UserCert, true: ssh.HostCert}[s.Host], KeyId: s.KeyID, ValidPrincipals: s.Principals,
		ValidAfter: s.ValidAfter, ValidBefore: s.ValidBefore,
		Permissions: ssh.Permissions{CriticalOptions: s.CritOpts, Extensions: map[string]string{"permit-pty": ""}},
	}
	if err := c.SignCert(crand.Reader, CA().Sgn); err != nil {
		panic(err)
	}
	// re-parse so that the value is exactly what travels on the wire
	pk, err := ssh.ParsePublicKey(c.Marshal())
	if err != nil {
		panic(err)
	}
	return pk.(*ssh.Certificate)
}

// KeyIDSpec are the attributes of a YSSHCA KeyID.
type KeyIDSpec struct {
	FF, HW, Headless, Nonce bool
	Touch                   int
	TransID                 string
	Prins                   []string
}

// YSSHCAKeyID returns a well-formed version-1 KeyID text (raw JSON, no codec checks).
func YSSHCAKeyID(s KeyIDSpec) string {
	// written out member by member (the codec under test is not used to build its own test inputs)
	pj, _ := json.Marshal(s.Prins)
	tj, _ := json.Marshal(s.TransID)
	return fmt.Sprintf(`{"prins":%s,"transID":%s,"reqUser":"u","reqIP":"10.0.0.1","reqHost":"h","isFirefighter":%v,"isHWKey":%v,"isHeadless":%v,"isNonce":%v,"usage":0,"touchPolicy":%d,"ver":1}`,
		pj, tj, s.FF, s.HW, s.Headless, s.Nonce, s.Touch)
}

// RefIsYSSHCA is the harness's reference predicate "this KeyID decodes as a YSSHCA KeyID".
func RefIsYSSHCA(text string) bool {
	var m map[string]json.RawMessage
	if json.Unmarshal([]byte(text), &m) != nil || m == nil {
		return false
	}
	// the attribute types as the format defines them, written out here (not borrowed from the codec under test)
	var k struct {
		Principals    []string `json:"prins"`
		TransID       string   `json:"transID"`
		ReqUser       string   `json:"reqUser"`
		ReqIP         string   `json:"reqIP"`
		ReqHost       string   `json:"reqHost"`
		IsFirefighter bool     `json:"isFirefighter"`
		IsHWKey       bool     `json:"isHWKey"`
		IsHeadless    bool     `json:"isHeadless"`
		IsNonce       bool     `json:"isNonce"`
		Usage         int64    `json:"usage"`
		TouchPolicy   int64    `json:"touchPolicy"`
		Version       uint16   `json:"ver"`
	}
	if json.Unmarshal([]byte(text), &k) != nil {
		return false
	}
	if k.Version != 1 {
		return false
	}
	for _, key := range []string{"prins", "transID", "reqUser", "reqIP", "reqHost", "isFirefighter", "isHWKey", "isHeadless", "isNonce", "touchPolicy", "ver"} {
		if _, ok := m[key]; !ok {
			return false
		}
	}
	never := k.TouchPolicy == 1
	if k.IsHeadless && (k.IsHWKey || k.IsFirefighter || !never) {
		return false
	}
	if k.IsNonce && (k.IsFirefighter || k.IsHeadless || !never) {
		return false
	}
	return true
}
