// Package caserver runs real gRPC "crypki" signing servers with TLS on loopback
// aliases (127.0.0.N) that share one port, recording every handshake and request.
package caserver

import (
	"context"
	"crypto/ecdsa"
	"crypto/elliptic"
	"crypto/rand"
	"crypto/rsa"
	"crypto/tls"
	"crypto/x509"
	"crypto/x509/pkix"
	"encoding/pem"
	"fmt"
	"math/big"
	"net"
	"os"
	"path/filepath"
	"sync"
	"time"

	"github.com/theparanoids/crypki/proto"
	"google.golang.org/grpc"
	"google.golang.org/grpc/credentials"
	"google.golang.org/grpc/peer"
)

// CA is a certificate authority owned by the harness.
type CA struct {
	Key  *ecdsa.PrivateKey
	Cert *x509.Certificate
	PEM  []byte
}

var serial int64 = 1000
var serialMu sync.Mutex

func nextSerial() *big.Int {
	serialMu.Lock()
	defer serialMu.Unlock()
	serial++
	return big.NewInt(serial)
}

// NewCA creates a self-signed CA.
func NewCA(cn string) *CA {
	k, _ := ecdsa.GenerateKey(elliptic.P256(), rand.Reader)
	t := &x509.Certificate{SerialNumber: nextSerial(), Subject: pkix.Name{CommonName: cn}, NotBefore: time.Now().Add(-100 * time.Hour), NotAfter: time.Now().Add(10000 * time.Hour), IsCA: true, BasicConstraintsValid: true, KeyUsage: x509.KeyUsageCertSign | x509.KeyUsageDigitalSignature}
	der, err := x509.CreateCertificate(rand.Reader, t, t, &k.PublicKey, k)
	if err != nil {
		panic(err)
	}
	c, _ := x509.ParseCertificate(der)
	return &CA{Key: k, Cert: c, PEM: pem.EncodeToMemory(&pem.Block{Type: "CERTIFICATE", Bytes: der})}
}

// NewCAFrom creates a self-signed CA whose certificate becomes valid at notBefore.
func NewCAFrom(cn string, notBefore time.Time) *CA {
	k, _ := ecdsa.GenerateKey(elliptic.P256(), rand.Reader)
	t := &x509.Certificate{SerialNumber: nextSerial(), Subject: pkix.Name{CommonName: cn}, NotBefore: notBefore, NotAfter: notBefore.Add(10000 * time.Hour), IsCA: true, BasicConstraintsValid: true, KeyUsage: x509.KeyUsageCertSign | x509.KeyUsageDigitalSignature}
	der, err := x509.CreateCertificate(rand.Reader, t, t, &k.PublicKey, k)
	if err != nil {
		panic(err)
	}
	c, _ := x509.ParseCertificate(der)
	return &CA{Key: k, Cert: c, PEM: pem.EncodeToMemory(&pem.Block{Type: "CERTIFICATE", Bytes: der})}
}

// Intermediate makes a CA whose certificate is issued by ca.
func (ca *CA) Intermediate(cn string) *CA {
	k, _ := ecdsa.GenerateKey(elliptic.P256(), rand.Reader)
	t := &x509.Certificate{SerialNumber: nextSerial(), Subject: pkix.Name{CommonName: cn}, NotBefore: time.Now().Add(-100 * time.Hour), NotAfter: time.Now().Add(10000 * time.Hour), IsCA: true, BasicConstraintsValid: true, KeyUsage: x509.KeyUsageCertSign | x509.KeyUsageDigitalSignature}
	der, err := x509.CreateCertificate(rand.Reader, t, ca.Cert, &k.PublicKey, ca.Key)
	if err != nil {
		panic(err)
	}
	c, _ := x509.ParseCertificate(der)
	return &CA{Key: k, Cert: c, PEM: pem.EncodeToMemory(&pem.Block{Type: "CERTIFICATE", Bytes: der})}
}

// Leaf describes a leaf certificate.
type Leaf struct {
	CN         string
	IPs        []string
	DNS        []string
	NotBefore  time.Time
	NotAfter   time.Time
	SelfSigned bool
	Client     bool
	NoEKU      bool // no extended-key-usage extension at all (good for any purpose)
	RSA        bool // an RSA key (2048 bits, shared by all such leaves of the process) instead of a fresh P-256 key
}

var (
	rsaOnce sync.Once
	rsaKey  *rsa.PrivateKey
)

// Issue makes a leaf certificate signed by ca (or self-signed).
func (ca *CA) Issue(l Leaf) tls.Certificate {
	k, _ := ecdsa.GenerateKey(elliptic.P256(), rand.Reader)
	if l.NotBefore.IsZero() {
		l.NotBefore = time.Now().Add(-48 * time.Hour)
	}
	if l.NotAfter.IsZero() {
		l.NotAfter = time.Now().Add(4800 * time.Hour)
	}
	t := &x509.Certificate{SerialNumber: nextSerial(), Subject: pkix.Name{CommonName: l.CN}, NotBefore: l.NotBefore, NotAfter: l.NotAfter, KeyUsage: x509.KeyUsageDigitalSignature,
		ExtKeyUsage: []x509.ExtKeyUsage{x509.ExtKeyUsageServerAuth, x509.ExtKeyUsageClientAuth}, DNSNames: l.DNS}
	for _, ip := range l.IPs {
		t.IPAddresses = append(t.IPAddresses, net.ParseIP(ip))
	}
	if l.NoEKU {
		t.ExtKeyUsage = nil
	}
	parent, pk := ca.Cert, ca.Key
	if l.SelfSigned {
		parent, pk = t, k
	}
	if l.RSA && !l.SelfSigned {
		rsaOnce.Do(func() { rsaKey, _ = rsa.GenerateKey(rand.Reader, 2048) })
		der, err := x509.CreateCertificate(rand.Reader, t, parent, &rsaKey.PublicKey, pk)
		if err != nil {
			panic(err)
		}
		leaf, _ := x509.ParseCertificate(der)
		return tls.Certificate{Certificate: [][]byte{der}, PrivateKey: rsaKey, Leaf: leaf}
	}
	der, err := x509.CreateCertificate(rand.Reader, t, parent, &k.PublicKey, pk)
	if err != nil {
		panic(err)
	}
	leaf, _ := x509.ParseCertificate(der)
	return tls.Certificate{Certificate: [][]byte{der}, PrivateKey: k, Leaf: leaf}
}

// WritePEM writes a certificate and its key as PEM files.
func WritePEM(dir, name string, c tls.Certificate) (certPath, keyPath string) {
	certPath, keyPath = filepath.Join(dir, name+".crt"), filepath.Join(dir, name+".key")
	os.WriteFile(certPath, pem.EncodeToMemory(&pem.Block{Type: "CERTIFICATE", Bytes: c.Certificate[0]}), 0o600)
	kb, _ := x509.MarshalECPrivateKey(c.PrivateKey.(*ecdsa.PrivateKey))
	os.WriteFile(keyPath, pem.EncodeToMemory(&pem.Block{Type: "EC PRIVATE KEY", Bytes: kb}), 0o600)
	return
}

// Call is one RPC a server handled.
type Call struct {
	Req        *proto.SSHCertificateSigningRequest
	TLSVersion uint16
	PeerCerts  [][]byte
	CtxErr     error     // context error observed when the handler returned
	At         time.Time // when the request arrived
}

// Handshake is one completed TLS handshake.
type Handshake struct {
	Version   uint16
	PeerCerts [][]byte
}

// Behaviour answers one request.
type Behaviour func(ctx context.Context, req *proto.SSHCertificateSigningRequest) (*proto.SSHKey, error)

// Server is one scripted signing server.
type Server struct {
	proto.UnimplementedSigningServer
	IP   string
	Port int
	gs   *grpc.Server
	lis  net.Listener

	mu         sync.Mutex
	behave     Behaviour
	calls      []Call
	handshakes []Handshake
	tlsConf    *tls.Config
}

func (s *Server) PostUserSSHCertificate(ctx context.Context, req *proto.SSHCertificateSigningRequest) (*proto.SSHKey, error) {
	c := Call{Req: req, At: time.Now()}
	if p, ok := peer.FromContext(ctx); ok {
		if ti, ok := p.AuthInfo.(credentials.TLSInfo); ok {
			c.TLSVersion = ti.State.Version
			for _, pc := range ti.State.PeerCertificates {
				c.PeerCerts = append(c.PeerCerts, pc.Raw)
			}
		}
	}
	s.mu.Lock()
	b := s.behave
	idx := len(s.calls)
	s.calls = append(s.calls, c)
	s.mu.Unlock()
	var k *proto.SSHKey
	var err error
	if b != nil {
		k, err = b(ctx, req)
	} else {
		k, err = &proto.SSHKey{}, nil
	}
	s.mu.Lock()
	if idx < len(s.calls) {
		s.calls[idx].CtxErr = ctx.Err()
	}
	s.mu.Unlock()
	return k, err
}

// Set installs the behaviour and clears the logs.
func (s *Server) Set(b Behaviour) {
	s.mu.Lock()
	s.behave, s.calls, s.handshakes = b, nil, nil
	s.mu.Unlock()
}

// Calls returns the RPCs handled since the last Set.
func (s *Server) Calls() []Call {
	s.mu.Lock()
	defer s.mu.Unlock()
	return append([]Call(nil), s.calls...)
}

// Handshakes returns the handshakes completed since the last Set.
func (s *Server) Handshakes() []Handshake {
	s.mu.Lock()
	defer s.mu.Unlock()
	return append([]Handshake(nil), s.handshakes...)
}

// Stop shuts the server down.
func (s *Server) Stop() { s.gs.Stop() }

// Start runs a server on ip:port (port 0 = pick one) with the given TLS configuration.
func Start(ip string, port int, conf *tls.Config) (*Server, error) {
	lis, err := net.Listen("tcp", fmt.Sprintf("%s:%d", ip, port))
	if err != nil {
		return nil, err
	}
	s := &Server{IP: ip, Port: lis.Addr().(*net.TCPAddr).Port, lis: lis}
	conf = conf.Clone()
	conf.NextProtos = []string{"h2"}
	conf.VerifyConnection = func(cs tls.ConnectionState) error {
		h := Handshake{Version: cs.Version}
		for _, pc := range cs.PeerCertificates {
			h.PeerCerts = append(h.PeerCerts, pc.Raw)
		}
		s.mu.Lock()
		s.handshakes = append(s.handshakes, h)
		s.mu.Unlock()
		return nil
	}
	s.tlsConf = conf
	s.gs = grpc.NewServer(grpc.Creds(credentials.NewTLS(conf)))
	proto.RegisterSigningServer(s.gs, s)
	go s.gs.Serve(lis)
	return s, nil
}

// StartGroup starts one server per (ip, tls config) on a common port.
func StartGroup(ips []string, confs []*tls.Config) ([]*Server, int, error) {
	for attempt := 0; attempt < 20; attempt++ {
		first, err := Start(ips[0], 0, confs[0])
		if err != nil {
			return nil, 0, err
		}
		out := []*Server{first}
		ok := true
		for i := 1; i < len(ips); i++ {
			s, err := Start(ips[i], first.Port, confs[i])
			if err != nil {
				ok = false
				break
			}
			out = append(out, s)
		}
		if ok {
			return out, first.Port, nil
		}
		for _, s := range out {
			s.Stop()
		}
	}
	return nil, 0, fmt.Errorf("no common port found")
}
