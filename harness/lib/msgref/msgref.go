// Package msgref holds the generators and reference decoders for the client
// request message (C14, C15).
package msgref

import (
	"crypto/x509"
	"encoding/json"
	"math"
	"math/rand"
	"strconv"
	"strings"
	"unicode"

	"github.com/theparanoids/ysshra/message"
	"github.com/theparanoids/ysshra/verifharness/lib/gen"
)

// CleanStr returns a non-empty string free of Unicode whitespace and '@' (what
// the legacy format can carry).
func CleanStr(r *rand.Rand, max int) string {
	for {
		s := gen.NonEmptyStr(r, max)
		s = strings.Map(func(ru rune) rune {
			if unicode.IsSpace(ru) || ru == '@' || ru == 0x85 || ru == 0xA0 {
				return -1
			}
			return ru
		}, s)
		if s != "" {
			return s
		}
	}
}

// ExtVal returns a JSON-native value of bounded depth.
func ExtVal(r *rand.Rand, depth int) any {
	switch n := r.Intn(8); {
	case n == 0:
		return gen.Str(r, 12)
	case n == 1:
		return float64(r.Intn(2000) - 1000)
	case n == 2:
		return float64(r.Intn(1000)) / 8
	case n == 3:
		return r.Intn(2) == 0
	case n == 4:
		return nil
	case n == 5 && depth > 0:
		m := map[string]any{}
		for i := r.Intn(3); i >= 0; i-- {
			m[gen.Str(r, 6)] = ExtVal(r, depth-1)
		}
		return m
	case n == 6 && depth > 0:
		l := []any{}
		for i := r.Intn(3); i > 0; i-- {
			l = append(l, ExtVal(r, depth-1))
		}
		return l
	}
	// strings that look like legacy tokens, to tempt a legacy re-interpretation
	return " req=" + gen.Ident(r, 3) + "@" + gen.Ident(r, 3) + " SSHClientVersion=9.9 HardKey=true IFVer=6 "
}

// Attrs generates an attribute set. legacy restricts strings to what the legacy format carries.
func Attrs(r *rand.Rand, legacy bool) *message.Attributes {
	str := func(max int) string {
		if legacy {
			return CleanStr(r, max)
		}
		return gen.NonEmptyStr(r, max)
	}
	a := &message.Attributes{}
	if legacy {
		a.IfVer = r.Intn(9) - 2 // -2..6
	} else {
		a.IfVer = 7 + r.Intn(4)
	}
	a.Username = str(16)
	a.Hostname = str(24)
	switch r.Intn(4) {
	case 0:
		a.SSHClientVersion = strconv.Itoa(r.Intn(12)) + "." + strconv.Itoa(r.Intn(10))
	case 1:
		a.SSHClientVersion = strconv.Itoa(r.Intn(70000)) + "." + strconv.Itoa(r.Intn(70000))
	default:
		a.SSHClientVersion = str(8)
	}
	// required-field holes
	switch r.Intn(12) {
	case 0:
		a.Username = ""
	case 1:
		a.Hostname = ""
	case 2:
		a.SSHClientVersion = ""
	}
	a.CAPubKeyAlgo = x509.PublicKeyAlgorithm(r.Intn(22) - 1)
	a.SignatureAlgo = x509.SignatureAlgorithm(r.Intn(22) - 1)
	a.HardKey = r.Intn(2) == 0
	a.Touch2SSH = r.Intn(2) == 0
	switch r.Intn(4) {
	case 0:
	case 1:
		a.TouchlessSudo = &message.TouchlessSudo{}
	case 2:
		a.TouchlessSudo = &message.TouchlessSudo{IsFirefighter: r.Intn(2) == 0}
		if r.Intn(2) == 0 {
			a.TouchlessSudo.Hosts = str(20)
		} else {
			a.TouchlessSudo.Time = int64(r.Intn(100000)) - 500
		}
	default:
		a.TouchlessSudo = &message.TouchlessSudo{IsFirefighter: r.Intn(2) == 0, Hosts: str(30), Time: r.Int63n(1<<40) - 1000}
	}
	// unusual but legitimate magnitudes, now and then
	switch r.Intn(24) {
	case 0:
		if a.TouchlessSudo == nil {
			a.TouchlessSudo = &message.TouchlessSudo{Hosts: str(10)}
		}
		a.TouchlessSudo.Time = []int64{math.MaxInt64, math.MinInt64, math.MaxInt32, math.MaxInt32 + 1, math.MinInt32 - 1, 1<<53 + 1, -(1<<53 + 1), 0, -1}[r.Intn(9)]
	case 1:
		a.Username = strings.Repeat(str(16), 200+r.Intn(9000))
	case 2:
		a.Hostname = strings.Repeat(str(8)+".", 100+r.Intn(900)) + "example"
	case 3:
		if a.TouchlessSudo == nil {
			a.TouchlessSudo = &message.TouchlessSudo{}
		}
		var hs []string
		for i := 50 + r.Intn(6000); i > 0; i-- {
			hs = append(hs, "host"+strconv.Itoa(i)+".example.com")
		}
		a.TouchlessSudo.Hosts = strings.Join(hs, ",")
	case 4:
		if legacy {
			a.IfVer = []int{math.MinInt32, -1 << 40, 6, 0}[r.Intn(4)]
		} else {
			a.IfVer = []int{math.MaxInt32, 1 << 40, 7, 1 << 62}[r.Intn(4)]
		}
	}
	switch r.Intn(4) {
	case 0:
	case 1:
		a.Exts = map[string]interface{}{}
	default:
		a.Exts = map[string]interface{}{}
		for i := r.Intn(4); i >= 0; i-- {
			a.Exts[gen.Str(r, 10)] = ExtVal(r, 3)
		}
		// extension keys that happen to be attribute names of the legacy format (in any case), with values of any JSON type
		if !legacy && r.Intn(3) == 0 {
			names := []string{"TouchlessSudoTime", "TouchlessSudoHosts", "IsFirefighter", "HardKey", "Touch2SSH", "SSHClientVersion", "req", "IFVer", "touchlesssudotime", "hardkey", "username", "transID"}
			for i := 1 + r.Intn(3); i > 0; i-- {
				a.Exts[names[r.Intn(len(names))]] = ExtVal(r, 2)
			}
		}
		// ... also on a set that goes out in the older format (which carries no extension map): what the requester token
		// says comes from the user and host attributes
		if legacy && r.Intn(3) == 0 {
			a.Exts[[]string{"req", "REQ", "Req", "SSHClientVersion", "HardKey"}[r.Intn(5)]] = []any{"mallory@evil", "root@" + CleanStr(r, 4), "9.9", "true"}[r.Intn(4)]
		}
		if r.Intn(40) == 0 {
			for i := 300 + r.Intn(700); i > 0; i-- {
				a.Exts["k"+strconv.Itoa(i)] = ExtVal(r, 1)
			}
		}
		if r.Intn(20) == 0 {
			a.Exts["magnitudes"] = []any{1e308, -1e308, 5e-324, float64(1 << 53), float64(1<<53 + 2), 1e21, 0.1, -0.0}
		}
	}
	return a
}

// Norm applies the normalisation the JSON format itself defines.
func Norm(a *message.Attributes) *message.Attributes {
	b := *a
	if b.TouchlessSudo == nil {
		b.TouchlessSudo = &message.TouchlessSudo{}
	} else {
		t := *b.TouchlessSudo
		b.TouchlessSudo = &t
	}
	if len(b.Exts) == 0 {
		b.Exts = nil
	}
	return &b
}

// RequiredMissing says whether the encoder must refuse a.
func RequiredMissing(a *message.Attributes) bool {
	return a.SSHClientVersion == "" || a.Username == "" || a.Hostname == ""
}

// LegacyTokens is the reference tokenizer of the legacy format: space separated,
// each token trimmed, empty tokens dropped, split at the first '=', last
// occurrence of a key wins.
func LegacyTokens(s string) map[string]string {
	m := map[string]string{}
	for _, t := range strings.Split(s, " ") {
		t = strings.TrimSpace(t)
		if t == "" {
			continue
		}
		if i := strings.Index(t, "="); i < 0 {
			m[t] = ""
		} else {
			m[t[:i]] = t[i+1:]
		}
	}
	return m
}

// Mirror is an independent declaration of the JSON wire object, used with
// encoding/json as the reference decoder.
type Mirror struct {
	IfVer            int            `json:"ifVer"`
	Username         string         `json:"username"`
	Hostname         string         `json:"hostname"`
	SSHClientVersion string         `json:"sshClientVersion"`
	CAPubKeyAlgo     int            `json:"caPubKeyAlgo,omitempty"`
	SignatureAlgo    int            `json:"signatureAlgo,omitempty"`
	HardKey          bool           `json:"hardKey"`
	Touch2SSH        bool           `json:"touch2SSH,omitempty"`
	TouchlessSudo    *MirrorTS      `json:"touchlessSudo,omitempty"`
	Exts             map[string]any `json:"exts,omitempty"`
}

type MirrorTS struct {
	IsFirefighter bool   `json:"isFirefighter,omitempty"`
	Hosts         string `json:"hosts,omitempty"`
	Time          int64  `json:"time,omitempty"`
}

// DecodeJSONObject reports whether text is a JSON value that decodes into the
// attribute object (and is not null).
func DecodeJSONObject(text string) (*Mirror, bool) {
	var m *Mirror
	if err := json.Unmarshal([]byte(text), &m); err != nil || m == nil {
		return nil, false
	}
	return m, true
}

// Declared returns what the client declared in an original-command text,
// according to the reference decoders: ok=false means neither format applies.
func Declared(text string) (user, host, ver string, isJSON, ok bool) {
	if m, is := DecodeJSONObject(text); is {
		return m.Username, m.Hostname, m.SSHClientVersion, true, true
	}
	if json.Valid([]byte(text)) && strings.TrimSpace(text) == "null" {
		return "", "", "", true, false
	}
	t := LegacyTokens(text)
	req, has := t["req"]
	if !has {
		return "", "", "", false, false
	}
	f := strings.Split(req, "@")
	if len(f) != 2 {
		return "", "", "", false, false
	}
	return f[0], f[1], t["SSHClientVersion"], false, true
}
