// Package shimhist runs seeded operation histories against a real shim agent
// over the scripted underlying agent and compares every observation with a
// small sequential reference model (DESIGN.md C07-C10). Each discrepancy is
// tagged with the properties whose clause it breaks.
package shimhist

import (
	"bytes"
	"fmt"
	"github.com/theparanoids/ysshra/verifharness/lib/frames"
	"math"
	"math/rand"
	"os"
	"sort"
	"strings"
	"sync"
	"time"

	"golang.org/x/crypto/ssh"
	"golang.org/x/crypto/ssh/agent"

	"github.com/theparanoids/ysshra/agent/shimagent"
	"github.com/theparanoids/ysshra/verifharness/lib/gen"
	"github.com/theparanoids/ysshra/verifharness/lib/wire"
)

// Discrepancy is one disagreement between the implementation and the model.
type Discrepancy struct {
	Props  []string // property ids whose clause is broken
	Sig    string   // stable signature
	Detail string
	Step   int
}

func (d Discrepancy) Has(prop string) bool {
	for _, p := range d.Props {
		if p == prop {
			return true
		}
	}
	return false
}

// Window classes of generated certificates.
const (
	WPast = iota
	WCurrent
	WFuture
	WLapsing
	WZero
	WForever
	WHugeVA
	WSoon       // becomes valid in ~25 s: premature for the whole history
	WJustLapsed // expired ~12 s ago
	WJustExpired
)

var WName = map[int]string{WPast: "past", WCurrent: "current", WFuture: "future", WLapsing: "lapsing", WZero: "zero", WForever: "forever", WHugeVA: "va>maxint64", WJustExpired: "expired-1m", WSoon: "valid-in-25s", WJustLapsed: "expired-12s"}

// CertMat is a certificate of the material set.
type CertMat struct {
	Cert   *ssh.Certificate
	Blob   string
	KeyIdx int
	Window int
	YSSHCA bool // by the harness's reference predicate
	KIDTag string
}

// Material is what a history draws from.
type Material struct {
	Keys  []*gen.Key
	Certs []*CertMat
}

// Config selects the workload.
type Config struct {
	NoUpstream bool
	Steps      int
	Windows    []int    // window classes to draw from
	Lapsing    bool     // include lapsing certificates and sleep steps
	LockOps    bool     // include lock/unlock through the shim
	DirectLock bool     // include locking the keyring directly
	KIDs       []string // KeyID tags to draw from (see kidFor)
	FirstKID   string   // if set, the KeyID tag of the first two certificates of the material
	Forward    bool
	Preload    bool // put identities into the keyring before the shim is built
	// LockFaultPct: percentage of lock/unlock requests the underlying agent refuses (failure or garbage reply).
	LockFaultPct int
	// FragmentPct: percentage of honest replies the underlying agent writes in several pieces.
	FragmentPct int
	// Plan, if set, is installed on the underlying agent after construction.
	Weights map[string]int
}

// Op is one step of a history (for witnesses).
type Op struct {
	Kind string `json:"op"`
	Arg  string `json:"arg,omitempty"`
	Res  string `json:"result,omitempty"`
}

// Stats are what the engine observed.
type Stats struct {
	Ops            map[string]int
	ModelStates    map[string]struct{}
	Listings       int
	ListedIdents   int
	Purged         int
	OrphansDropped int
	Hidden         int
	SignsVerified  int
	LockedOps      int
	Forwarded      int
}

func NewStats() *Stats { return &Stats{Ops: map[string]int{}, ModelStates: map[string]struct{}{}} }

type mcert struct {
	m     *CertMat
	maybe bool
}

type ident struct {
	blob    string
	comment string
	isCert  bool
	cert    *ssh.Certificate
	keyBlob string // blob of the plain public key (for certificates: cert.Key)
}

// Engine holds one rig.
type Engine struct {
	Cfg   Config
	Mat   *Material
	Ag    *wire.Agent
	Shim  shimagent.ShimAgent
	R     *rand.Rand
	St    *Stats
	Trace []Op
	Disc  []Discrepancy

	handedOut []ssh.PublicKey // public key objects of the signers the latest Signers call returned
	m         map[string]*mcert
	locked    bool   // the shim's lock flag (model)
	klocked   bool   // the keyring's own lock state (known: the harness performs every direct operation)
	kpass     []byte // passphrase the keyring is locked with
	snapOK    bool   // no direct manipulation happened since the shim was locked
	preLock   []ident
	lastU     []ident
	closed    bool
	hung      bool
	dbgSeen   int
	step      int
	tagN      int
	lapseEnd  int64
	held      []heldBytes // byte slices received from (or passed to) Forward earlier, with what they must still hold
	heldRes   []heldBytes // blobs of listed identities and signatures handed out earlier
	// lastListed is the shim's latest successful listing (blob -> comment); preShim the listing taken just before the lock
	lastListed map[string]string
	preShim    map[string]string
}

func kidFor(tag string, r *rand.Rand) (string, bool) {
	tid := gen.Ident(r, 10)
	switch tag {
	case "touch":
		return gen.YSSHCAKeyID(gen.KeyIDSpec{HW: true, Touch: 3, TransID: tid, Prins: []string{"u"}}), true
	case "touchless":
		return gen.YSSHCAKeyID(gen.KeyIDSpec{HW: true, Touch: 1, TransID: tid, Prins: []string{"u"}}), true
	case "firefighter":
		return gen.YSSHCAKeyID(gen.KeyIDSpec{HW: true, FF: true, Touch: 3, TransID: tid, Prins: []string{"u"}}), true
	case "inagent":
		return gen.YSSHCAKeyID(gen.KeyIDSpec{FF: true, Touch: 0, TransID: tid, Prins: []string{"u"}}), true
	case "nonce":
		return gen.YSSHCAKeyID(gen.KeyIDSpec{Nonce: true, HW: true, Touch: 1, TransID: tid, Prins: []string{"u"}}), true
	case "headless":
		return gen.YSSHCAKeyID(gen.KeyIDSpec{Headless: true, Touch: 1, TransID: tid, Prins: []string{"u"}}), true
	case "unknown-type": // decodes as YSSHCA but selects no type rule
		return gen.YSSHCAKeyID(gen.KeyIDSpec{Touch: 0, TransID: tid, Prins: []string{"u"}}), true
	case "regular":
		return gen.YSSHCAKeyID(gen.KeyIDSpec{Touch: 1, TransID: tid, Prins: []string{"u"}}), true
	case "null-prins": // what the codec itself emits for a KeyID without principals
		return gen.YSSHCAKeyID(gen.KeyIDSpec{HW: true, Touch: 1, TransID: tid}), true
	case "empty-prins":
		return gen.YSSHCAKeyID(gen.KeyIDSpec{Touch: 1, TransID: tid, Prins: []string{}}), true
	case "near-missing-field":
		s := gen.YSSHCAKeyID(gen.KeyIDSpec{HW: true, Touch: 1, TransID: tid, Prins: []string{"u"}})
		return strings.Replace(s, `"isNonce":false,`, ``, 1), false
	case "near-ver2":
		s := gen.YSSHCAKeyID(gen.KeyIDSpec{HW: true, Touch: 1, TransID: tid, Prins: []string{"u"}})
		return strings.Replace(s, `"ver":1`, `"ver":2`, 1), false
	case "extra-member": // a member this version of the decoder does not know (as "usage" once was): still a valid KeyID
		s := gen.YSSHCAKeyID(gen.KeyIDSpec{HW: true, Touch: 1, TransID: tid, Prins: []string{"u"}})
		return strings.Replace(s, `"ver":1`, `"ver":1,"issuedBy":"ca-7","x":{"y":[1,2]}`, 1), true
	case "usage-other": // the optional "usage" member with a value a newer CA may introduce: still a valid KeyID
		s := gen.YSSHCAKeyID(gen.KeyIDSpec{HW: true, Touch: 1, TransID: tid, Prins: []string{"u"}})
		return strings.Replace(s, `"usage":0`, `"usage":`+[]string{"1", "2", "7", "-1", "255"}[r.Intn(5)], 1), true
	case "touch-extreme": // a touch policy of unusual magnitude: nothing in the KeyID rules bounds it for a hardware key
		s := gen.YSSHCAKeyID(gen.KeyIDSpec{HW: true, Touch: 3, TransID: tid, Prins: []string{"u"}})
		return strings.Replace(s, `"touchPolicy":3`, `"touchPolicy":`+[]string{"258", "-1", "256", "2147483648", "255"}[r.Intn(5)], 1), true
	case "near-missing-field-named-elsewhere": // a required member is absent; its name occurs as a value or inside another member
		s := gen.YSSHCAKeyID(gen.KeyIDSpec{HW: true, Touch: 1, TransID: tid, Prins: []string{"isNonce"}})
		s = strings.Replace(s, `"isNonce":false,`, ``, 1)
		if r.Intn(2) == 0 {
			s = strings.Replace(s, `"ver":1`, `"ver":1,"ext":{"isNonce":false}`, 1)
		}
		return s, false
	case "near-usage-and-flag-retyped": // two members of the wrong type, the optional one first in the text
		s := gen.YSSHCAKeyID(gen.KeyIDSpec{HW: true, Touch: 1, TransID: tid, Prins: []string{"u"}})
		s = strings.Replace(s, `"usage":0,`, ``, 1)
		return strings.Replace(s, `"isHWKey":true`, `"usage":"all","isHWKey":`+[]string{`"yes"`, `1`, `[true]`}[r.Intn(3)], 1), false
	case "near-ver-null": // a version member that says nothing: no supported version is declared
		s := gen.YSSHCAKeyID(gen.KeyIDSpec{HW: true, Touch: 1, TransID: tid, Prins: []string{"u"}})
		return strings.Replace(s, `"ver":1`, `"ver":null`, 1), false
	case "near-ver-retyped":
		s := gen.YSSHCAKeyID(gen.KeyIDSpec{HW: true, Touch: 1, TransID: tid, Prins: []string{"u"}})
		return strings.Replace(s, `"ver":1`, `"ver":`+[]string{`"1"`, "[1]", "true", "1.0", "{}"}[r.Intn(5)], 1), false
	case "near-ver257": // 257 = 1 mod 256; 65281 = 1 mod 256 too
		s := gen.YSSHCAKeyID(gen.KeyIDSpec{HW: true, Touch: 1, TransID: tid, Prins: []string{"u"}})
		return strings.Replace(s, `"ver":1`, `"ver":`+[]string{"257", "513", "65281"}[r.Intn(3)], 1), false
	case "many-prins": // a valid KeyID of a few kilobytes
		var ps []string
		for i := 40 + r.Intn(200); i > 0; i-- {
			ps = append(ps, fmt.Sprintf("host-%03d.example.com", i))
		}
		return gen.YSSHCAKeyID(gen.KeyIDSpec{HW: true, Touch: 1, TransID: tid, Prins: ps}), true
	case "near-ver0":
		s := gen.YSSHCAKeyID(gen.KeyIDSpec{HW: true, Touch: 1, TransID: tid, Prins: []string{"u"}})
		return strings.Replace(s, `"ver":1`, `"ver":0`, 1), false
	case "near-conflict":
		return gen.YSSHCAKeyID(gen.KeyIDSpec{Headless: true, HW: true, Touch: 1, TransID: tid, Prins: []string{"u"}}), false
	case "near-conflict-nonce":
		return gen.YSSHCAKeyID(gen.KeyIDSpec{Nonce: true, FF: true, Touch: 1, TransID: tid, Prins: []string{"u"}}), false
	case "near-conflict-headless-nonce":
		return gen.YSSHCAKeyID(gen.KeyIDSpec{Headless: true, Nonce: true, Touch: 1, TransID: tid, Prins: []string{"u"}}), false
	case "near-conflict-headless-ff":
		return gen.YSSHCAKeyID(gen.KeyIDSpec{Headless: true, FF: true, Touch: 1, TransID: tid, Prins: []string{"u"}}), false
	case "near-conflict-headless-touch":
		return gen.YSSHCAKeyID(gen.KeyIDSpec{Headless: true, Touch: 3, TransID: tid, Prins: []string{"u"}}), false
	case "near-conflict-nonce-touch":
		return gen.YSSHCAKeyID(gen.KeyIDSpec{Nonce: true, Touch: 0, TransID: tid, Prins: []string{"u"}}), false
	case "near-trailing-text":
		return gen.YSSHCAKeyID(gen.KeyIDSpec{HW: true, Touch: 1, TransID: tid, Prins: []string{"u"}}) + " trailing text", false
	case "near-two-objects":
		s := gen.YSSHCAKeyID(gen.KeyIDSpec{HW: true, Touch: 1, TransID: tid, Prins: []string{"u"}})
		return s + s, false
	case "near-leading-text":
		return "x " + gen.YSSHCAKeyID(gen.KeyIDSpec{HW: true, Touch: 1, TransID: tid, Prins: []string{"u"}}), false
	case "near-case":
		s := gen.YSSHCAKeyID(gen.KeyIDSpec{HW: true, Touch: 1, TransID: tid, Prins: []string{"u"}})
		return strings.Replace(s, `"transID"`, `"TransID"`, 1), false
	case "empty":
		return "", false
	}
	return "user@" + tid, false
}

// AllKIDs is the full list of KeyID tags.
var AllKIDs = []string{"touch", "touchless", "firefighter", "inagent", "nonce", "headless", "unknown-type", "regular", "null-prins", "empty-prins", "many-prins", "extra-member", "usage-other", "touch-extreme", "near-missing-field-named-elsewhere", "near-usage-and-flag-retyped", "near-ver-null", "near-ver-retyped", "near-ver257", "near-missing-field", "near-ver2", "near-ver0", "near-conflict", "near-conflict-nonce", "near-conflict-headless-nonce", "near-conflict-headless-ff", "near-conflict-headless-touch", "near-conflict-nonce-touch", "near-trailing-text", "near-two-objects", "near-leading-text", "near-case", "empty", "text"}

// NewMaterial draws keys and certificates.
func NewMaterial(r *rand.Rand, cfg Config) *Material {
	mt := &Material{}
	pool := gen.Pool()
	perm := r.Perm(len(pool))
	nk := 3 + r.Intn(3)
	for i := 0; i < nk; i++ {
		mt.Keys = append(mt.Keys, pool[perm[i]])
	}
	// one rig in three also has a security-key backed identity (sk-ssh-ed25519@openssh.com): it can
	// only enter the underlying agent directly, and its certificates have an sk certificate type
	if r.Intn(3) == 0 {
		sk := gen.SKPool()
		mt.Keys = append(mt.Keys, sk[r.Intn(len(sk))])
	}
	now := time.Now().Unix()
	nc := 4 + r.Intn(6)
	kids := cfg.KIDs
	if len(kids) == 0 {
		kids = []string{"touch", "text"}
	}
	for i := 0; i < nc; i++ {
		w := cfg.Windows[r.Intn(len(cfg.Windows))]
		var va, vb uint64
		switch w {
		case WPast:
			va, vb = uint64(now-7200), uint64(now-3600)
		case WJustExpired:
			va, vb = uint64(now-7200), uint64(now-60)
		case WCurrent:
			va, vb = uint64(now-3600), uint64(now+3600)
		case WFuture:
			va, vb = uint64(now+3600), uint64(now+7200)
		case WLapsing:
			va, vb = uint64(now-3600), uint64(now+2)
		case WZero:
			va, vb = 0, 0
		case WForever:
			va, vb = 0, ssh.CertTimeInfinity
		case WSoon:
			va, vb = uint64(now+25), uint64(now+7200)
		case WJustLapsed:
			va, vb = uint64(now-7200), uint64(now-12)
		case WHugeVA:
			va, vb = uint64(math.MaxInt64)+uint64(1+r.Intn(1000)), ssh.CertTimeInfinity
		}
		tag := kids[r.Intn(len(kids))]
		if i < 2 && cfg.FirstKID != "" {
			tag = cfg.FirstKID // every kind gets its turn in some history, whatever the draw
		}
		kid, _ := kidFor(tag, r)
		ki := r.Intn(len(mt.Keys))
		var opts map[string]string
		if r.Intn(4) == 0 {
			opts = map[string]string{"touchless-sudo-hosts": "h1"}
		}
		c := gen.MakeCert(gen.CertSpec{Key: mt.Keys[ki], KeyID: kid, ValidAfter: va, ValidBefore: vb, Principals: []string{"u"}, CritOpts: opts, Serial: uint64(r.Int63()), Host: r.Intn(6) == 0})
		mt.Certs = append(mt.Certs, &CertMat{Cert: c, Blob: string(c.Marshal()), KeyIdx: ki, Window: w, YSSHCA: gen.RefIsYSSHCA(kid), KIDTag: tag})
	}
	return mt
}

// New builds the rig: scripted agent, optional preload, shim.
func New(r *rand.Rand, cfg Config, st *Stats) (*Engine, error) {
	e := &Engine{Cfg: cfg, R: r, St: st, m: map[string]*mcert{}}
	e.Mat = NewMaterial(r, cfg)
	for _, k := range e.Mat.Keys {
		if k.SK && st != nil {
			st.Ops["rig-with-security-key-identity"]++
		}
	}
	e.Ag = wire.New()
	sock, err := e.Ag.Listen()
	if err != nil {
		return nil, err
	}
	if cfg.Preload {
		for i := 0; i < 1+r.Intn(4); i++ {
			e.directAdd()
		}
		if r.Intn(30) == 0 {
			// a crowded agent: listings of more than 100 identities (replies beyond 16 KiB)
			n := 100 + r.Intn(80)
			for i := 0; i < n; i++ {
				k := gen.FreshKey(r)
				e.Ag.Keyring.Add(agent.AddedKey{PrivateKey: k.Priv, Comment: "crowd-" + strings.Repeat("x", r.Intn(120))})
			}
			if st != nil {
				st.Ops["rig-with-crowded-agent"]++
			}
		}
	}
	// the listing order is the caller's to choose: one rig in four brings its own comparison function
	var comp func(a, b ssh.PublicKey) bool
	switch r.Intn(12) {
	case 0:
		comp = func(a, b ssh.PublicKey) bool { return bytes.Compare(a.Marshal(), b.Marshal()) > 0 }
	case 1:
		comp = func(a, b ssh.PublicKey) bool {
			if a.Type() != b.Type() {
				return a.Type() < b.Type()
			}
			return bytes.Compare(a.Marshal(), b.Marshal()) < 0
		}
	case 2:
		comp = func(a, b ssh.PublicKey) bool { return false } // no preference at all
	}
	if comp != nil && st != nil {
		st.Ops["rig-with-own-key-comparison"]++
	}
	sh, err := shimagent.New(shimagent.Option{Address: sock, NoUpstream: cfg.NoUpstream, PubKeyComp: comp})
	if err != nil {
		e.Ag.Close()
		return nil, err
	}
	e.Shim = &Guarded{Inner: sh, OnHang: func(op string) {
		e.hung = true
		e.disc([]string{"C10", "C11"}, "operation-does-not-return:"+op, hangDetail(op))
		e.Ag.Close()
	}}
	if cfg.LockFaultPct > 0 || cfg.FragmentPct > 0 {
		pr := rand.New(rand.NewSource(r.Int63()))
		var pmu sync.Mutex
		e.Ag.SetPlan(func(idx int, req []byte) wire.Action {
			pmu.Lock()
			defer pmu.Unlock()
			if len(req) > 0 && (req[0] == 22 || req[0] == 23) && pr.Intn(100) < cfg.LockFaultPct {
				return wire.Action{Kind: []int{wire.Failure, wire.Garbage}[pr.Intn(2)]}
			}
			return wire.Action{Kind: wire.Honest, Fragment: pr.Intn(100) < cfg.FragmentPct}
		})
	}
	return e, nil
}

// refusedByFault reports whether a lock/unlock request issued since request
// index nreq was answered by the fault plan instead of the keyring.
func (e *Engine) refusedByFault(nreq int) bool {
	for _, ev := range e.Ag.Events() {
		if ev.Idx >= nreq && (ev.Code == 22 || ev.Code == 23) && ev.Kind != wire.Honest {
			return true
		}
	}
	return false
}

func (e *Engine) Close() {
	if e.Shim != nil && !e.closed {
		if e.locked && e.klocked {
			e.Shim.Unlock(e.kpass)
		}
		e.Shim.Close()
	}
	e.Ag.Close()
}

func (e *Engine) disc(props []string, sig, detail string) {
	e.Disc = append(e.Disc, Discrepancy{Props: props, Sig: sig, Detail: detail + "\n" + e.TraceText(), Step: e.step})
}

// TraceText renders the operation trace.
func (e *Engine) TraceText() string {
	var b strings.Builder
	fmt.Fprintf(&b, "history (no-upstream=%v):\n", e.Cfg.NoUpstream)
	for i, o := range e.Trace {
		fmt.Fprintf(&b, "  %2d %s %s -> %s\n", i, o.Kind, o.Arg, o.Res)
	}
	return b.String()
}

func (e *Engine) log(kind, arg, res string) {
	if os.Getenv("VERIF_DEBUG") != "" {
		evs := e.Ag.Events()
		fmt.Fprintf(os.Stderr, "DEBUG step %d %s %s -> %s\n", e.step, kind, arg, res)
		for _, ev := range evs[e.dbgSeen:] {
			fmt.Fprintf(os.Stderr, "   wire #%d code=%d reqlen=%d replylen=%d reply0=%v kind=%d\n", ev.Idx, ev.Code, len(ev.Req), len(ev.Reply), ev.Reply[:min(len(ev.Reply), 1)], ev.Kind)
		}
		e.dbgSeen = len(evs)
		if ks, err := e.Ag.Keyring.List(); err == nil {
			for _, k := range ks {
				fmt.Fprintf(os.Stderr, "   keyring: %s %q\n", e.describe(string(k.Blob)), k.Comment)
			}
		}
	}
	e.Trace = append(e.Trace, Op{kind, arg, res})
	e.St.Ops[kind]++
}

// snapshotU reads the keyring directly.
func (e *Engine) snapshotU() []ident {
	if e.klocked {
		return e.lastU
	}
	keys, err := e.Ag.Keyring.List()
	if err != nil {
		return e.lastU
	}
	out := make([]ident, 0, len(keys))
	for _, k := range keys {
		id := ident{blob: string(k.Blob), comment: k.Comment, keyBlob: string(k.Blob)}
		if strings.Contains(k.Format, "cert") {
			if pk, err := ssh.ParsePublicKey(k.Blob); err == nil {
				if c, ok := pk.(*ssh.Certificate); ok {
					id.isCert, id.cert, id.keyBlob = true, c, string(c.Key.Marshal())
				}
			}
		}
		out = append(out, id)
	}
	e.lastU = out
	return out
}

func clamp(v uint64) int64 {
	if v > math.MaxInt64 {
		return math.MaxInt64
	}
	return int64(v)
}

// timeClass: -1 must be absent, +1 must be present (if otherwise listable), 0 don't care.
func timeClass(c *ssh.Certificate, t0, t1 int64) int {
	va, vb := clamp(c.ValidAfter), clamp(c.ValidBefore)
	if t0 > vb || t1 < va {
		return -1
	}
	if va < t0 && t1 < vb {
		return 1
	}
	return 0
}

func short(blob string) string {
	h := 0
	for _, b := range []byte(blob) {
		h = h*31 + int(b)
	}
	return fmt.Sprintf("%08x", uint32(h))
}

func (e *Engine) describe(blob string) string {
	for _, c := range e.Mat.Certs {
		if c.Blob == blob {
			where := ""
			if _, ok := e.m[blob]; ok {
				where = "+mem"
			}
			return fmt.Sprintf("cert#%s(key%d,%s,%s%s)", short(blob), c.KeyIdx, WName[c.Window], c.KIDTag, where)
		}
	}
	for i, k := range e.Mat.Keys {
		if string(k.Pub.Marshal()) == blob {
			return fmt.Sprintf("key%d(%s)", i, k.Name)
		}
	}
	return "blob#" + short(blob)
}

func (e *Engine) matCert(blob string) *CertMat {
	for _, c := range e.Mat.Certs {
		if c.Blob == blob {
			return c
		}
	}
	return nil
}

// hiddenU says whether an underlying identity must be hidden in this mode.
func (e *Engine) hiddenU(id ident) bool {
	return e.Cfg.NoUpstream && id.isCert && gen.RefIsYSSHCA(id.cert.KeyId)
}

// filterEffect computes, for an operation that runs the shim's filter in the
// interval [t0,t1] over underlying identities ub, the model's expectations and
// updates M. listed is the observed listing (nil when the operation does not list).
func (e *Engine) filterEffect(ub []ident, t0, t1 int64, listed map[string]int, what string) {
	raw := ub
	if e.klocked {
		raw = nil
	}
	plain := map[string]bool{}
	viaCert := map[string]bool{}
	for _, u := range raw {
		if u.isCert {
			viaCert[u.keyBlob] = true
		} else {
			plain[u.blob] = true
		}
	}
	for blob, mc := range e.m {
		c := mc.m.Cert
		kb := string(c.Key.Marshal())
		tc := timeClass(c, t0, t1)
		orphan := 0 // -1 must drop, +1 must keep, 0 either
		switch {
		case len(raw) == 0:
			orphan = 1
		case plain[kb]:
			orphan = 1
		case viaCert[kb]:
			orphan = 0
		default:
			orphan = -1
		}
		inU := false
		for _, u := range raw {
			if u.blob == blob {
				inU = true
			}
		}
		n, has := 0, false
		if listed != nil {
			n, has = listed[blob], listed[blob] > 0
		}
		_ = n
		switch {
		case tc == -1 || orphan == -1:
			// must be gone from memory; if the same blob is also an (unhidden, valid) underlying identity it may still be listed from there
			if listed != nil && has && !(inU && tc != -1) && !mc.maybe {
				if tc == -1 {
					e.disc([]string{"C07"}, "out-of-window-hardware-cert-listed:"+WName[mc.m.Window], fmt.Sprintf("%s: %s is outside its validity window at [%d,%d] but was listed", what, e.describe(blob), t0, t1))
				} else {
					e.disc([]string{"C07"}, "orphan-hardware-cert-listed", fmt.Sprintf("%s: %s has no backing key in the non-empty underlying list but was listed", what, e.describe(blob)))
				}
			}
			if tc == -1 {
				e.St.Purged++
			} else {
				e.St.OrphansDropped++
			}
			delete(e.m, blob)
		case tc == 1 && orphan == 1:
			if listed != nil {
				if !has && !mc.maybe {
					props := []string{"C10"}
					sig := "valid-hardware-cert-not-listed"
					if len(raw) == 0 {
						props = []string{"C07", "C10"}
						sig = "hardware-cert-dropped-on-empty-underlying-list"
					}
					if mc.m.Window == WForever {
						props = append(props, "C07")
						sig += ":forever"
					}
					if e.Cfg.NoUpstream {
						props = append(props, "C09")
					}
					e.disc(props, sig, fmt.Sprintf("%s: %s is valid and backed but missing from the listing", what, e.describe(blob)))
					delete(e.m, blob)
				} else if !has && mc.maybe {
					delete(e.m, blob)
				} else {
					mc.maybe = false
				}
			}
		default:
			if listed != nil {
				if has && !inU {
					mc.maybe = false
				} else if !has {
					delete(e.m, blob)
				} else {
					mc.maybe = true
				}
			} else {
				mc.maybe = true
			}
		}
	}
}

// checkPurgeU compares the keyring before and after an operation that runs the filter.
func (e *Engine) checkPurgeU(ub, ua []ident, t0, t1 int64, what string, extraGone map[string]bool) {
	if e.klocked {
		return
	}
	after := map[string]ident{}
	for _, u := range ua {
		after[u.blob] = u
	}
	for _, u := range ub {
		_, still := after[u.blob]
		if extraGone[u.blob] {
			continue
		}
		if u.isCert && !(t0 == 0 && t1 == 0) { // t0 == t1 == 0: the operation does not run the filter
			switch timeClass(u.cert, t0, t1) {
			case -1:
				if still {
					e.disc([]string{"C07"}, "out-of-window-cert-not-purged-from-underlying-agent", fmt.Sprintf("%s: %s still held by the underlying agent after the filter ran at [%d,%d]", what, e.describe(u.blob), t0, t1))
				} else {
					e.St.Purged++
				}
				continue
			case 0:
				continue
			}
		}
		if !still {
			props := []string{"C10"}
			if u.isCert && u.cert.ValidBefore == ssh.CertTimeInfinity && u.cert.ValidAfter == 0 {
				props = append(props, "C07")
			}
			e.disc(props, "valid-identity-removed-from-underlying-agent", fmt.Sprintf("%s: %s disappeared from the underlying agent", what, e.describe(u.blob)))
		}
	}
	for _, u := range ua {
		found := false
		for _, b := range ub {
			if b.blob == u.blob {
				found = true
			}
		}
		if !found && !extraGone["+"+u.blob] {
			e.disc([]string{"C10"}, "identity-appeared-in-underlying-agent", fmt.Sprintf("%s: %s appeared", what, e.describe(u.blob)))
		}
	}
}

// checkListing judges a List/Signers result (blobs with multiplicity).
func (e *Engine) checkListing(ub []ident, t0, t1 int64, listed map[string]int, what string) {
	e.St.Listings++
	raw := ub
	if e.klocked {
		raw = nil
	}
	inM := map[string]bool{}
	for b := range e.m {
		inM[b] = true
	}
	mBefore := map[string]*mcert{}
	for b, mc := range e.m {
		mBefore[b] = mc
	}
	e.filterEffect(ub, t0, t1, listed, what)
	inU := map[string]ident{}
	for _, u := range raw {
		inU[u.blob] = u
	}
	for _, u := range raw {
		n := listed[u.blob]
		hidden := e.hiddenU(u)
		tc := 1
		if u.isCert {
			tc = timeClass(u.cert, t0, t1)
		}
		switch {
		case tc == -1:
			if n > 0 && !inM[u.blob] {
				e.disc([]string{"C07"}, "out-of-window-cert-listed:"+windowOf(e, u.blob), fmt.Sprintf("%s: %s is outside its validity window at [%d,%d] but was listed", what, e.describe(u.blob), t0, t1))
			}
		case hidden:
			e.St.Hidden++
			if n > 0 && !inM[u.blob] {
				e.disc([]string{"C09"}, "upstream-ysshca-cert-listed:"+kidOf(e, u.blob), fmt.Sprintf("%s: %s is a YSSHCA certificate of the underlying agent and was listed in no-upstream mode", what, e.describe(u.blob)))
			}
		case tc == 1:
			if n == 0 {
				props := []string{"C10"}
				sig := "underlying-identity-not-listed"
				if u.isCert {
					sig += ":cert:" + kidOf(e, u.blob)
					if e.Cfg.NoUpstream {
						props = append(props, "C09")
					} else if gen.RefIsYSSHCA(u.cert.KeyId) {
						props = append(props, "C09") // mode off: nothing is hidden
					}
					if u.cert.ValidBefore == ssh.CertTimeInfinity && u.cert.ValidAfter == 0 {
						props = append(props, "C07")
					}
				} else if e.Cfg.NoUpstream {
					props = append(props, "C09")
				}
				e.disc(props, sig, fmt.Sprintf("%s: %s is held by the underlying agent, valid and not hidden, but missing from the listing", what, e.describe(u.blob)))
			}
		}
		max := 1
		if inM[u.blob] {
			max = 2
		}
		if n > max {
			e.disc([]string{"C10"}, "identity-duplicated-in-listing", fmt.Sprintf("%s: %s listed %d times", what, e.describe(u.blob), n))
		}
	}
	for b, n := range listed {
		if _, ok := inU[b]; ok {
			continue
		}
		if inM[b] {
			if n > 1 {
				e.disc([]string{"C10"}, "hardware-cert-duplicated-in-listing", fmt.Sprintf("%s: %s listed %d times", what, e.describe(b), n))
			}
			continue
		}
		e.disc([]string{"C10"}, "phantom-identity-listed", fmt.Sprintf("%s: %s is neither held by the underlying agent nor an accepted hardware certificate", what, e.describe(b)))
	}
	e.St.ListedIdents += len(listed)
}

func windowOf(e *Engine, blob string) string {
	if c := e.matCert(blob); c != nil {
		return WName[c.Window]
	}
	return "?"
}
func kidOf(e *Engine, blob string) string {
	if c := e.matCert(blob); c != nil {
		return c.KIDTag
	}
	return "?"
}

func (e *Engine) stateSig(u []ident) string {
	nu, nc, nm := 0, 0, len(e.m)
	for _, x := range u {
		if x.isCert {
			nc++
		} else {
			nu++
		}
	}
	return fmt.Sprintf("u%d,c%d,m%d,l%v,ul%v", nu, nc, nm, e.locked, e.klocked)
}

// ---- operations -----------------------------------------------------------

func (e *Engine) directAdd() {
	if e.klocked {
		return
	}
	k := e.R.Intn(len(e.Mat.Keys))
	ak := agent.AddedKey{PrivateKey: e.Mat.Keys[k].Priv, Comment: "direct-" + gen.Ident(e.R, 4)}
	arg := fmt.Sprintf("key%d", k)
	if e.R.Intn(2) == 0 {
		// a certificate of the material for some key
		c := e.Mat.Certs[e.R.Intn(len(e.Mat.Certs))]
		ak.PrivateKey = e.Mat.Keys[c.KeyIdx].Priv
		ak.Certificate = c.Cert
		arg = e.describe(c.Blob)
	}
	err := e.Ag.Keyring.Add(ak)
	e.snapOK = false
	e.log("direct-add", arg, errStr(err))
}

func errStr(err error) string {
	if err == nil {
		return "ok"
	}
	s := err.Error()
	if len(s) > 60 {
		s = s[:60]
	}
	return "error(" + s + ")"
}

func (e *Engine) directRemove() {
	if e.klocked {
		return
	}
	u := e.snapshotU()
	if len(u) == 0 {
		return
	}
	x := u[e.R.Intn(len(u))]
	pk, err := ssh.ParsePublicKey([]byte(x.blob))
	if err != nil {
		return
	}
	err = e.Ag.Keyring.Remove(pk)
	e.snapOK = false
	e.log("direct-remove", e.describe(x.blob), errStr(err))
}

func (e *Engine) directLock() {
	if !e.klocked {
		e.snapshotU()
		p := []byte("direct-" + gen.Ident(e.R, 5))
		if err := e.Ag.Keyring.Lock(p); err == nil {
			e.klocked, e.kpass = true, p
		}
		e.log("direct-lock", "", "ok")
	} else {
		if err := e.Ag.Keyring.Unlock(e.kpass); err == nil {
			e.klocked = false
		}
		e.log("direct-unlock", map[bool]string{true: "under the shim's lock", false: ""}[e.locked], "ok")
	}
}

func blobCounts(keys []*agent.Key) map[string]int {
	m := map[string]int{}
	for _, k := range keys {
		m[string(k.Marshal())]++
	}
	return m
}

func (e *Engine) opList() {
	ub := e.snapshotU()
	t0 := time.Now().Unix()
	keys, err := e.Shim.List()
	t1 := time.Now().Unix()
	ua := e.snapshotU()
	e.log("list", "", fmt.Sprintf("%d identities %s", len(keys), errStr(err)))
	if e.locked {
		e.St.LockedOps++
		if err != nil || len(keys) != 0 {
			e.disc([]string{"C08"}, "locked-list-discloses", fmt.Sprintf("List while locked returned %d identities, err=%v", len(keys), err))
		}
		e.checkUnchanged(ub, ua, "list while locked")
		return
	}
	if err != nil {
		e.disc([]string{"C10"}, "list-fails-without-fault", fmt.Sprintf("List failed: %v", err))
		return
	}
	listed := blobCounts(keys)
	// blob -> the comments it is listed under (a blob held both in memory and by the underlying agent is listed
	// twice, in an order the sort does not fix): sorted, so that two listings compare as multisets
	byBlob := map[string][]string{}
	for _, k := range keys {
		byBlob[string(k.Marshal())] = append(byBlob[string(k.Marshal())], k.Comment)
	}
	e.lastListed = map[string]string{}
	for b, cs := range byBlob {
		sort.Strings(cs)
		e.lastListed[b] = strings.Join(cs, " | ")
	}
	e.checkListing(ub, t0, t1, listed, "List")
	e.checkPurgeU(ub, ua, t0, t1, "List", nil)
	// listed identities must carry the unchanged blob: every listed blob parses to the same key type
	for _, k := range keys {
		if _, perr := ssh.ParsePublicKey(k.Blob); perr != nil {
			e.disc([]string{"C10"}, "listed-blob-unparsable", fmt.Sprintf("%x: %v", k.Blob, perr))
		}
	}
	if len(keys) > 0 {
		e.hold("listed-blob", keys[e.R.Intn(len(keys))].Blob)
	}
}

func (e *Engine) opSigners() {
	ub := e.snapshotU()
	t0 := time.Now().Unix()
	sg, err := e.Shim.Signers()
	t1 := time.Now().Unix()
	ua := e.snapshotU()
	e.log("signers", "", fmt.Sprintf("%d signers %s", len(sg), errStr(err)))
	if e.locked {
		e.St.LockedOps++
		if err == nil {
			e.disc([]string{"C08"}, "locked-signers-succeeds", fmt.Sprintf("Signers while locked returned %d signers", len(sg)))
		}
		e.checkUnchanged(ub, ua, "signers while locked")
		return
	}
	if e.klocked {
		// the underlying agent refuses to enumerate signers while locked: outcome not fixed
		e.filterEffect(ub, t0, t1, nil, "Signers")
		return
	}
	if err != nil {
		e.disc([]string{"C10"}, "signers-fails-without-fault", fmt.Sprintf("Signers failed: %v", err))
		return
	}
	listed := map[string]int{}
	e.handedOut = nil
	for _, s := range sg {
		listed[string(s.PublicKey().Marshal())]++
		if len(e.handedOut) < 6 {
			e.handedOut = append(e.handedOut, s.PublicKey())
		}
	}
	e.checkListing(ub, t0, t1, listed, "Signers")
	e.checkPurgeU(ub, ua, t0, t1, "Signers", nil)
	// use one returned signer: the signature must verify under its public key
	if len(sg) > 0 {
		s := sg[e.R.Intn(len(sg))]
		data := gen.Bytes(e.R, 32)
		ub2 := e.snapshotU()
		s0 := time.Now().Unix()
		sig, serr := s.Sign(nil, data)
		s1 := time.Now().Unix()
		if _, ok := s.(ssh.AlgorithmSigner); !ok {
			// the underlying agent's own signers can be asked for an algorithm (an SSH client needs that for rsa-sha2-*)
			e.disc([]string{"C10"}, "signer-cannot-be-asked-for-an-algorithm", e.describe(string(s.PublicKey().Marshal())))
		}
		if as, ok := s.(ssh.AlgorithmSigner); ok && serr == nil {
			// what an SSH client does for public-key authentication: it names the algorithm of the key underneath
			// (for RSA one of the three that go with it); the empty name means the default
			base := s.PublicKey().Type()
			if pk, perr := ssh.ParsePublicKey(s.PublicKey().Marshal()); perr == nil {
				if c, ok := pk.(*ssh.Certificate); ok {
					base = c.Key.Type()
				}
			}
			algs := []string{base, ""}
			if base == ssh.KeyAlgoRSA {
				algs = []string{ssh.KeyAlgoRSASHA256, ssh.KeyAlgoRSASHA512, base, ""}
			}
			for _, alg := range algs {
				sig2, e2 := as.SignWithAlgorithm(nil, data, alg)
				want := alg
				if want == "" {
					want = base
				}
				if e2 != nil {
					if _, again := s.Sign(nil, data); again != nil {
						break // the identity stopped being usable in between (a lapsing certificate): nothing to compare
					}
					e.disc([]string{"C10"}, "signer-sign-with-algorithm-fails", fmt.Sprintf("%s %s: %v", e.describe(string(s.PublicKey().Marshal())), alg, e2))
				} else if sig2.Format != want || s.PublicKey().Verify(data, sig2) != nil {
					e.disc([]string{"C10"}, "signer-signature-with-algorithm-does-not-verify", fmt.Sprintf("%s %s: format %q", e.describe(string(s.PublicKey().Marshal())), alg, sig2.Format))
				} else {
					e.St.SignsVerified++
				}
			}
		}
		if _, isHard := e.m[string(s.PublicKey().Marshal())]; isHard {
			// a hardware-certificate signer signs through the shim itself (with the plain key): that is a
			// Sign operation and runs the filter once more
			e.filterEffect(ub2, s0, s1, nil, "Signer.Sign")
			e.checkPurgeU(ub2, e.snapshotU(), s0, s1, "Signer.Sign", nil)
		}
		if serr == nil {
			if verr := s.PublicKey().Verify(data, sig); verr != nil {
				e.disc([]string{"C10"}, "signer-signature-does-not-verify", fmt.Sprintf("%s: %v", e.describe(string(s.PublicKey().Marshal())), verr))
			} else {
				e.St.SignsVerified++
			}
		}
	}
}

func (e *Engine) checkUnchanged(ub, ua []ident, what string) {
	if e.klocked {
		return
	}
	if len(ub) != len(ua) {
		e.disc([]string{"C08"}, "locked-operation-changed-underlying-identities", fmt.Sprintf("%s: %d -> %d identities", what, len(ub), len(ua)))
		return
	}
	a := map[string]string{}
	for _, u := range ub {
		a[u.blob] = u.comment
	}
	for _, u := range ua {
		if c, ok := a[u.blob]; !ok || c != u.comment {
			e.disc([]string{"C08"}, "locked-operation-changed-underlying-identities", fmt.Sprintf("%s: %s changed", what, e.describe(u.blob)))
			return
		}
	}
}

// pickTarget chooses a public key to name in Sign/Remove.
func (e *Engine) pickTarget() (ssh.PublicKey, string) {
	u := e.snapshotU()
	mShare := 3
	if e.locked {
		mShare = 6 // what a locked shim must leave alone includes its in-memory certificates
	}
	switch n := e.R.Intn(10); {
	case n < mShare && len(e.m) > 0:
		bl := make([]string, 0, len(e.m))
		for b := range e.m {
			bl = append(bl, b)
		}
		sort.Strings(bl)
		b := bl[e.R.Intn(len(bl))]
		return e.m[b].m.Cert, b
	case n < 7 && len(u) > 0:
		x := u[e.R.Intn(len(u))]
		pk, err := ssh.ParsePublicKey([]byte(x.blob))
		if err == nil {
			return pk, x.blob
		}
	case n < 9:
		c := e.Mat.Certs[e.R.Intn(len(e.Mat.Certs))]
		return c.Cert, c.Blob
	}
	k := e.Mat.Keys[e.R.Intn(len(e.Mat.Keys))]
	return k.Pub, string(k.Pub.Marshal())
}

func (e *Engine) opSign() {
	key, blob := e.pickTarget()
	ub := e.snapshotU()
	data := append([]byte(fmt.Sprintf("sign-%d-", e.step)), gen.Bytes(e.R, e.R.Intn(64))...)
	var flags agent.SignatureFlags
	if strings.Contains(key.Type(), "rsa") {
		flags = []agent.SignatureFlags{0, agent.SignatureFlagRsaSha256, agent.SignatureFlagRsaSha512}[e.R.Intn(3)]
	}
	nreq := e.Ag.NumRequests()
	t0 := time.Now().Unix()
	sig, err := e.Shim.SignWithFlags(key, data, flags)
	t1 := time.Now().Unix()
	ua := e.snapshotU()
	e.log("sign", e.describe(blob), errStr(err))
	if e.locked {
		e.St.LockedOps++
		if err == nil {
			e.disc([]string{"C08"}, "locked-sign-succeeds", e.describe(blob))
		}
		e.checkUnchanged(ub, ua, "sign while locked")
		return
	}
	mcBefore, wasM := e.m[blob]
	mMaybe := wasM && mcBefore.maybe
	e.filterEffect(ub, t0, t1, nil, "Sign")
	e.checkPurgeU(ub, ua, t0, t1, "Sign", nil)
	_, isM := e.m[blob]
	if isM && e.m[blob].maybe {
		mMaybe = true
	}
	cert, isCert := key.(*ssh.Certificate)
	verify := func() {
		// the algorithm the caller asked for with the flags is the one the underlying agent would have used
		if strings.Contains(key.Type(), "rsa") {
			want := map[agent.SignatureFlags]string{0: ssh.KeyAlgoRSA, agent.SignatureFlagRsaSha256: ssh.KeyAlgoRSASHA256, agent.SignatureFlagRsaSha512: ssh.KeyAlgoRSASHA512}[flags]
			if sig.Format != want {
				e.disc([]string{"C10"}, "signature-algorithm-not-the-one-requested", fmt.Sprintf("Sign(%s) with flags %d: signature format %q, the underlying agent signs %q for these flags", e.describe(blob), flags, sig.Format, want))
				return
			}
		}
		if verr := key.Verify(data, sig); verr != nil {
			e.disc([]string{"C10"}, "signature-does-not-verify", fmt.Sprintf("Sign(%s): %v", e.describe(blob), verr))
		} else {
			e.St.SignsVerified++
			e.hold("signature", sig.Blob)
			if strings.HasPrefix(key.Type(), "sk-") {
				e.St.Ops["security-key-signature-verified"]++
			}
		}
	}
	// what reached the underlying agent
	var signReqs [][]byte
	for _, ev := range e.Ag.Events() {
		if ev.Idx >= nreq && ev.Code == 13 {
			signReqs = append(signReqs, ev.Req)
		}
	}
	tc := 1
	if isCert {
		tc = timeClass(cert, t0, t1)
	}
	if isCert && tc == -1 {
		if err == nil {
			e.disc([]string{"C07"}, "sign-with-out-of-window-cert-succeeds:"+windowOf(e, blob), fmt.Sprintf("Sign(%s) succeeded at [%d,%d]", e.describe(blob), t0, t1))
		}
		return
	}
	if tc == 0 || mMaybe || e.klocked {
		if err == nil {
			verify()
		}
		return
	}
	plainHeld := func(kb string) bool {
		for _, u := range ua {
			if !u.isCert && u.blob == kb {
				return true
			}
		}
		return false
	}
	inUa := func(b string) bool {
		for _, u := range ua {
			if u.blob == b {
				return true
			}
		}
		return false
	}
	switch {
	case isM:
		// hardware certificate: signs with the plain key held by the underlying agent
		if plainHeld(string(cert.Key.Marshal())) {
			if err != nil {
				e.disc([]string{"C10", "C09"}[:1+b2i(e.Cfg.NoUpstream)], "sign-with-hardware-cert-fails", fmt.Sprintf("Sign(%s): %v", e.describe(blob), err))
				return
			}
			verify()
			for _, rq := range signReqs {
				if !bytes.Contains(rq, cert.Key.Marshal()) || bytes.Contains(rq, cert.Marshal()) {
					e.disc([]string{"C10"}, "hardware-cert-sign-request-not-for-plain-key", fmt.Sprintf("underlying agent received %x…", rq[:min(len(rq), 40)]))
				}
			}
		}
	case isCert && e.Cfg.NoUpstream && gen.RefIsYSSHCA(cert.KeyId):
		if err == nil {
			e.disc([]string{"C09"}, "sign-with-hidden-upstream-cert-succeeds:"+kidOf(e, blob), e.describe(blob))
		}
		if len(signReqs) > 0 {
			e.disc([]string{"C09"}, "sign-with-hidden-upstream-cert-reaches-underlying-agent", e.describe(blob))
		}
	default:
		if inUa(blob) {
			if err != nil {
				props := []string{"C10"}
				if e.Cfg.NoUpstream || isCert {
					props = append(props, "C09")
				}
				e.disc(props, "sign-with-held-identity-fails", fmt.Sprintf("Sign(%s): %v", e.describe(blob), err))
				return
			}
			verify()
		} else if err == nil {
			// the key is not held anywhere and yet a signature came back
			if verr := key.Verify(data, sig); verr == nil {
				e.disc([]string{"C10"}, "sign-with-unheld-key-succeeds", e.describe(blob))
			} else {
				e.disc([]string{"C10"}, "sign-with-unheld-key-returns-bogus-signature", e.describe(blob))
			}
		}
	}
}

func b2i(b bool) int {
	if b {
		return 1
	}
	return 0
}

func (e *Engine) opAdd() {
	k := e.R.Intn(len(e.Mat.Keys))
	ak := agent.AddedKey{PrivateKey: e.Mat.Keys[k].Priv, Comment: "c-" + gen.Str(e.R, 6)}
	blob := string(e.Mat.Keys[k].Pub.Marshal())
	if e.R.Intn(2) == 0 {
		c := e.Mat.Certs[e.R.Intn(len(e.Mat.Certs))]
		k = c.KeyIdx
		ak.PrivateKey = e.Mat.Keys[c.KeyIdx].Priv
		ak.Certificate = c.Cert
		blob = c.Blob
	}
	if e.Mat.Keys[k].SK {
		// a client cannot put a security-key identity into an add-identity request with its private half;
		// such identities enter the underlying agent directly
		e.directAdd()
		return
	}
	ub := e.snapshotU()
	err := e.Shim.Add(ak)
	ua := e.snapshotU()
	e.log("add", e.describe(blob), errStr(err))
	if e.locked {
		e.St.LockedOps++
		if err == nil {
			e.disc([]string{"C08"}, "locked-add-succeeds", e.describe(blob))
		}
		e.checkUnchanged(ub, ua, "add while locked")
		return
	}
	if e.klocked {
		return
	}
	if err != nil {
		e.disc([]string{"C10"}, "add-fails-without-fault", fmt.Sprintf("Add(%s): %v", e.describe(blob), err))
		return
	}
	found := false
	for _, u := range ua {
		if u.blob == blob {
			found = true
			if u.comment != ak.Comment {
				e.disc([]string{"C10"}, "add-comment-altered", fmt.Sprintf("%q vs %q", u.comment, ak.Comment))
			}
		}
	}
	if !found {
		e.disc([]string{"C10"}, "added-identity-not-in-underlying-agent", e.describe(blob))
	}
	e.checkPurgeU(ub, ua, 0, 0, "Add", map[string]bool{"+" + blob: true})
}

func (e *Engine) opRemove() {
	key, blob := e.pickTarget()
	ub := e.snapshotU()
	err := e.Shim.Remove(key)
	ua := e.snapshotU()
	e.log("remove", e.describe(blob), errStr(err))
	if e.locked {
		e.St.LockedOps++
		if err == nil {
			e.disc([]string{"C08"}, "locked-remove-succeeds", e.describe(blob))
		}
		e.checkUnchanged(ub, ua, "remove while locked")
		if mc, ok := e.m[blob]; ok && !mc.maybe {
			e.St.Ops["locked remove naming an in-memory hardware certificate"]++
		}
		// the same request naming identities by the very objects the shim handed out (the public keys of the signers
		// of an earlier Signers call): whatever the type of the value, the agent is locked
		for _, pk := range e.handedOut {
			ub2 := e.snapshotU()
			err2 := e.Shim.Remove(pk)
			e.log("remove", "handed-out public key object "+e.describe(string(pk.Marshal())), errStr(err2))
			e.St.LockedOps++
			if err2 == nil {
				e.disc([]string{"C08"}, "locked-remove-succeeds:naming-a-handed-out-public-key-object", e.describe(string(pk.Marshal())))
			}
			e.checkUnchanged(ub2, e.snapshotU(), "remove while locked")
			e.St.Ops["locked remove naming a public key object handed out before the lock"]++
		}
		return
	}
	_, wasM := e.m[blob]
	delete(e.m, blob)
	if e.klocked {
		return
	}
	wasU := false
	var uid ident
	for _, u := range ub {
		if u.blob == blob {
			wasU, uid = true, u
		}
	}
	if (wasU || wasM) && err != nil {
		props := []string{"C10"}
		if wasU && e.hiddenU(uid) {
			props = []string{"C09"}
		}
		e.disc(props, "remove-of-held-identity-fails", fmt.Sprintf("Remove(%s): %v", e.describe(blob), err))
	}
	if !wasU && !wasM && err == nil {
		e.disc([]string{"C10"}, "remove-of-unheld-identity-succeeds", e.describe(blob))
	}
	for _, u := range ua {
		if u.blob == blob {
			props := []string{"C10"}
			if e.hiddenU(u) {
				props = []string{"C09"}
			}
			e.disc(props, "removed-identity-still-in-underlying-agent", e.describe(blob))
		}
	}
	e.checkPurgeU(ub, ua, 0, 0, "Remove", map[string]bool{blob: true})
	// a removed hardware certificate must not be listed any more: checked by the next listing through the model
	_ = wasM
}

func (e *Engine) opRemoveAll() {
	ub := e.snapshotU()
	err := e.Shim.RemoveAll()
	ua := e.snapshotU()
	e.log("remove-all", "", errStr(err))
	if e.locked {
		e.St.LockedOps++
		if err == nil {
			e.disc([]string{"C08"}, "locked-remove-all-succeeds", "")
		}
		e.checkUnchanged(ub, ua, "remove-all while locked")
		return
	}
	if e.klocked {
		for b := range e.m {
			e.m[b].maybe = true
		}
		return
	}
	e.m = map[string]*mcert{}
	if err != nil {
		e.disc([]string{"C10"}, "remove-all-fails-without-fault", err.Error())
		return
	}
	if len(ua) != 0 {
		e.disc([]string{"C10"}, "remove-all-leaves-identities", fmt.Sprintf("%d left", len(ua)))
	}
}

func (e *Engine) opAddHardCert() {
	var key ssh.PublicKey
	var blob string
	switch n := e.R.Intn(12); {
	case n == 0:
		k := e.Mat.Keys[e.R.Intn(len(e.Mat.Keys))]
		key, blob = k.Pub, string(k.Pub.Marshal())
	default:
		c := e.Mat.Certs[e.R.Intn(len(e.Mat.Certs))]
		key, blob = c.Cert, c.Blob
	}
	ub := e.snapshotU()
	orig := key
	var scratch []byte
	if _, ok := key.(*ssh.Certificate); ok && e.R.Intn(4) == 0 {
		// the same certificate in the shape a listing returns it (format + blob). The buffer stays the shim's: what a
		// caller does to memory it has handed over is outside the property (the shim keeps a caller's *ssh.Certificate
		// the same way)
		scratch = []byte(blob)
		key = &agent.Key{Format: key.Type(), Blob: scratch, Comment: "as listed"}
		e.St.Ops["add-hard-cert given a listed identity (format + blob)"]++
	}
	err := e.Shim.AddHardCert(key, "hc"+gen.Ident(e.R, 3))
	key = orig
	ua := e.snapshotU()
	e.log("add-hard-cert", e.describe(blob), errStr(err))
	if e.locked {
		e.St.LockedOps++
		if err == nil {
			e.disc([]string{"C08"}, "locked-add-hard-cert-succeeds", e.describe(blob))
		}
		e.checkUnchanged(ub, ua, "add-hard-cert while locked")
		return
	}
	e.checkPurgeU(ub, ua, 0, 0, "AddHardCert", nil)
	cert, isCert := key.(*ssh.Certificate)
	if !isCert {
		if err == nil {
			e.disc([]string{"C10"}, "non-certificate-accepted-as-hardware-cert", e.describe(blob))
		}
		return
	}
	if mc, ok := e.m[blob]; ok {
		if mc.maybe {
			return // stale entry: outcome open until the next listing
		}
		if err != nil {
			e.disc([]string{"C10"}, "re-adding-hardware-cert-fails", fmt.Sprintf("%s: %v", e.describe(blob), err))
		}
		return
	}
	raw := ub
	if e.klocked {
		raw = nil
	}
	held := false
	for _, u := range raw {
		if !u.isCert && u.blob == string(cert.Key.Marshal()) {
			held = true
		}
	}
	switch {
	case held && err != nil:
		e.disc([]string{"C10"}, "hardware-cert-with-held-key-refused", fmt.Sprintf("%s: %v", e.describe(blob), err))
	case !held && err == nil:
		e.disc([]string{"C10"}, "hardware-cert-without-held-key-accepted", fmt.Sprintf("%s accepted although the underlying agent does not list its public key as an identity", e.describe(blob)))
		e.m[blob] = &mcert{m: e.matCert(blob), maybe: true}
	case held:
		e.m[blob] = &mcert{m: e.matCert(blob)}
	}
}

func (e *Engine) opLock() {
	p := []byte("pw-" + gen.Ident(e.R, 6))
	switch e.R.Intn(7) {
	case 0:
		p = []byte{}
	case 1:
		p = gen.Bytes(e.R, 1024)
	case 2:
		p = append(p, []string{"\n", "\r\n", "\r", " ", "\x00", "\n\n"}[e.R.Intn(6)]...)
	}
	var pre map[string]string
	if !e.locked && !e.klocked {
		// what the shim shows just before it is locked is what it must show again once unlocked
		e.lastListed = nil
		e.opList()
		pre = e.lastListed
	}
	ub := e.snapshotU()
	nreq := e.Ag.NumRequests()
	err := e.Shim.Lock(p)
	e.log("lock", fmt.Sprintf("%d-byte passphrase", len(p)), errStr(err))
	if !e.locked && e.refusedByFault(nreq) {
		e.St.Ops["lock refused by the underlying agent (fault)"]++
		if err == nil {
			e.disc([]string{"C08"}, "lock-succeeds-although-underlying-agent-refused", "the underlying agent answered the lock request with a failure/garbage reply")
		}
		// the shim must still be unlocked: the next operations are judged as unlocked
		return
	}
	if e.locked {
		e.St.LockedOps++
		if err == nil {
			e.disc([]string{"C08"}, "lock-while-locked-succeeds", "")
		}
		return
	}
	if e.klocked {
		// the underlying agent refuses (it is already locked): the shim must stay unlocked
		if err == nil {
			e.disc([]string{"C08"}, "lock-succeeds-although-underlying-agent-refused", "")
			e.locked = true
		}
		return
	}
	if err != nil {
		e.disc([]string{"C08"}, "lock-fails-without-fault", err.Error())
		return
	}
	e.locked, e.klocked, e.kpass = true, true, p
	e.preLock, e.snapOK = ub, true
	e.preShim = pre
	e.lastU = ub
}

func (e *Engine) opUnlock() {
	p := e.kpass
	if e.R.Intn(3) == 0 || !e.klocked {
		p = []byte("wrong-" + gen.Ident(e.R, 4))
		if e.R.Intn(3) == 0 && len(e.kpass) > 0 {
			p = append(append([]byte{}, e.kpass...), 'x')
		}
		if e.R.Intn(5) == 0 && len(e.kpass) > 1 {
			p = e.kpass[:len(e.kpass)-1]
		}
		if e.R.Intn(4) == 0 {
			p = append(append([]byte{}, e.kpass...), []string{"\n", "\r\n", "\r", " "}[e.R.Intn(4)]...)
		}
		if e.R.Intn(6) == 0 {
			p = bytes.TrimRight(e.kpass, "\r\n ")
		}
	}
	right := e.klocked && bytes.Equal(p, e.kpass)
	nreq := e.Ag.NumRequests()
	err := e.Shim.Unlock(p)
	e.log("unlock", map[bool]string{true: "right", false: "wrong"}[right], errStr(err))
	if e.locked && e.refusedByFault(nreq) {
		e.St.Ops["unlock refused by the underlying agent (fault)"]++
		if err == nil {
			e.disc([]string{"C08"}, "unlock-succeeds-although-underlying-agent-refused", "the underlying agent answered the unlock request with a failure/garbage reply")
		}
		return // still locked
	}
	if !e.locked {
		if err == nil {
			e.disc([]string{"C08"}, "unlock-of-unlocked-agent-succeeds", "")
			if right {
				e.klocked = false
			}
		}
		// an unlocked shim must not pass the request on
		if e.klocked && !e.keyringLocked() {
			e.disc([]string{"C08"}, "unlock-of-unlocked-shim-unlocks-underlying-agent", "")
			e.klocked = false
		}
		return
	}
	e.St.LockedOps++
	if right {
		if err != nil {
			e.disc([]string{"C08"}, "unlock-with-right-passphrase-fails", err.Error())
			return
		}
		e.locked, e.klocked = false, false
		if e.snapOK {
			e.compareViews(e.preLock, e.snapshotU())
			if e.preShim != nil && len(e.Disc) == 0 {
				// the shim's own view: everything it listed before the lock and that is still within its validity
				// window is listed again, with the same comment, and nothing else is
				e.lastListed = nil
				heldBefore := map[string]bool{}
				for b := range e.m {
					heldBefore[b] = true
				}
				e.opList()
				now := time.Now().Unix()
				if e.lastListed != nil && len(e.Disc) == 0 {
					for blob, comment := range e.preShim {
						if mc, still := e.m[blob]; heldBefore[blob] && (!still || mc.maybe) {
							// an in-memory hardware certificate that the listing just made was entitled to drop (its backing
							// key left the underlying agent before the lock, e.g. with a lapsed certificate purged by the
							// listing before the lock): that is the filter's doing (C07), judged by the model in opList
							continue
						}
						if pk, perr := ssh.ParsePublicKey([]byte(blob)); perr == nil {
							if c, ok := pk.(*ssh.Certificate); ok && timeClass(c, now-2, now+2) != 1 {
								continue
							}
						}
						got, ok := e.lastListed[blob]
						if !ok {
							e.disc([]string{"C08"}, "identity-listed-before-lock-missing-after-unlock", e.describe(blob))
							break
						}
						if got != comment {
							e.disc([]string{"C08"}, "identity-comment-differs-after-unlock", fmt.Sprintf("%s: %q before the lock, %q after the unlock", e.describe(blob), comment, got))
							break
						}
					}
					for blob := range e.lastListed {
						if _, ok := e.preShim[blob]; !ok {
							e.disc([]string{"C08"}, "identity-appears-after-unlock", e.describe(blob))
							break
						}
					}
					e.St.Ops["shim listings compared across a lock/unlock pair"]++
				}
			}
		}
		e.preShim = nil
		return
	}
	if err == nil {
		e.disc([]string{"C08"}, "unlock-succeeds-although-underlying-agent-refused", fmt.Sprintf("keyring locked=%v, passphrase matches=%v", e.klocked, bytes.Equal(p, e.kpass)))
		e.locked = false
	}
}

func (e *Engine) compareViews(pre, post []ident) {
	a := map[string]string{}
	for _, u := range pre {
		a[u.blob] = u.comment
	}
	if len(pre) != len(post) {
		e.disc([]string{"C08"}, "unlock-does-not-restore-underlying-identities", fmt.Sprintf("%d before lock, %d after unlock", len(pre), len(post)))
		return
	}
	for _, u := range post {
		if c, ok := a[u.blob]; !ok || c != u.comment {
			e.disc([]string{"C08"}, "unlock-does-not-restore-underlying-identities", e.describe(u.blob))
			return
		}
	}
}

// keyringLocked probes the keyring's real lock state without changing it.
func (e *Engine) keyringLocked() bool {
	probe := []byte("probe")
	if err := e.Ag.Keyring.Lock(probe); err != nil {
		return true
	}
	e.Ag.Keyring.Unlock(probe)
	return false
}

func (e *Engine) opForward() {
	e.tagN++
	var req []byte
	switch e.R.Intn(5) {
	case 4:
		// a request the shim does not interpret may still change what the underlying agent holds: an add-identity
		// (or remove-identity) request relayed raw, as another implementation's client library might send it
		var pick []*gen.Key
		for _, k := range e.Mat.Keys {
			if !k.SK {
				pick = append(pick, k)
			}
		}
		k := pick[e.R.Intn(len(pick))]
		fr := frames.Captured(func(a agent.ExtendedAgent) {
			if e.R.Intn(3) == 0 {
				a.Remove(k.Pub)
			} else {
				a.Add(agent.AddedKey{PrivateKey: k.Priv, Comment: "raw-" + gen.Ident(e.R, 4)})
			}
		})
		if len(fr) == 1 {
			req = fr[0]
			e.snapOK = false
			e.St.Ops["raw add/remove-identity requests relayed"]++
		} else {
			req = []byte{200, 1}
		}
	case 0:
		req = append([]byte{200}, []byte(fmt.Sprintf("tag-%d-%s", e.tagN, gen.Ident(e.R, 8)))...)
	case 1:
		req = append([]byte{byte(36 + e.R.Intn(160))}, gen.Bytes(e.R, e.R.Intn(300))...)
	case 2:
		req = append([]byte{200}, gen.Bytes(e.R, 1<<uint(e.R.Intn(17)))...)
	default:
		req = []byte{byte(24 + e.R.Intn(8))}
	}
	if e.locked || e.klocked {
		req = append([]byte{200}, gen.Bytes(e.R, 16)...)
	}
	if e.locked && e.klocked && e.R.Intn(3) == 0 {
		// a raw unlock (or lock) request with a passphrase that is not the one the agent was locked with, relayed as it
		// is: the underlying agent refuses it, and the shim is exactly as locked as before (the operations that follow
		// in this history are judged against that)
		wrong := append(append([]byte(nil), e.kpass...), 'x')
		req = append([]byte{byte(23 - e.R.Intn(4)/3)}, ssh.Marshal(struct{ P []byte }{wrong})...)
		e.St.Ops["raw unlock/lock requests with a wrong passphrase relayed while locked"]++
	}
	nreq := e.Ag.NumRequests()
	resp, err := e.Shim.Forward(req)
	e.log("forward", fmt.Sprintf("code %d, %d bytes", req[0], len(req)), errStr(err))
	if err != nil {
		e.disc([]string{"C10"}, "forward-fails-without-fault", err.Error())
		return
	}
	var evs []wire.Event
	for _, ev := range e.Ag.Events() {
		if ev.Idx >= nreq {
			evs = append(evs, ev)
		}
	}
	if len(evs) != 1 {
		e.disc([]string{"C10"}, "forward-not-one-upstream-request", fmt.Sprintf("%d requests reached the underlying agent", len(evs)))
		return
	}
	if !bytes.Equal(evs[0].Req, req) {
		e.disc([]string{"C10"}, "forward-request-bytes-altered", fmt.Sprintf("sent %d bytes, underlying agent received %d bytes", len(req), len(evs[0].Req)))
	}
	if !bytes.Equal(evs[0].Reply, resp) {
		e.disc([]string{"C10"}, "forward-reply-bytes-altered", fmt.Sprintf("underlying agent sent %d bytes, caller received %d bytes", len(evs[0].Reply), len(resp)))
	}
	// the caller keeps what it was handed (and what it passed): later operations must not change either
	for _, h := range e.held {
		if !bytes.Equal(h.got, h.want) {
			e.disc([]string{"C10"}, "forward-reply-changes-afterwards", fmt.Sprintf("a reply of %d bytes relayed %d operations ago no longer equals what the underlying agent sent", len(h.want), e.step-h.step))
			e.held = nil
			break
		}
	}
	if len(e.held) < 4 {
		e.held = append(e.held, heldBytes{got: resp, want: append([]byte(nil), evs[0].Reply...), step: e.step})
		e.held = append(e.held, heldBytes{got: req, want: append([]byte(nil), evs[0].Req...), step: e.step})
	} else {
		e.held[e.R.Intn(len(e.held))] = heldBytes{got: resp, want: append([]byte(nil), evs[0].Reply...), step: e.step}
	}
	e.St.Forwarded++
}

type heldBytes struct {
	got, want []byte
	step      int
	what      string
}

// hold remembers a byte slice the shim handed to the caller; checkHeld (run after every operation) verifies that
// nothing the shim did later changed it.
func (e *Engine) hold(what string, b []byte) {
	h := heldBytes{got: b, want: append([]byte(nil), b...), step: e.step, what: what}
	if len(e.heldRes) < 12 {
		e.heldRes = append(e.heldRes, h)
	} else {
		e.heldRes[e.R.Intn(len(e.heldRes))] = h
	}
}

func (e *Engine) checkHeld() {
	for _, h := range e.heldRes {
		if !bytes.Equal(h.got, h.want) {
			e.disc([]string{"C10"}, "result-changes-afterwards:"+h.what, fmt.Sprintf("%d bytes handed out by the shim %d operations ago have changed", len(h.want), e.step-h.step))
			e.heldRes = nil
			return
		}
	}
}

// opCloseLocked: closing a locked shim must fail and leave it usable (an unlocked shim is not closed mid-history).
func (e *Engine) opCloseLocked() {
	if !e.locked {
		return
	}
	ub := e.snapshotU()
	err := e.Shim.Close()
	e.log("close", "while locked", errStr(err))
	e.St.LockedOps++
	if err == nil {
		e.disc([]string{"C08"}, "locked-close-succeeds", "Close while locked returned nil")
		e.hung = true // the connection is gone; end the history
		return
	}
	e.checkUnchanged(ub, e.snapshotU(), "close while locked")
}

// opNilKeys passes nil keys: every operation must refuse them with an error (a crash is caught by the caller's guard).
func (e *Engine) opNilKeys() {
	ub := e.snapshotU()
	_, e1 := e.Shim.Sign(nil, []byte("x"))
	e2 := e.Shim.Remove(nil)
	e3 := e.Shim.AddHardCert(nil, "c")
	e.log("nil-keys", "", fmt.Sprintf("%v|%v|%v", e1 != nil, e2 != nil, e3 != nil))
	if e1 == nil || e2 == nil || e3 == nil {
		e.disc([]string{"C10"}, "nil-key-accepted", fmt.Sprintf("sign err=%v remove err=%v add-hard-cert err=%v", e1, e2, e3))
	}
	e.checkPurgeU(ub, e.snapshotU(), 0, 0, "nil-key operations", nil)
}

func (e *Engine) opSleepUntilLapse() {
	var target int64
	for _, c := range e.Mat.Certs {
		if c.Window == WLapsing {
			target = int64(c.Cert.ValidBefore) + 1
		}
	}
	if target == 0 {
		return
	}
	d := time.Until(time.Unix(target, 0)) + 1100*time.Millisecond
	if d > 0 && d < 6*time.Second {
		time.Sleep(d)
	}
	e.log("sleep-until-lapse", "", "")
}

// Run executes the history.
func (e *Engine) Run() {
	type wop struct {
		name string
		w    int
		f    func()
	}
	w := func(name string, def int) int {
		if v, ok := e.Cfg.Weights[name]; ok {
			return v
		}
		return def
	}
	ops := []wop{
		{"list", w("list", 10), e.opList}, {"signers", w("signers", 6), e.opSigners}, {"sign", w("sign", 10), e.opSign},
		{"add", w("add", 8), e.opAdd}, {"remove", w("remove", 5), e.opRemove}, {"remove-all", w("remove-all", 1), e.opRemoveAll},
		{"add-hard-cert", w("add-hard-cert", 10), e.opAddHardCert}, {"direct-add", w("direct-add", 6), e.directAdd}, {"direct-remove", w("direct-remove", 4), e.directRemove},
	}
	if w("nil-keys", 0) > 0 {
		ops = append(ops, wop{"nil-keys", w("nil-keys", 0), e.opNilKeys})
	}
	if e.Cfg.LockOps {
		ops = append(ops, wop{"lock", w("lock", 6), e.opLock}, wop{"unlock", w("unlock", 8), e.opUnlock}, wop{"close-locked", w("close-locked", 1), e.opCloseLocked})
	}
	if e.Cfg.DirectLock {
		ops = append(ops, wop{"direct-lock", w("direct-lock", 2), e.directLock})
	}
	if e.Cfg.Forward {
		ops = append(ops, wop{"forward", w("forward", 5), e.opForward})
	}
	total := 0
	for _, o := range ops {
		total += o.w
	}
	slept := false
	for e.step = 0; e.step < e.Cfg.Steps; e.step++ {
		if e.Cfg.Lapsing && !slept && e.step == e.Cfg.Steps/2 {
			e.opSleepUntilLapse()
			slept = true
		}
		x := e.R.Intn(total)
		for _, o := range ops {
			if x < o.w {
				o.f()
				break
			}
			x -= o.w
		}
		if e.hung {
			return
		}
		e.checkHeld()
		e.St.ModelStates[e.stateSig(e.snapshotU())] = struct{}{}
		if len(e.Disc) > 3 {
			return
		}
	}
	// closing observation: a final listing so that every pending expectation is resolved
	e.Ag.SetPlan(nil)
	if e.locked {
		if !e.klocked {
			// the keyring was unlocked behind the shim's back: lock it again with the same passphrase so that the shim can be unlocked
			if e.Ag.Keyring.Lock(e.kpass) == nil {
				e.klocked = true
			}
		}
		if err := e.Shim.Unlock(e.kpass); err != nil {
			e.disc([]string{"C08"}, "unlock-with-right-passphrase-fails", "closing unlock: "+err.Error())
			return
		}
		e.locked, e.klocked = false, false
		e.log("unlock", "right (closing)", "ok")
	}
	if e.klocked {
		e.Ag.Keyring.Unlock(e.kpass)
		e.klocked = false
	}
	e.opList()
	e.opSigners()
}
