package shimhist

import (
	"errors"
	"fmt"
	"io"
	"os"
	"runtime/debug"
	"sync/atomic"
	"time"

	"golang.org/x/crypto/ssh"
	"golang.org/x/crypto/ssh/agent"

	"github.com/theparanoids/ysshra/agent/shimagent"
	"github.com/theparanoids/ysshra/verifharness/lib/ev"
)

// OpTimeout bounds one shim operation. It is a watchdog, far above anything a
// healthy exchange over a local socket takes.
var OpTimeout = func() time.Duration {
	if v := os.Getenv("VERIF_OP_TIMEOUT_S"); v != "" {
		var n int
		if _, err := fmt.Sscan(v, &n); err == nil && n > 0 {
			return time.Duration(n) * time.Second
		}
	}
	return 60 * time.Second
}()

// ErrHung is returned by the guarded shim when an operation did not return.
var ErrHung = errors.New("verif: operation did not return within the watchdog")

// Guarded wraps a shim so that an operation that never returns becomes an
// observable event instead of a stuck check. onHang is called once with the
// operation name; it should unblock the operation (e.g. close the underlying agent).
type Guarded struct {
	Inner  shimagent.ShimAgent
	OnHang func(op string)
	Hung   atomic.Bool
	// Group, if set, is shared by all handles on one agent: once one of them hung, the others stop waiting too.
	Group *atomic.Bool
}

func (g *Guarded) do(op string, f func()) bool {
	if g.Hung.Load() || (g.Group != nil && g.Group.Load()) {
		g.Hung.Store(true)
		return false
	}
	done := make(chan *ev.CarriedPanic, 1)
	go func() {
		defer func() {
			if p := recover(); p != nil {
				done <- &ev.CarriedPanic{Val: p, Stack: string(debug.Stack())}
				return
			}
			done <- nil
		}()
		f()
	}()
	t := time.NewTimer(OpTimeout)
	defer t.Stop()
	select {
	case cp := <-done:
		if cp != nil {
			panic(cp)
		}
		return true
	case <-t.C:
		g.Hung.Store(true)
		if g.Group != nil {
			g.Group.Store(true)
		}
		if g.OnHang != nil {
			g.OnHang(op)
		}
		return false
	}
}

func (g *Guarded) List() (k []*agent.Key, err error) {
	if !g.do("list", func() { k, err = g.Inner.List() }) {
		return nil, ErrHung
	}
	return
}
func (g *Guarded) Sign(key ssh.PublicKey, data []byte) (s *ssh.Signature, err error) {
	return g.SignWithFlags(key, data, 0)
}
func (g *Guarded) SignWithFlags(key ssh.PublicKey, data []byte, fl agent.SignatureFlags) (s *ssh.Signature, err error) {
	if !g.do("sign", func() { s, err = g.Inner.SignWithFlags(key, data, fl) }) {
		return nil, ErrHung
	}
	return
}
func (g *Guarded) Add(k agent.AddedKey) (err error) {
	if !g.do("add", func() { err = g.Inner.Add(k) }) {
		return ErrHung
	}
	return
}
func (g *Guarded) Remove(k ssh.PublicKey) (err error) {
	if !g.do("remove", func() { err = g.Inner.Remove(k) }) {
		return ErrHung
	}
	return
}
func (g *Guarded) RemoveAll() (err error) {
	if !g.do("remove-all", func() { err = g.Inner.RemoveAll() }) {
		return ErrHung
	}
	return
}
func (g *Guarded) Lock(p []byte) (err error) {
	if !g.do("lock", func() { err = g.Inner.Lock(p) }) {
		return ErrHung
	}
	return
}
func (g *Guarded) Unlock(p []byte) (err error) {
	if !g.do("unlock", func() { err = g.Inner.Unlock(p) }) {
		return ErrHung
	}
	return
}
func (g *Guarded) Signers() (s []ssh.Signer, err error) {
	if !g.do("signers", func() { s, err = g.Inner.Signers() }) {
		return nil, ErrHung
	}
	// the signers handed out are used later: their signatures run under the same watchdog
	for i, sg := range s {
		if as, ok := sg.(ssh.AlgorithmSigner); ok {
			s[i] = guardedAlgSigner{guardedSigner{sg, g}, as}
		} else {
			s[i] = guardedSigner{sg, g}
		}
	}
	return
}

type guardedSigner struct {
	inner ssh.Signer
	g     *Guarded
}

func (s guardedSigner) PublicKey() ssh.PublicKey { return s.inner.PublicKey() }
func (s guardedSigner) Sign(rand io.Reader, data []byte) (sig *ssh.Signature, err error) {
	if !s.g.do("signer-sign", func() { sig, err = s.inner.Sign(rand, data) }) {
		return nil, ErrHung
	}
	return
}

type guardedAlgSigner struct {
	guardedSigner
	as ssh.AlgorithmSigner
}

func (s guardedAlgSigner) SignWithAlgorithm(rand io.Reader, data []byte, alg string) (sig *ssh.Signature, err error) {
	if !s.g.do("signer-sign-with-algorithm", func() { sig, err = s.as.SignWithAlgorithm(rand, data, alg) }) {
		return nil, ErrHung
	}
	return
}
func (g *Guarded) Extension(t string, c []byte) (b []byte, err error) {
	if !g.do("extension", func() { b, err = g.Inner.Extension(t, c) }) {
		return nil, ErrHung
	}
	return
}
func (g *Guarded) Forward(req []byte) (b []byte, err error) {
	if !g.do("forward", func() { b, err = g.Inner.Forward(req) }) {
		return nil, ErrHung
	}
	return
}
func (g *Guarded) AddHardCert(k ssh.PublicKey, c string) (err error) {
	if !g.do("add-hard-cert", func() { err = g.Inner.AddHardCert(k, c) }) {
		return ErrHung
	}
	return
}
func (g *Guarded) Wait(m byte) error { return g.Inner.Wait(m) }
func (g *Guarded) Close() (err error) {
	if g.Hung.Load() {
		return ErrHung
	}
	if !g.do("close", func() { err = g.Inner.Close() }) {
		return ErrHung
	}
	return
}

var _ shimagent.ShimAgent = (*Guarded)(nil)

func hangDetail(op string) string {
	return fmt.Sprintf("operation %q did not return within %s (the exchange with the underlying agent is stuck: request or reply bytes were lost or mis-framed)", op, OpTimeout)
}
