package shimhist

import (
	"fmt"
	"sort"
	"strings"
	"sync"

	"github.com/theparanoids/ysshra/verifharness/lib/ev"
)

// Batch runs n histories of a family and reports discrepancies of property prop.
// mk returns the configuration of history i. nontrivial decides whether a
// finished history counts as non-trivial for the property.
func Batch(r *ev.Run, prop, family string, n, parallel int, mk func(c *ev.Case, i int) Config, nontrivial func(e *Engine, before, after Stats) bool) *Stats {
	total := NewStats()
	var mu sync.Mutex
	sem := make(chan struct{}, parallel)
	var wg sync.WaitGroup
	for i := 0; i < n; i++ {
		c := r.Case(family, i)
		if c == nil {
			continue
		}
		if r.NumViolations() > 12 {
			// enough witnesses: the verdict is settled, and histories on a broken tree can be slow (every
			// operation that never returns costs a watchdog period)
			r.Count("histories skipped after more than 12 violations had been recorded", 1)
			continue
		}
		wg.Add(1)
		sem <- struct{}{}
		go func(c *ev.Case, i int) {
			defer wg.Done()
			defer func() { <-sem }()
			cfg := mk(c, i)
			st := NewStats()
			var e *Engine
			panicked := r.Guard(c, "shim-history", map[string]any{"family": family, "index": i, "config": fmt.Sprintf("%+v", cfg)}, func() {
				var err error
				e, err = New(c.Rand, cfg, st)
				if err != nil {
					r.Violation(c, "shim-construction-fails-without-fault", err.Error(), nil)
					return
				}
				defer e.Close()
				e.Run()
			})
			r.Eval(1)
			if panicked || e == nil {
				return
			}
			other := 0
			for _, d := range e.Disc {
				if d.Has(prop) {
					r.Violation(c, d.Sig, d.Detail, map[string]any{"family": family, "index": i, "trace": e.Trace})
				} else {
					other++
				}
			}
			mu.Lock()
			defer mu.Unlock()
			if other > 0 {
				r.Count("discrepancies belonging to another property's check (not reported here)", other)
				for _, d := range e.Disc {
					if !d.Has(prop) {
						r.Count("  other: "+strings.Join(d.Props, "+")+" "+d.Sig, 1)
					}
				}
			}
			if nontrivial(e, *total, *st) {
				r.Nontrivial(e.TraceText())
			}
			if i < 2 {
				r.Sample(map[string]any{"family": family, "no_upstream": cfg.NoUpstream, "trace": e.Trace})
			}
			merge(total, st)
		}(c, i)
	}
	wg.Wait()
	return total
}

func merge(a, b *Stats) {
	for k, v := range b.Ops {
		a.Ops[k] += v
	}
	for k := range b.ModelStates {
		a.ModelStates[k] = struct{}{}
	}
	a.Listings += b.Listings
	a.ListedIdents += b.ListedIdents
	a.Purged += b.Purged
	a.OrphansDropped += b.OrphansDropped
	a.Hidden += b.Hidden
	a.SignsVerified += b.SignsVerified
	a.LockedOps += b.LockedOps
	a.Forwarded += b.Forwarded
}

// Report writes the stats into the evidence counters.
func Report(r *ev.Run, st *Stats) {
	keys := make([]string, 0, len(st.Ops))
	for k := range st.Ops {
		keys = append(keys, k)
	}
	sort.Strings(keys)
	for _, k := range keys {
		r.Count("op "+k, st.Ops[k])
	}
	r.Count("listings judged", st.Listings)
	r.Count("identities seen in listings", st.ListedIdents)
	r.Count("out-of-window certificates purged (model)", st.Purged)
	r.Count("orphan hardware certificates dropped (model)", st.OrphansDropped)
	r.Count("hidden upstream YSSHCA certificates at listings", st.Hidden)
	r.Count("signatures verified", st.SignsVerified)
	r.Count("operations issued while the shim was locked", st.LockedOps)
	r.Count("raw requests relayed and compared byte for byte", st.Forwarded)
	r.Extra("distinct_model_states", len(st.ModelStates))
}
