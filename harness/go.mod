module github.com/theparanoids/ysshra/verifharness

go 1.23.0

require (
	github.com/anishathalye/porcupine v1.3.0
	github.com/rs/zerolog v1.33.0
	github.com/theparanoids/ysshra v0.0.0
	golang.org/x/crypto v0.35.0
)

require (
	github.com/mattn/go-colorable v0.1.13 // indirect
	github.com/mattn/go-isatty v0.0.19 // indirect
	golang.org/x/sys v0.30.0 // indirect
)

replace github.com/theparanoids/ysshra => /repo
