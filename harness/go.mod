module github.com/theparanoids/ysshra/verifharness

go 1.23.0

require (
	github.com/anishathalye/porcupine v1.3.0
	github.com/rs/zerolog v1.33.0
	github.com/theparanoids/crypki v1.20.7
	github.com/theparanoids/ysshra v0.0.0
	golang.org/x/crypto v0.35.0
	google.golang.org/grpc v1.70.0
	google.golang.org/protobuf v1.36.5
)

require (
	github.com/gabriel-vasile/mimetype v1.4.3 // indirect
	github.com/go-logr/logr v1.4.2 // indirect
	github.com/go-logr/stdr v1.2.2 // indirect
	github.com/go-playground/locales v0.14.1 // indirect
	github.com/go-playground/universal-translator v0.18.1 // indirect
	github.com/go-playground/validator/v10 v10.23.0 // indirect
	github.com/golang/mock v1.6.0 // indirect
	github.com/grpc-ecosystem/go-grpc-middleware v1.4.0 // indirect
	github.com/grpc-ecosystem/grpc-gateway/v2 v2.26.1 // indirect
	github.com/leodido/go-urn v1.4.0 // indirect
	github.com/mattn/go-colorable v0.1.13 // indirect
	github.com/mattn/go-isatty v0.0.19 // indirect
	github.com/mitchellh/mapstructure v1.5.0 // indirect
	go.opentelemetry.io/auto/sdk v1.1.0 // indirect
	go.opentelemetry.io/contrib/instrumentation/google.golang.org/grpc/otelgrpc v0.59.0 // indirect
	go.opentelemetry.io/otel v1.34.0 // indirect
	go.opentelemetry.io/otel/metric v1.34.0 // indirect
	go.opentelemetry.io/otel/trace v1.34.0 // indirect
	go.uber.org/multierr v1.11.0 // indirect
	golang.org/x/net v0.34.0 // indirect
	golang.org/x/sys v0.30.0 // indirect
	golang.org/x/text v0.22.0 // indirect
	google.golang.org/genproto/googleapis/api v0.0.0-20250204164813-702378808489 // indirect
	google.golang.org/genproto/googleapis/rpc v0.0.0-20250204164813-702378808489 // indirect
)

replace github.com/theparanoids/ysshra => /repo
